(* C07 Control plane converges despite message faults and coordinator crashes (and the reconvergence half of C13).
   Statements only; proofs live in Proofs/CtrlProofs*.v.  The model is Model/Ctrl.v.
   `served` is the broker abstracted to the views it serves over time; the only facts assumed about it are C04's:
   served_mono_prop (per address the served epoch never decreases) and served_same_prop (equal epochs imply equal content). *)
From UM Require Import Base.BytesDef Model.Ctrl Proofs.CtrlProofsInv Proofs.CtrlProofsMain Proofs.CtrlProofsRound
  Proofs.CtrlProofsMig Proofs.CtrlProofsTwo Proofs.CtrlProofsOrder Proofs.CtrlProofsBroker.
From UM Require Model.CtrlFail Proofs.CtrlProofsFail.

(* For every event sequence whatsoever (drops, duplicates, delays = late Deliver, reordering, coordinator crashes, restarts of
   other proxies, broker changes, any number of coordinators): as long as proxy a is not restarted its installed epoch (of either
   kind) never decreases, and whatever it holds is exactly what the broker served to it at that epoch *)
Theorem C07_never_older : forall served, served_same_prop served ->
  forall pre evs a k, no_restart a evs = true ->
  let st := run served pre init in
  let st' := run served evs st in
  k_epoch (installed st a k) <= k_epoch (installed st' a k)
  /\ (k_epoch (installed st' a k) <> 0 ->
      (exists t, (t <= now st')%nat /\ served t a = Some (k_epoch (installed st' a k), k_content (installed st' a k)))
      /\ (forall t c, served t a = Some (k_epoch (installed st' a k), c) -> c = k_content (installed st' a k))).
Proof. exact never_older. Qed.
Check C07_never_older : forall served, served_same_prop served ->
  forall pre evs a k, no_restart a evs = true ->
  let st := run served pre init in
  let st' := run served evs st in
  k_epoch (installed st a k) <= k_epoch (installed st' a k)
  /\ (k_epoch (installed st' a k) <> 0 ->
      (exists t, (t <= now st')%nat /\ served t a = Some (k_epoch (installed st' a k), k_content (installed st' a k)))
      /\ (forall t c, served t a = Some (k_epoch (installed st' a k), c) -> c = k_content (installed st' a k))).
Print Assumptions C07_never_older.

(* From any reachable state, in any tail during which the broker does not change and a is not restarted - whatever else happens
   in it: stale calls delivered in any order, drops, duplicates, crashes, other coordinators - once a call carrying the current
   view has reached a, a holds exactly the current view (epoch and content) at the end of the tail *)
Theorem C07_converge : forall served, served_mono_prop served -> served_same_prop served ->
  forall pre tail a k E C,
  let st := run served pre init in
  served (now st) a = Some (E, C) -> 0 < E ->
  now (run served tail st) = now st ->
  no_restart a tail = true ->
  (exists c, In c (deliveries served tail st) /\ c_to c = a /\ c_kind c = k /\ c_time c = now st) ->
  installed (run served tail st) a k = {| k_epoch := E; k_content := C |}.
Proof. exact converge_any. Qed.
Check C07_converge : forall served, served_mono_prop served -> served_same_prop served ->
  forall pre tail a k E C,
  let st := run served pre init in
  served (now st) a = Some (E, C) -> 0 < E ->
  now (run served tail st) = now st ->
  no_restart a tail = true ->
  (exists c, In c (deliveries served tail st) /\ c_to c = a /\ c_kind c = k /\ c_time c = now st) ->
  installed (run served tail st) a k = {| k_epoch := E; k_content := C |}.
Print Assumptions C07_converge.

(* Bound for the metadata: ONE complete fault-free meta-sync round of the compiled coordinator code (any coordinator k that has
   nothing queued), started in any reachable state with anything still in flight, leaves every listed proxy the broker knows
   holding exactly the current view of both kinds *)
Theorem C07_converge_one_round : forall served, served_mono_prop served -> served_same_prop served ->
  forall reports pre k addrs n,
  let st := run served pre init in
  queue_free k st ->
  let st' := run served (fst (fst (meta_round served (no_faults reports) k addrs n st))) st in
  now st' = now st /\
  forall a E C kd, In a addrs -> served (now st) a = Some (E, C) -> 0 < E ->
    installed st' a kd = {| k_epoch := E; k_content := C |}.
Proof. exact converge_round. Qed.
Check C07_converge_one_round : forall served, served_mono_prop served -> served_same_prop served ->
  forall reports pre k addrs n,
  let st := run served pre init in
  queue_free k st ->
  let st' := run served (fst (fst (meta_round served (no_faults reports) k addrs n st))) st in
  now st' = now st /\
  forall a E C kd, In a addrs -> served (now st) a = Some (E, C) -> 0 < E ->
    installed st' a kd = {| k_epoch := E; k_content := C |}.
Print Assumptions C07_converge_one_round.

(* A migration is never committed twice, under any event sequence (duplicated and replayed commit requests included) *)
Theorem C07_commit_at_most_once : forall served evs, NoDup (commits (run served evs init)).
Proof. exact commits_nodup. Qed.
Check C07_commit_at_most_once : forall served evs, NoDup (commits (run served evs init)).
Print Assumptions C07_commit_at_most_once.

(* a commit request for a key that is not pending (second commit, stale replay) changes nothing at all *)
Theorem C07_duplicate_commit_rejected : forall served st id, ~ In id (pending st) -> step served st (Commit id) = st.
Proof. exact commit_not_found_noop. Qed.
Check C07_duplicate_commit_rejected : forall served st id, ~ In id (pending st) -> step served st (Commit id) = st.
Print Assumptions C07_duplicate_commit_rejected.

(* and a pending migration for which a commit request reaches the broker at some point of a tail is committed exactly once, unless a
   broker operation abandons or re-keys it in that tail (BrokerCancel: a failover re-issues the migration epoch; the compiled
   coordinator rounds never emit it: mig_round_nc) *)
Theorem C07_commit_exactly_once : forall served pre tail id,
  let st := run served pre init in
  In id (pending st) -> In (Commit id) tail -> no_cancel_of id tail = true ->
  count_occ N.eq_dec (commits (run served tail st)) id = 1%nat /\ ~ In id (pending (run served tail st)).
Proof. exact commit_exactly_once. Qed.
Check C07_commit_exactly_once : forall served pre tail id,
  let st := run served pre init in
  In id (pending st) -> In (Commit id) tail -> no_cancel_of id tail = true ->
  count_occ N.eq_dec (commits (run served tail st)) id = 1%nat /\ ~ In id (pending (run served tail st)).
Print Assumptions C07_commit_exactly_once.

(* Bound on rounds: TWO.  From any reachable state, one complete fault-free migration-sync round (coordinator k1) followed by one
   complete fault-free meta-sync round (coordinator k2) leaves every migration that a proxy reported finished in the first round
   and that was pending committed exactly once, and every proxy listed in the second round holding exactly the view the broker
   serves after those commits *)
Theorem C07_two_rounds : forall served, served_mono_prop served -> served_same_prop served ->
  forall reports pre k1 k2 addrs1 addrs2 n1 n2,
  let st := run served pre init in
  queue_free k1 st -> queue_free k2 st ->
  let ev1 := fst (fst (mig_round served (no_faults reports) k1 addrs1 n1 st)) in
  let s1 := run served ev1 st in
  let ev2 := fst (fst (meta_round served (no_faults reports) k2 addrs2 n2 s1)) in
  let s2 := run served ev2 s1 in
  (forall a m, In (Report a m) ev1 -> In (m_id m) (pending st) ->
     count_occ N.eq_dec (commits s2) (m_id m) = 1%nat /\ ~ In (m_id m) (pending s2))
  /\ now s2 = now s1
  /\ (forall a E C kd, In a addrs2 -> served (now s2) a = Some (E, C) -> 0 < E ->
        installed s2 a kd = {| k_epoch := E; k_content := C |}).
Proof. exact two_rounds. Qed.
Check C07_two_rounds : forall served, served_mono_prop served -> served_same_prop served ->
  forall reports pre k1 k2 addrs1 addrs2 n1 n2,
  let st := run served pre init in
  queue_free k1 st -> queue_free k2 st ->
  let ev1 := fst (fst (mig_round served (no_faults reports) k1 addrs1 n1 st)) in
  let s1 := run served ev1 st in
  let ev2 := fst (fst (meta_round served (no_faults reports) k2 addrs2 n2 s1)) in
  let s2 := run served ev2 s1 in
  (forall a m, In (Report a m) ev1 -> In (m_id m) (pending st) ->
     count_occ N.eq_dec (commits s2) (m_id m) = 1%nat /\ ~ In (m_id m) (pending s2))
  /\ now s2 = now s1
  /\ (forall a E C kd, In a addrs2 -> served (now s2) a = Some (E, C) -> 0 < E ->
        installed s2 a kd = {| k_epoch := E; k_content := C |}).
Print Assumptions C07_two_rounds.

(* Destination before source, under ANY scripted call faults (a drop, duplicate, delay, lost reply or crash at each of the call
   boundaries of sync_migration_state; no_inject: no environment event is placed between them): either the source is never
   contacted by this sync, or the events split into a prefix that never fetches for the source, contains the commit request and
   ends in a state where the destination has installed cluster metadata at least as new as the view the broker serves it then
   (the post-commit view), followed by the source's own sync *)
Theorem C07_dst_before_src : forall served sc, no_inject sc ->
  forall k a m n s evs n' o,
  queue_free k s -> m_src m <> m_dst m ->
  sync_migration served sc k a m n s = (evs, n', o) ->
  (forall tag, ~ In (Fetch k (m_src m) tag) evs)
  \/ exists e1 es, evs = e1 ++ es
       /\ (forall tag, ~ In (Fetch k (m_src m) tag) e1)
       /\ In (Commit (m_id m)) e1
       /\ (forall E C, served (now (run served e1 s)) (m_dst m) = Some (E, C) ->
             E <= k_epoch (installed (run served e1 s) (m_dst m) KCluster)).
Proof. exact dst_before_src. Qed.
Check C07_dst_before_src : forall served sc, no_inject sc ->
  forall k a m n s evs n' o,
  queue_free k s -> m_src m <> m_dst m ->
  sync_migration served sc k a m n s = (evs, n', o) ->
  (forall tag, ~ In (Fetch k (m_src m) tag) evs)
  \/ exists e1 es, evs = e1 ++ es
       /\ (forall tag, ~ In (Fetch k (m_src m) tag) e1)
       /\ In (Commit (m_id m)) e1
       /\ (forall E C, served (now (run served e1 s)) (m_dst m) = Some (E, C) ->
             E <= k_epoch (installed (run served e1 s) (m_dst m) KCluster)).
Print Assumptions C07_dst_before_src.

(* C13, reconvergence half.  No assumption on the history at all (it may have restarted from an earlier snapshot): in ANY state
   s (any proxies' contents, anything in flight), if the broker now serves every listed proxy an epoch strictly greater than what
   that proxy has installed - which is what epoch recovery establishes - then one complete fault-free meta-sync round makes
   every listed proxy adopt the recovered view *)
Theorem C13_reconverge : forall served reports k addrs n s,
  queue_free k s ->
  (forall a E C kd, In a addrs -> served (now s) a = Some (E, C) -> k_epoch (installed s a kd) < E) ->
  let s' := run served (fst (fst (meta_round served (no_faults reports) k addrs n s))) s in
  forall a E C kd, In a addrs -> served (now s) a = Some (E, C) ->
    installed s' a kd = {| k_epoch := E; k_content := C |}.
Proof. exact reconverge_round. Qed.
Check C13_reconverge : forall served reports k addrs n s,
  queue_free k s ->
  (forall a E C kd, In a addrs -> served (now s) a = Some (E, C) -> k_epoch (installed s a kd) < E) ->
  let s' := run served (fst (fst (meta_round served (no_faults reports) k addrs n s))) s in
  forall a E C kd, In a addrs -> served (now s) a = Some (E, C) ->
    installed s' a kd = {| k_epoch := E; k_content := C |}.
Print Assumptions C13_reconverge.

(* ====================================================================================================================
   The same theorems about BROKER HISTORIES: `served` instantiated with the views of the Broker model (Model/Broker.v),
     served_of s0 ops lim t a = (vp_epoch v, content_id v)  where  view_proxy lim (Broker.run s0 (firstn t ops)) a = Some (Some v)
   for any initial store s0 with epoch_inv (true of every reachable store: C04_epoch_inv_reachable), any operation list without
   an accepted Restore (ok_ops) and any migration limit.  The two hypotheses are discharged by C04 (served_of_mono,
   served_of_same).  content_id : vproxy -> N is injective on everything but the epoch (content_id_inj), so
   "k_content = content_id v" pins the whole content of the view.
   ==================================================================================================================== *)

Theorem C07_served_of_broker_facts : forall s0 ops lim,
  BrokerEpochInv.epoch_inv s0 -> BrokerEpochMain.ok_ops s0 ops ->
  served_mono_prop (served_of s0 ops lim) /\ served_same_prop (served_of s0 ops lim).
Proof. intros s0 ops lim H1 H2. split; [exact (served_of_mono s0 ops lim H1 H2) | exact (served_of_same s0 ops lim H1 H2)]. Qed.
Check C07_served_of_broker_facts : forall s0 ops lim,
  BrokerEpochInv.epoch_inv s0 -> BrokerEpochMain.ok_ops s0 ops ->
  served_mono_prop (served_of s0 ops lim) /\ served_same_prop (served_of s0 ops lim).
Print Assumptions C07_served_of_broker_facts.

Theorem C07_content_id_injective : forall v v',
  CtrlProofsBrokerEnc.content_id v = CtrlProofsBrokerEnc.content_id v' -> BrokerEpochInv.vp_content v = BrokerEpochInv.vp_content v'.
Proof. exact CtrlProofsBrokerEnc.content_id_inj. Qed.
Check C07_content_id_injective : forall v v',
  CtrlProofsBrokerEnc.content_id v = CtrlProofsBrokerEnc.content_id v' -> BrokerEpochInv.vp_content v = BrokerEpochInv.vp_content v'.
Print Assumptions C07_content_id_injective.

(* never older: whatever a proxy holds (of either kind) is a view the broker model served to it at some earlier time of the
   history, and every view of that epoch served to it at any time is that same view *)
Theorem C07_never_older_broker : forall s0 ops lim,
  BrokerEpochInv.epoch_inv s0 -> BrokerEpochMain.ok_ops s0 ops ->
  forall pre evs a k, no_restart a evs = true ->
  let st := run (served_of s0 ops lim) pre init in
  let st' := run (served_of s0 ops lim) evs st in
  k_epoch (installed st a k) <= k_epoch (installed st' a k)
  /\ (k_epoch (installed st' a k) <> 0 ->
      exists t v, (t <= now st')%nat
        /\ Broker.view_proxy lim (Broker.run s0 (firstn t ops)) a = Some (Some v)
        /\ Broker.vp_epoch v = k_epoch (installed st' a k)
        /\ CtrlProofsBrokerEnc.content_id v = k_content (installed st' a k)
        /\ (forall t' v', Broker.view_proxy lim (Broker.run s0 (firstn t' ops)) a = Some (Some v') ->
              Broker.vp_epoch v' = Broker.vp_epoch v -> v' = v)).
Proof. exact never_older_broker. Qed.
Check C07_never_older_broker : forall s0 ops lim,
  BrokerEpochInv.epoch_inv s0 -> BrokerEpochMain.ok_ops s0 ops ->
  forall pre evs a k, no_restart a evs = true ->
  let st := run (served_of s0 ops lim) pre init in
  let st' := run (served_of s0 ops lim) evs st in
  k_epoch (installed st a k) <= k_epoch (installed st' a k)
  /\ (k_epoch (installed st' a k) <> 0 ->
      exists t v, (t <= now st')%nat
        /\ Broker.view_proxy lim (Broker.run s0 (firstn t ops)) a = Some (Some v)
        /\ Broker.vp_epoch v = k_epoch (installed st' a k)
        /\ CtrlProofsBrokerEnc.content_id v = k_content (installed st' a k)
        /\ (forall t' v', Broker.view_proxy lim (Broker.run s0 (firstn t' ops)) a = Some (Some v') ->
              Broker.vp_epoch v' = Broker.vp_epoch v -> v' = v)).
Print Assumptions C07_never_older_broker.

(* one complete fault-free meta-sync round: every listed proxy holds the view the broker model serves at the current time *)
Theorem C07_converge_one_round_broker : forall s0 ops lim,
  BrokerEpochInv.epoch_inv s0 -> BrokerEpochMain.ok_ops s0 ops ->
  forall reports pre k addrs n,
  let st := run (served_of s0 ops lim) pre init in
  queue_free k st ->
  let st' := run (served_of s0 ops lim) (fst (fst (meta_round (served_of s0 ops lim) (no_faults reports) k addrs n st))) st in
  now st' = now st /\
  forall a v kd, In a addrs ->
    Broker.view_proxy lim (Broker.run s0 (firstn (now st) ops)) a = Some (Some v) -> 0 < Broker.vp_epoch v ->
    installed st' a kd = {| k_epoch := Broker.vp_epoch v; k_content := CtrlProofsBrokerEnc.content_id v |}.
Proof. exact converge_one_round_broker. Qed.
Check C07_converge_one_round_broker : forall s0 ops lim,
  BrokerEpochInv.epoch_inv s0 -> BrokerEpochMain.ok_ops s0 ops ->
  forall reports pre k addrs n,
  let st := run (served_of s0 ops lim) pre init in
  queue_free k st ->
  let st' := run (served_of s0 ops lim) (fst (fst (meta_round (served_of s0 ops lim) (no_faults reports) k addrs n st))) st in
  now st' = now st /\
  forall a v kd, In a addrs ->
    Broker.view_proxy lim (Broker.run s0 (firstn (now st) ops)) a = Some (Some v) -> 0 < Broker.vp_epoch v ->
    installed st' a kd = {| k_epoch := Broker.vp_epoch v; k_content := CtrlProofsBrokerEnc.content_id v |}.
Print Assumptions C07_converge_one_round_broker.

Theorem C07_two_rounds_broker : forall s0 ops lim,
  BrokerEpochInv.epoch_inv s0 -> BrokerEpochMain.ok_ops s0 ops ->
  forall reports pre k1 k2 addrs1 addrs2 n1 n2,
  let served := served_of s0 ops lim in
  let st := run served pre init in
  queue_free k1 st -> queue_free k2 st ->
  let ev1 := fst (fst (mig_round served (no_faults reports) k1 addrs1 n1 st)) in
  let s1 := run served ev1 st in
  let ev2 := fst (fst (meta_round served (no_faults reports) k2 addrs2 n2 s1)) in
  let s2 := run served ev2 s1 in
  (forall a m, In (Report a m) ev1 -> In (m_id m) (pending st) ->
     count_occ N.eq_dec (commits s2) (m_id m) = 1%nat /\ ~ In (m_id m) (pending s2))
  /\ now s2 = now s1
  /\ (forall a v kd, In a addrs2 ->
        Broker.view_proxy lim (Broker.run s0 (firstn (now s2) ops)) a = Some (Some v) -> 0 < Broker.vp_epoch v ->
        installed s2 a kd = {| k_epoch := Broker.vp_epoch v; k_content := CtrlProofsBrokerEnc.content_id v |}).
Proof. exact two_rounds_broker. Qed.
Check C07_two_rounds_broker : forall s0 ops lim,
  BrokerEpochInv.epoch_inv s0 -> BrokerEpochMain.ok_ops s0 ops ->
  forall reports pre k1 k2 addrs1 addrs2 n1 n2,
  let served := served_of s0 ops lim in
  let st := run served pre init in
  queue_free k1 st -> queue_free k2 st ->
  let ev1 := fst (fst (mig_round served (no_faults reports) k1 addrs1 n1 st)) in
  let s1 := run served ev1 st in
  let ev2 := fst (fst (meta_round served (no_faults reports) k2 addrs2 n2 s1)) in
  let s2 := run served ev2 s1 in
  (forall a m, In (Report a m) ev1 -> In (m_id m) (pending st) ->
     count_occ N.eq_dec (commits s2) (m_id m) = 1%nat /\ ~ In (m_id m) (pending s2))
  /\ now s2 = now s1
  /\ (forall a v kd, In a addrs2 ->
        Broker.view_proxy lim (Broker.run s0 (firstn (now s2) ops)) a = Some (Some v) -> 0 < Broker.vp_epoch v ->
        installed s2 a kd = {| k_epoch := Broker.vp_epoch v; k_content := CtrlProofsBrokerEnc.content_id v |}).
Print Assumptions C07_two_rounds_broker.

(* C13 on the broker model: the store restored from any snapshot satisfying epoch_inv, recover_service run with m at least every
   epoch installed on the listed proxies (either kind), then any operations without accepted Restore: one complete fault-free
   meta-sync round, from ANY control-plane state s, makes every listed proxy hold the view the recovered broker serves *)
Theorem C13_reconverge_broker : forall snap m ops lim reports k addrs n (s : state),
  BrokerEpochInv.epoch_inv snap -> BrokerEpochMain.ok_ops (BrokerEpochMain.recover_service snap m) ops ->
  queue_free k s ->
  (forall a kd, In a addrs -> k_epoch (installed s a kd) <= m) ->
  let served := served_of (BrokerEpochMain.recover_service snap m) ops lim in
  let s' := run served (fst (fst (meta_round served (no_faults reports) k addrs n s))) s in
  forall a v kd, In a addrs ->
    Broker.view_proxy lim (Broker.run (BrokerEpochMain.recover_service snap m) (firstn (now s) ops)) a = Some (Some v) ->
    installed s' a kd = {| k_epoch := Broker.vp_epoch v; k_content := CtrlProofsBrokerEnc.content_id v |}.
Proof. exact reconverge_broker. Qed.
Check C13_reconverge_broker : forall snap m ops lim reports k addrs n (s : state),
  BrokerEpochInv.epoch_inv snap -> BrokerEpochMain.ok_ops (BrokerEpochMain.recover_service snap m) ops ->
  queue_free k s ->
  (forall a kd, In a addrs -> k_epoch (installed s a kd) <= m) ->
  let served := served_of (BrokerEpochMain.recover_service snap m) ops lim in
  let s' := run served (fst (fst (meta_round served (no_faults reports) k addrs n s))) s in
  forall a v kd, In a addrs ->
    Broker.view_proxy lim (Broker.run (BrokerEpochMain.recover_service snap m) (firstn (now s) ops)) a = Some (Some v) ->
    installed s' a kd = {| k_epoch := Broker.vp_epoch v; k_content := CtrlProofsBrokerEnc.content_id v |}.
Print Assumptions C13_reconverge_broker.

(* ====================================================================================================================
   Failure detection and handling (Model/CtrlFail.v: the detector / handler rounds of the coordinator over the REAL broker
   model's add_failure / get_failures / replace_failed_proxy / add_proxy).  Events: any coordinator reports any address at any
   time and as often as it likes (EReport), get_failures answers put replace_proxy calls in a network where they are delayed,
   dropped, duplicated (EGetFailures / EReplace / EDropCall / EDupCall), proxies go down and come back, the clock ticks,
   proxies (re-)register, any other broker operation happens.  These compose C18 (Props/C18.v: C18_quorum_distinct,
   C18_expired_discarded, C18_reregister_clears, C18_failures_wf_step) with the coordinator side.
   ==================================================================================================================== *)

(* (1) every failover that is carried out (a replace_failed_proxy call answered Done) was licensed by a get_failures answer
   evaluated on some store sg at clock tg that listed the address; hence (C18_quorum_distinct) the address was registered in sg and
   at least `quorum` pairwise DISTINCT reporters had each made an add_failure call for it less than ttl before tg *)
Theorem C07_fail_needs_quorum : forall ttl quorum s0 evs a x,
  BrokerEpochFail.failures_wf s0 -> Broker.st_failures s0 = [] ->
  let st := CtrlFail.frun ttl quorum evs (CtrlFail.finit s0) in
  In (a, x) (CtrlFail.fs_done st) ->
  exists sg tg, In (a, (sg, tg)) (CtrlFail.fs_auth st)
    /\ In a (snd (Broker.get_failures sg tg ttl quorum))
    /\ Broker.amem a (Broker.st_proxies sg) = true
    /\ exists l : list (N * Z),
         NoDup (map fst l) /\ quorum <= N.of_nat (length l) /\
         forall r t, In (r, t) l -> In (a, (r, t)) (CtrlFail.fs_rlog st) /\ (tg - t < ttl)%Z.
Proof. exact CtrlProofsFail.fail_needs_quorum. Qed.
Check C07_fail_needs_quorum : forall ttl quorum s0 evs a x,
  BrokerEpochFail.failures_wf s0 -> Broker.st_failures s0 = [] ->
  let st := CtrlFail.frun ttl quorum evs (CtrlFail.finit s0) in
  In (a, x) (CtrlFail.fs_done st) ->
  exists sg tg, In (a, (sg, tg)) (CtrlFail.fs_auth st)
    /\ In a (snd (Broker.get_failures sg tg ttl quorum))
    /\ Broker.amem a (Broker.st_proxies sg) = true
    /\ exists l : list (N * Z),
         NoDup (map fst l) /\ quorum <= N.of_nat (length l) /\
         forall r t, In (r, t) l -> In (a, (r, t)) (CtrlFail.fs_rlog st) /\ (tg - t < ttl)%Z.
Print Assumptions C07_fail_needs_quorum.

(* (2) if all the coordinators that ever reported address a fit in a set C of fewer than quorum members, a is never failed over -
   whatever they report, however often, whatever happens to the calls *)
Theorem C07_fail_single_reporter : forall ttl quorum s0 evs a (C : list N),
  BrokerEpochFail.failures_wf s0 -> Broker.st_failures s0 = [] ->
  let st := CtrlFail.frun ttl quorum evs (CtrlFail.finit s0) in
  (forall r t, In (a, (r, t)) (CtrlFail.fs_rlog st) -> In r C) ->
  N.of_nat (length C) < quorum ->
  forall x, ~ In (a, x) (CtrlFail.fs_done st).
Proof. exact CtrlProofsFail.fail_needs_enough_reporters. Qed.
Check C07_fail_single_reporter : forall ttl quorum s0 evs a (C : list N),
  BrokerEpochFail.failures_wf s0 -> Broker.st_failures s0 = [] ->
  let st := CtrlFail.frun ttl quorum evs (CtrlFail.finit s0) in
  (forall r t, In (a, (r, t)) (CtrlFail.fs_rlog st) -> In r C) ->
  N.of_nat (length C) < quorum ->
  forall x, ~ In (a, x) (CtrlFail.fs_done st).
Print Assumptions C07_fail_single_reporter.

(* (3) after a proxy re-registered (C18_reregister_clears), as long as nobody reports it again, no get_failures lists it and nothing
   fails it over - PROVIDED no replace_proxy call for it was already on its way (the broker does not re-validate such a call:
   C07_example_fail_stale_replace below is the witness) *)
Theorem C07_fail_reregister_clears : forall ttl quorum st a h i evs,
  BrokerEpochFail.failures_wf (CtrlFail.fs_store st) ->
  snd (Broker.add_proxy (CtrlFail.fs_store st) a h i) <> Broker.Fail Broker.E_MissingIndex ->
  ~ In a (CtrlFail.fs_net st) ->
  CtrlProofsFail.no_report_of a evs = true ->
  let st1 := CtrlFail.fstep ttl quorum st (CtrlFail.ERegister a h i) in
  let st2 := CtrlFail.frun ttl quorum evs st1 in
  Broker.alookup a (Broker.st_failures (CtrlFail.fs_store st2)) = None /\ ~ In a (CtrlFail.fs_net st2) /\
  forall x, In (a, x) (CtrlFail.fs_done st2) -> In (a, x) (CtrlFail.fs_done st).
Proof. exact CtrlProofsFail.fail_reregister_clears. Qed.
Check C07_fail_reregister_clears : forall ttl quorum st a h i evs,
  BrokerEpochFail.failures_wf (CtrlFail.fs_store st) ->
  snd (Broker.add_proxy (CtrlFail.fs_store st) a h i) <> Broker.Fail Broker.E_MissingIndex ->
  ~ In a (CtrlFail.fs_net st) ->
  CtrlProofsFail.no_report_of a evs = true ->
  let st1 := CtrlFail.fstep ttl quorum st (CtrlFail.ERegister a h i) in
  let st2 := CtrlFail.frun ttl quorum evs st1 in
  Broker.alookup a (Broker.st_failures (CtrlFail.fs_store st2)) = None /\ ~ In a (CtrlFail.fs_net st2) /\
  forall x, In (a, x) (CtrlFail.fs_done st2) -> In (a, x) (CtrlFail.fs_done st).
Print Assumptions C07_fail_reregister_clears.

(* the compiled detector (PingFailureDetector::check_impl + check_and_report) under any fault script: coordinator c reports proxy a
   only after three consecutive PING attempts that each failed (the proxy was down, or the call or its answer was lost) *)
Theorem C07_fail_report_needs_three_failed_probes : forall sc c a n st e n' cr c' a',
  CtrlFail.detect_proxy sc c a n st = (e, n', cr) ->
  In (CtrlFail.EReport c' a') e ->
  c' = c /\ a' = a /\
  forall j, (j < 3)%nat ->
    CtrlFail.answered (CtrlFail.fc_fault sc (n + j)) && negb (CtrlFail.nmem a (CtrlFail.fs_down st)) = false.
Proof. exact CtrlProofsFail.report_needs_three_failed_probes. Qed.
Check C07_fail_report_needs_three_failed_probes : forall sc c a n st e n' cr c' a',
  CtrlFail.detect_proxy sc c a n st = (e, n', cr) ->
  In (CtrlFail.EReport c' a') e ->
  c' = c /\ a' = a /\
  forall j, (j < 3)%nat ->
    CtrlFail.answered (CtrlFail.fc_fault sc (n + j)) && negb (CtrlFail.nmem a (CtrlFail.fs_down st)) = false.
Print Assumptions C07_fail_report_needs_three_failed_probes.

(* ---------- non-vacuity: a concrete broker history and a concrete faulty run ---------- *)

(* the broker serves proxies 1 and 2; the epoch is the time + 1 (every step changes something) *)
Definition ex_served (t : nat) (a : addr) : option (N * N) :=
  if N.leb 1 a && N.leb a 2 then Some (N.of_nat t + 1, 100 * (N.of_nat t + 1) + a) else None.

Example ex_served_mono : served_mono_prop ex_served.
Proof.
  intros t1 t2 a e1 c1 e2 c2 H H1 H2. unfold ex_served in *.
  destruct (N.leb 1 a && N.leb a 2); [|discriminate]. inversion H1; inversion H2; subst. lia.
Qed.

Example ex_served_same : served_same_prop ex_served.
Proof.
  intros t1 t2 a e c1 c2 H1 H2. unfold ex_served in *.
  destruct (N.leb 1 a && N.leb a 2); [|discriminate]. inversion H1; inversion H2; subst.
  assert (N.of_nat t1 = N.of_nat t2) by lia. congruence.
Qed.

(* a faulty prefix: coordinator 7 fetches for proxy 1 and issues SETREPL, which stays in flight; the broker starts migration 5
   and advances; coordinator 7 crashes; proxy 2 restarts.  Then one fault-free migration-sync round in which proxy 1 reports
   migration 5 (2 -> 1) finished, and one fault-free meta-sync round by another coordinator; finally the stale SETREPL arrives *)
Definition ex_pre : list event :=
  [Fetch 7 1 0; Issue 7; BrokerAdvance [5]; CoordinatorCrash 7; ProxyRestart 2].
Definition ex_reports (n : nat) : list mig :=
  match n with 1%nat => [{| m_id := 5; m_src := 2; m_dst := 1 |}] | _ => [] end.

Example C07_example_two_rounds :
  let st := run ex_served ex_pre init in
  let ev1 := fst (fst (mig_round ex_served (no_faults ex_reports) 8 [1; 2] 0 st)) in
  let s1 := run ex_served ev1 st in
  let ev2 := fst (fst (meta_round ex_served (no_faults ex_reports) 9 [1; 2] 20 s1)) in
  let s2 := run ex_served (ev2 ++ [Deliver 0]) s1 in
  queue_free 8 st /\ queue_free 9 st /\ pending st = [5] /\ length (net st) = 1%nat
  /\ In (Report 1 {| m_id := 5; m_src := 2; m_dst := 1 |}) ev1
  /\ commits s2 = [5] /\ pending s2 = [] /\ now s2 = 2%nat
  /\ installed s2 1 KCluster = {| k_epoch := 3; k_content := 301 |}
  /\ installed s2 2 KRepl = {| k_epoch := 3; k_content := 302 |}
  /\ net s2 = [].
Proof.
  vm_compute. repeat split; try reflexivity.
  - intros kc [].
  - intros kc [].
  - left. reflexivity.
Qed.

(* C13: the history restarts from a snapshot (served is not monotone at time 3) and recovery lifts the epochs above the proxies' *)
Definition ex_served13 (t : nat) (a : addr) : option (N * N) :=
  if N.leb 1 a && N.leb a 2 then
    match t with
    | 0%nat => Some (4, 40 + a) | 1%nat => Some (9, 90 + a) | 2%nat => Some (2, 20 + a) | _ => Some (10, 20 + a)
    end
  else None.

Example C13_example :
  let s := run ex_served13 [BrokerAdvance []; Fetch 1 1 0; Issue 1; Deliver 0; Issue 1; Deliver 0; Fetch 1 2 1; Issue 1;
                            BrokerAdvance []; BrokerAdvance []] init in
  let s' := run ex_served13 (fst (fst (meta_round ex_served13 (no_faults ex_reports) 2 [1; 2] 0 s))) s in
  installed s 1 KCluster = {| k_epoch := 9; k_content := 91 |}
  /\ queue_free 2 s
  /\ (forall a E C kd, In a [1; 2] -> ex_served13 (now s) a = Some (E, C) -> k_epoch (installed s a kd) < E)
  /\ installed s' 1 KCluster = {| k_epoch := 10; k_content := 21 |}
  /\ installed s' 2 KRepl = {| k_epoch := 10; k_content := 22 |}.
Proof.
  split; [vm_compute; reflexivity|]. split.
  - intros kc H. vm_compute in H. destruct H as [<- | []]. cbn. discriminate.
  - split; [|split; vm_compute; reflexivity].
    intros a E C kd [<- | [<- | []]] H; vm_compute in H; inversion H; subst; destruct kd; vm_compute; reflexivity.
Qed.

(* dst before src: a script with a duplicated commit, a duplicated SETREPL to the destination and a lost reply of the source's
   SETCLUSTER still reaches the source (so the second disjunct of C07_dst_before_src is the one that applies) *)
Definition ex_script : script :=
  {| sc_fault := fun n => match n with 0%nat => FDup | 2%nat => FDup | 6%nat => FNoReply | _ => FNone end;
     sc_inject := fun _ _ => []; sc_reports := fun _ => [] |}.

Example C07_example_dst_before_src :
  let st := run ex_served ex_pre init in
  let m := {| m_id := 5; m_src := 2; m_dst := 1 |} in
  let r := sync_migration ex_served ex_script 8 1 m 0 st in
  no_inject ex_script /\ queue_free 8 st /\ In (Fetch 8 2 4) (fst (fst r)) /\ snd r = Failed
  /\ commits (run ex_served (fst (fst r)) st) = [5].
Proof.
  split; [intros n st; reflexivity|]. vm_compute. repeat split; try reflexivity.
  - intros kc [].
  - do 10 right. left. reflexivity.
Qed.

(* broker instance: four proxies on two hosts and a cluster on proxies 1 and 2; the hypotheses of the *_broker theorems hold and
   the broker model serves proxy 1 a view of epoch 5 > 0 at time 5 (content identifiers are never computed: they are huge) *)
Definition exb_ops : list Broker.op :=
  [Broker.OAddProxy 1 (Some 10) None; Broker.OAddProxy 2 (Some 11) None; Broker.OAddProxy 3 (Some 10) None;
   Broker.OAddProxy 4 (Some 11) None; Broker.OAddCluster 1 4 1 [(1, 2)]].

Example C07_example_broker_instance :
  BrokerEpochInv.epoch_inv (Broker.init_store false)
  /\ BrokerEpochMain.ok_ops (Broker.init_store false) exb_ops
  /\ option_map (option_map Broker.vp_epoch) (Broker.view_proxy 1 (Broker.run (Broker.init_store false) (firstn 5 exb_ops)) 1)
     = Some (Some 5)
  /\ option_map (option_map Broker.vp_epoch) (Broker.view_proxy 1 (Broker.run (Broker.init_store false) (firstn 3 exb_ops)) 1)
     = Some (Some 3).
Proof.
  split; [apply BrokerEpochInv.epoch_inv_init|]. split.
  - apply BrokerEpochMain.restore_free_ok. repeat constructor.
  - split; vm_compute; reflexivity.
Qed.

(* failure handling: three free proxies, ttl 30 s, quorum 2 *)
Definition exf_store : Broker.store :=
  Broker.run (Broker.init_store false)
    [Broker.OAddProxy 1 (Some 10) None; Broker.OAddProxy 2 (Some 11) None; Broker.OAddProxy 3 (Some 12) None].
Definition exf_run (evs : list CtrlFail.fevent) : CtrlFail.fstate := CtrlFail.frun 30%Z 2 evs (CtrlFail.finit exf_store).

Example C07_example_fail :
  BrokerEpochFail.failures_wf exf_store /\ Broker.st_failures exf_store = []
  (* one reporter, twice: nothing listed *)
  /\ CtrlFail.fs_net (exf_run [CtrlFail.EReport 7 1; CtrlFail.EReport 7 1; CtrlFail.EGetFailures 9]) = []
  (* two reporters, the first report expired: nothing listed *)
  /\ CtrlFail.fs_net (exf_run [CtrlFail.EReport 7 1; CtrlFail.ETick 40; CtrlFail.EReport 8 1; CtrlFail.EGetFailures 9]) = []
  (* two distinct reporters within ttl: listed and failed over *)
  /\ CtrlFail.fs_done (exf_run [CtrlFail.EReport 7 1; CtrlFail.ETick 10; CtrlFail.EReport 8 1; CtrlFail.EGetFailures 9;
                                CtrlFail.EReplace 0 None]) = [(1, None)]
  (* the proxy re-registers before the handling round: nothing listed *)
  /\ CtrlFail.fs_net (exf_run [CtrlFail.EReport 7 1; CtrlFail.EReport 8 1; CtrlFail.ERegister 1 (Some 10) None;
                               CtrlFail.EGetFailures 9]) = [].
Proof.
  split; [apply BrokerEpochFail.failures_wf_run; repeat constructor|]. vm_compute. repeat split; reflexivity.
Qed.

(* the witness for the side condition of C07_fail_reregister_clears: a replace_proxy call issued before the proxy came back and
   delivered after it re-registered still marks it failed - replace_failed_proxy does not re-check the reports *)
Example C07_example_fail_stale_replace :
  let st := exf_run [CtrlFail.EReport 7 1; CtrlFail.EReport 8 1; CtrlFail.EGetFailures 9; CtrlFail.ERegister 1 (Some 10) None;
                     CtrlFail.EReplace 0 None] in
  CtrlFail.fs_done st = [(1, None)] /\ Broker.st_failed (CtrlFail.fs_store st) = [1]
  /\ Broker.alookup 1 (Broker.st_failures (CtrlFail.fs_store st)) = None.
Proof. vm_compute. repeat split; reflexivity. Qed.
