(* C18 Failover needs a quorum of fresh, distinct reports.  Statements only; proofs live in Proofs/BrokerEpochFail.v
   (invariant principle for reachable stores: Proofs/BrokerEpochReach.v).
   Model functions: Broker.add_failure / get_failures / add_proxy (update.rs), Broker.step / run. *)
From UM Require Import Base.BytesDef Model.Ranges Model.Broker Proofs.BrokerBase Proofs.BrokerEpochReach Proofs.BrokerEpochFail.

(* an address is listed only if it is registered and its stored report list holds at least `q` reports younger than ttl *)
Theorem C18_quorum : forall s now ttl q a,
  In a (snd (get_failures s now ttl q)) ->
  amem a (st_proxies s) = true /\
  exists m, In (a, m) (st_failures s) /\
            q <= N.of_nat (length (filter (fun rt => fresh now ttl (snd rt)) m)).
Proof. exact quorum_lemma. Qed.
Check C18_quorum : forall s now ttl q a,
  In a (snd (get_failures s now ttl q)) ->
  amem a (st_proxies s) = true /\
  exists m, In (a, m) (st_failures s) /\
            q <= N.of_nat (length (filter (fun rt => fresh now ttl (snd rt)) m)).
Print Assumptions C18_quorum.

(* on a well-formed store that list is THE list stored for the address and its reporters are pairwise distinct,
   so the count is a count of distinct reporters *)
Theorem C18_quorum_distinct : forall s now ttl q a,
  failures_wf s ->
  In a (snd (get_failures s now ttl q)) ->
  amem a (st_proxies s) = true /\
  exists m, alookup a (st_failures s) = Some m /\ NoDup (map fst m) /\
            q <= N.of_nat (length (filter (fun rt => fresh now ttl (snd rt)) m)).
Proof. exact quorum_distinct_lemma. Qed.
Check C18_quorum_distinct : forall s now ttl q a,
  failures_wf s ->
  In a (snd (get_failures s now ttl q)) ->
  amem a (st_proxies s) = true /\
  exists m, alookup a (st_failures s) = Some m /\ NoDup (map fst m) /\
            q <= N.of_nat (length (filter (fun rt => fresh now ttl (snd rt)) m)).
Print Assumptions C18_quorum_distinct.

(* failures_wf (address keys strictly increasing, reporter keys of every report list strictly increasing, failed set
   strictly increasing) is preserved by every operation; an ORestore must carry a well-formed snapshot *)
Theorem C18_failures_wf_step : forall s o, failures_wf s -> op_wf failures_wf o -> failures_wf (fst (step s o)).
Proof. exact failures_wf_step. Qed.
Check C18_failures_wf_step : forall s o, failures_wf s -> op_wf failures_wf o -> failures_wf (fst (step s o)).
Print Assumptions C18_failures_wf_step.

(* hence it holds after ALL operation lists from the initial store (Restore snapshots well-formed) ... *)
Theorem C18_failures_wf_run : forall b ops, Forall (op_wf failures_wf) ops -> failures_wf (run (init_store b) ops).
Proof. exact failures_wf_run. Qed.
Check C18_failures_wf_run : forall b ops, Forall (op_wf failures_wf) ops -> failures_wf (run (init_store b) ops).
Print Assumptions C18_failures_wf_run.

(* ... and of every reachable store (inductive reachability: a Restore snapshot must itself be reachable) *)
Theorem C18_failures_wf_reachable : forall s, reachable s -> failures_wf s.
Proof. exact failures_wf_reachable. Qed.
Check C18_failures_wf_reachable : forall s, reachable s -> failures_wf s.
Print Assumptions C18_failures_wf_reachable.

(* a second report by the same reporter for the same address changes nothing and answers false *)
Theorem C18_once_per_reporter : forall s a r t1 t2,
  add_failure (fst (add_failure s a r t1)) a r t2 = (fst (add_failure s a r t1), false).
Proof. exact add_failure_twice. Qed.
Check C18_once_per_reporter : forall s a r t1 t2,
  add_failure (fst (add_failure s a r t1)) a r t2 = (fst (add_failure s a r t1), false).
Print Assumptions C18_once_per_reporter.

(* whenever a report of that reporter is already stored (however it got there), the new one is ignored *)
Theorem C18_known_reporter_ignored : forall s a r t m t0,
  alookup a (st_failures s) = Some m -> alookup r m = Some t0 -> add_failure s a r t = (s, false).
Proof. exact add_failure_known. Qed.
Check C18_known_reporter_ignored : forall s a r t m t0,
  alookup a (st_failures s) = Some m -> alookup r m = Some t0 -> add_failure s a r t = (s, false).
Print Assumptions C18_known_reporter_ignored.

(* after an accepted report followed by a repeated one, the stored timestamp is the first one *)
Theorem C18_first_timestamp_kept : forall s a r t1 t2,
  snd (add_failure s a r t1) = true ->
  exists m, alookup a (st_failures (fst (add_failure (fst (add_failure s a r t1)) a r t2))) = Some m /\
            alookup r m = Some t1.
Proof. exact add_failure_first_kept. Qed.
Check C18_first_timestamp_kept : forall s a r t1 t2,
  snd (add_failure s a r t1) = true ->
  exists m, alookup a (st_failures (fst (add_failure (fst (add_failure s a r t1)) a r t2))) = Some m /\
            alookup r m = Some t1.
Print Assumptions C18_first_timestamp_kept.

(* after a query every stored report is fresh and no address keeps an empty report list; exactly the fresh reports survive *)
Theorem C18_expired_discarded : forall s now ttl q,
  let s' := fst (get_failures s now ttl q) in
  (forall a m, In (a, m) (st_failures s') ->
     m <> [] /\ forall r t, In (r, t) m -> (now - t < ttl)%Z)
  /\ (forall a m r t, In (a, m) (st_failures s) -> In (r, t) m -> (now - t < ttl)%Z ->
        exists m', In (a, m') (st_failures s') /\ In (r, t) m')
  /\ (forall a m' r t, In (a, m') (st_failures s') -> In (r, t) m' ->
        exists m, In (a, m) (st_failures s) /\ In (r, t) m).
Proof. exact expired_discarded_lemma. Qed.
Check C18_expired_discarded : forall s now ttl q,
  let s' := fst (get_failures s now ttl q) in
  (forall a m, In (a, m) (st_failures s') ->
     m <> [] /\ forall r t, In (r, t) m -> (now - t < ttl)%Z)
  /\ (forall a m r t, In (a, m) (st_failures s) -> In (r, t) m -> (now - t < ttl)%Z ->
        exists m', In (a, m') (st_failures s') /\ In (r, t) m')
  /\ (forall a m' r t, In (a, m') (st_failures s') -> In (r, t) m' ->
        exists m, In (a, m) (st_failures s) /\ In (r, t) m).
Print Assumptions C18_expired_discarded.

(* registering an address (first time or again, outcome Done or AlreadyExisted) leaves it without reports and without the
   failed mark.  The one outcome excluded is the MissingIndex rejection of ordered mode, which returns before anything
   is touched (C18_missing_index_is_noop). *)
Theorem C18_reregister_clears : forall s a h i,
  failures_wf s ->
  snd (add_proxy s a h i) <> Fail E_MissingIndex ->
  let s' := fst (add_proxy s a h i) in
  alookup a (st_failures s') = None /\ smem a (st_failed s') = false /\ amem a (st_proxies s') = true.
Proof. exact reregister_clears_lemma. Qed.
Check C18_reregister_clears : forall s a h i,
  failures_wf s ->
  snd (add_proxy s a h i) <> Fail E_MissingIndex ->
  let s' := fst (add_proxy s a h i) in
  alookup a (st_failures s') = None /\ smem a (st_failed s') = false /\ amem a (st_proxies s') = true.
Print Assumptions C18_reregister_clears.

Theorem C18_missing_index_is_noop : forall s a h i,
  snd (add_proxy s a h i) = Fail E_MissingIndex -> fst (add_proxy s a h i) = s /\ st_ordered s = true /\ i = None.
Proof. exact add_proxy_missing_index. Qed.
Check C18_missing_index_is_noop : forall s a h i,
  snd (add_proxy s a h i) = Fail E_MissingIndex -> fst (add_proxy s a h i) = s /\ st_ordered s = true /\ i = None.
Print Assumptions C18_missing_index_is_noop.

(* ---------- non-vacuity: concrete stores built by `run` ---------- *)
(* proxies 1..3; proxy 1 reported by reporters 7 (time 0), 8 (time 1000), 7 again (ignored); proxy 2 by 7 (time 0);
   address 9 (never registered) reported twice; free proxy 3 marked failed by replace_failed_proxy *)
Definition c18_store : store :=
  run (init_store false)
      [OAddProxy 1 (Some 10) None; OAddProxy 2 (Some 11) None; OAddProxy 3 (Some 12) None;
       OAddFailure 1 7 0%Z; OAddFailure 1 8 1000%Z; OAddFailure 1 7 500%Z; OAddFailure 2 7 0%Z;
       OAddFailure 9 7 1000%Z; OAddFailure 9 8 1000%Z; OReplaceFailed 3 None].

Example C18_example_store :
  st_failures c18_store = [(1, [(7, 0%Z); (8, 1000%Z)]); (2, [(7, 0%Z)]); (9, [(7, 1000%Z); (8, 1000%Z)])]
  /\ st_failed c18_store = [3].
Proof. vm_compute. split; reflexivity. Qed.

(* quorum 2, ttl 2000: at time 1500 proxy 1 is listed (2 fresh reports), proxy 2 is not (1 report), the unregistered
   address 9 is not; at time 2500 the report of time 0 has expired and nobody is listed *)
Example C18_quorum_example :
  snd (get_failures c18_store 1500%Z 2000%Z 2) = [1]
  /\ snd (get_failures c18_store 2500%Z 2000%Z 2) = []
  /\ st_failures (fst (get_failures c18_store 2500%Z 2000%Z 2)) = [(1, [(8, 1000%Z)]); (9, [(7, 1000%Z); (8, 1000%Z)])].
Proof. vm_compute. repeat split; reflexivity. Qed.

Example C18_wf_example : failures_wf c18_store.
Proof. apply C18_failures_wf_run. repeat constructor. Qed.

Example C18_reregister_example :
  snd (add_proxy c18_store 1 (Some 10) None) = Fail E_AlreadyExisted
  /\ alookup 1 (st_failures c18_store) <> None
  /\ alookup 1 (st_failures (fst (add_proxy c18_store 1 (Some 10) None))) = None
  /\ smem 3 (st_failed c18_store) = true
  /\ smem 3 (st_failed (fst (add_proxy c18_store 3 (Some 12) None))) = false.
Proof. vm_compute. repeat split; try reflexivity. discriminate. Qed.

Example C18_once_example :
  snd (add_failure c18_store 2 8 3000%Z) = true
  /\ add_failure (fst (add_failure c18_store 2 8 3000%Z)) 2 8 4000%Z = (fst (add_failure c18_store 2 8 3000%Z), false)
  /\ alookup 2 (st_failures (fst (add_failure (fst (add_failure c18_store 2 8 3000%Z)) 2 8 4000%Z))) = Some [(7, 0%Z); (8, 3000%Z)].
Proof. vm_compute. repeat split; reflexivity. Qed.

(* ---------- service layer (src/broker/service.rs: HTTP handler + trigger_update + restart from the meta file) ----------
   Proofs/BrokerSvc.v.  svc_state = (in-memory store, store in the meta file); svc_step = the contract "the meta file is current
   after every API call" (file := memory after every call, whatever the result); svc_restart = start again from the file. *)
From UM Require Import Proofs.BrokerSvc.

(* (i) after every call - every operation, every result, errors included - the file equals the memory, the memory is the
   store operation's result and the reply is the store operation's reply *)
Theorem C18_service_file_current : forall st o,
  svc_file (fst (svc_step st o)) = svc_mem (fst (svc_step st o))
  /\ svc_mem (fst (svc_step st o)) = fst (step (svc_mem st) o)
  /\ snd (svc_step st o) = snd (step (svc_mem st) o).
Proof. exact svc_step_current_full. Qed.
Check C18_service_file_current : forall st o,
  svc_file (fst (svc_step st o)) = svc_mem (fst (svc_step st o))
  /\ svc_mem (fst (svc_step st o)) = fst (step (svc_mem st) o)
  /\ snd (svc_step st o) = snd (step (svc_mem st) o).
Print Assumptions C18_service_file_current.

(* (iii) registering an address through the service (first time or again, AlreadyExisted included) and restarting the broker any
   number of times leaves the address without reports, without the failed mark, registered, and not listed by get_failures
   for any clock, ttl and quorum - until a new report arrives.  Derived from C18_reregister_clears and C18_quorum. *)
Theorem C18_service_reregister_stays_clear : forall st a h i n now ttl q,
  failures_wf (svc_mem st) ->
  snd (svc_step st (OAddProxy a h i)) <> RErr E_MissingIndex ->
  let st' := svc_run (fst (svc_step st (OAddProxy a h i))) (repeat EvRestart n) in
  svc_file st' = svc_mem st'
  /\ alookup a (st_failures (svc_mem st')) = None
  /\ smem a (st_failed (svc_mem st')) = false
  /\ amem a (st_proxies (svc_mem st')) = true
  /\ ~ In a (snd (get_failures (svc_mem st') now ttl q)).
Proof. exact svc_reregister_stays_clear. Qed.
Check C18_service_reregister_stays_clear : forall st a h i n now ttl q,
  failures_wf (svc_mem st) ->
  snd (svc_step st (OAddProxy a h i)) <> RErr E_MissingIndex ->
  let st' := svc_run (fst (svc_step st (OAddProxy a h i))) (repeat EvRestart n) in
  svc_file st' = svc_mem st'
  /\ alookup a (st_failures (svc_mem st')) = None
  /\ smem a (st_failed (svc_mem st')) = false
  /\ amem a (st_proxies (svc_mem st')) = true
  /\ ~ In a (snd (get_failures (svc_mem st') now ttl q)).
Print Assumptions C18_service_reregister_stays_clear.

(* non-vacuity: on c18_store proxy 1 is listed (quorum 2); it registers again (AlreadyExisted), the broker restarts twice: not listed,
   file = memory; a handler that skipped the persistence step for that reply would bring the two reports back (file of the state before) *)
Example C18_service_example :
  let st := (c18_store, c18_store) in
  let st' := svc_run st [EvOp (OAddProxy 1 (Some 10) None); EvRestart; EvRestart] in
  snd (get_failures (svc_mem st) 1500%Z 2000%Z 2) = [1]
  /\ snd (svc_step st (OAddProxy 1 (Some 10) None)) = RErr E_AlreadyExisted
  /\ snd (get_failures (svc_mem st') 1500%Z 2000%Z 2) = []
  /\ svc_file st' = svc_mem st'
  /\ snd (get_failures (svc_mem (svc_restart (fst (step (svc_mem st) (OAddProxy 1 (Some 10) None)), svc_file st))) 1500%Z 2000%Z 2) = [1].
Proof. vm_compute. repeat split; reflexivity. Qed.
