(* C10 Scaling completes to a balanced full partition and frees only empty chunks.  Statements only. *)
From UM Require Import Base.BytesDef Model.Ranges Model.Broker Proofs.BrokerScale.

(* scaling and config requests are refused while a migration is running, and the cluster is left unchanged *)
Theorem C10_refused_while_migrating : forall s name cl o,
  alookup name (st_clusters s) = Some cl -> cluster_is_migrating cl = true -> scaling_or_config name o ->
  is_err (snd (step s o)) /\ alookup name (st_clusters (fst (step s o))) = Some cl.
Proof. exact refused_while_migrating. Qed.
Check C10_refused_while_migrating : forall s name cl o,
  alookup name (st_clusters s) = Some cl -> cluster_is_migrating cl = true -> scaling_or_config name o ->
  is_err (snd (step s o)) /\ alookup name (st_clusters (fst (step s o))) = Some cl.
Print Assumptions C10_refused_while_migrating.

(* a chunk leaves a cluster through auto_delete_free_nodes only if it owns no stable, migrating or importing range *)
Theorem C10_release_only_empty : forall s name cl cl' c,
  alookup name (st_clusters s) = Some cl ->
  snd (auto_delete_free_nodes s name) = Done tt ->
  alookup name (st_clusters (fst (auto_delete_free_nodes s name))) = Some cl' ->
  In c (cl_chunks cl) -> ~ In c (cl_chunks cl') ->
  ck_stable0 c = None /\ ck_stable1 c = None /\ ck_mig0 c = [] /\ ck_mig1 c = [].
Proof. exact release_only_empty. Qed.
Check C10_release_only_empty : forall s name cl cl' c,
  alookup name (st_clusters s) = Some cl ->
  snd (auto_delete_free_nodes s name) = Done tt ->
  alookup name (st_clusters (fst (auto_delete_free_nodes s name))) = Some cl' ->
  In c (cl_chunks cl) -> ~ In c (cl_chunks cl') ->
  ck_stable0 c = None /\ ck_stable1 c = None /\ ck_mig0 c = [] /\ ck_mig1 c = [].
Print Assumptions C10_release_only_empty.

(* non-vacuity: a migrating cluster exists and refuses *)
Definition ex_ops : list op :=
  [OAddProxy 1 (Some 10) None; OAddProxy 2 (Some 11) None; OAddProxy 3 (Some 10) None; OAddProxy 4 (Some 11) None;
   OAddCluster 1 4 7 [(1, 2)]; OAutoAddNodes 1 4 [(3, 4)]; OMigrateSlots 1].
Example C10_refused_example :
  match alookup 1 (st_clusters (run (init_store false) ex_ops)) with
  | Some cl => cluster_is_migrating cl = true /\ snd (step (run (init_store false) ex_ops) (OScaleDown 1 4)) = RErr E_FreeNodeFound
               /\ snd (step (run (init_store false) ex_ops) (OChangeConfig 1 true 3)) = RErr E_MigrationRunning
  | None => False
  end.
Proof. vm_compute. repeat split. Qed.
