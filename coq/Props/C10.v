(* C10 Scaling completes to a balanced full partition and frees only empty chunks.  Statements only. *)
From UM Require Import Base.BytesDef Model.Ranges Model.Broker Proofs.BrokerPartRanges Proofs.BrokerPartDefs Proofs.BrokerScale
  Proofs.BrokerPartMigrateBase Proofs.BrokerBalanceDefs Proofs.BrokerBalance Proofs.BrokerBalanceCommit Proofs.BrokerBalanceProgress
  Proofs.BrokerBalanceScale.

(* scaling and config requests are refused while a migration is running, and the cluster is left unchanged *)
Theorem C10_refused_while_migrating : forall s name cl o,
  alookup name (st_clusters s) = Some cl -> cluster_is_migrating cl = true -> scaling_or_config name o ->
  is_err (snd (step s o)) /\ alookup name (st_clusters (fst (step s o))) = Some cl.
Proof. exact refused_while_migrating. Qed.
Check C10_refused_while_migrating : forall s name cl o,
  alookup name (st_clusters s) = Some cl -> cluster_is_migrating cl = true -> scaling_or_config name o ->
  is_err (snd (step s o)) /\ alookup name (st_clusters (fst (step s o))) = Some cl.
Print Assumptions C10_refused_while_migrating.

(* a chunk leaves a cluster through auto_delete_free_nodes only if it owns no stable, migrating or importing range *)
Theorem C10_release_only_empty : forall s name cl cl' c,
  alookup name (st_clusters s) = Some cl ->
  snd (auto_delete_free_nodes s name) = Done tt ->
  alookup name (st_clusters (fst (auto_delete_free_nodes s name))) = Some cl' ->
  In c (cl_chunks cl) -> ~ In c (cl_chunks cl') ->
  ck_stable0 c = None /\ ck_stable1 c = None /\ ck_mig0 c = [] /\ ck_mig1 c = [].
Proof. exact release_only_empty. Qed.
Check C10_release_only_empty : forall s name cl cl' c,
  alookup name (st_clusters s) = Some cl ->
  snd (auto_delete_free_nodes s name) = Done tt ->
  alookup name (st_clusters (fst (auto_delete_free_nodes s name))) = Some cl' ->
  In c (cl_chunks cl) -> ~ In c (cl_chunks cl') ->
  ck_stable0 c = None /\ ck_stable1 c = None /\ ck_mig0 c = [] /\ ck_mig1 c = [].
Print Assumptions C10_release_only_empty.


(* ---------- completion: balance ----------
   share m i = SLOT_NUM / m + (1 if i < SLOT_NUM mod m): the final size of master i among m masters.
   balance_inv (BrokerBalanceDefs.v): for some k, every master of the first k chunks has stable + incoming slots = share (2k) index,
   every later chunk has no stable slots and only outgoing entries.
   settled k cl (BrokerBalanceScale.v): not migrating, the masters of the first k chunks hold exactly share (2k) i slots, every later chunk is
   slot-less and entry-less, and the stable slots total 16384 (they are a partition by C01).
   drain_op name: a commit on `name` (any descriptor, any order), a failover of any proxy, or a role rebalance.
   successes s ops: the number of commits in ops that succeed when ops is run from s. *)

Theorem C10_balance_invariant : forall s, reachable s -> forall name cl, In (name, cl) (st_clusters s) -> balance_inv (cl_chunks cl).
Proof. exact reachable_balance. Qed.
Check C10_balance_invariant : forall s, reachable s -> forall name cl, In (name, cl) (st_clusters s) -> balance_inv (cl_chunks cl).
Print Assumptions C10_balance_invariant.

(* master slot counts differ by at most one *)
Theorem C10_shares_differ_by_at_most_one : forall m i j, share m i <= share m j + 1.
Proof. exact share_close. Qed.
Check C10_shares_differ_by_at_most_one : forall m i j, share m i <= share m j + 1.
Print Assumptions C10_shares_differ_by_at_most_one.

(* any scale-out: after the planner accepted, ANY script of commits (any order, stale or repeated descriptors), failovers and rebalances that
   contains as many successful commits as migrations were created ends settled on ALL chunks *)
Theorem C10_scale_out_completes : forall s name cl ops,
  reachable s -> alookup name (st_clusters s) = Some cl -> snd (step s (OMigrateSlots name)) = ROk ->
  Forall (drain_op name) ops ->
  let s1 := fst (step s (OMigrateSlots name)) in
  exists cl1, alookup name (st_clusters s1) = Some cl1 /\
    (successes s1 ops = pending cl1 ->
     exists cl', alookup name (st_clusters (run s1 ops)) = Some cl' /\ settled (length (cl_chunks cl)) cl').
Proof. exact scale_out_completes. Qed.
Check C10_scale_out_completes : forall s name cl ops,
  reachable s -> alookup name (st_clusters s) = Some cl -> snd (step s (OMigrateSlots name)) = ROk ->
  Forall (drain_op name) ops ->
  let s1 := fst (step s (OMigrateSlots name)) in
  exists cl1, alookup name (st_clusters s1) = Some cl1 /\
    (successes s1 ops = pending cl1 ->
     exists cl', alookup name (st_clusters (run s1 ops)) = Some cl' /\ settled (length (cl_chunks cl)) cl').
Print Assumptions C10_scale_out_completes.

(* any scale-in to n nodes: the same, settled on the first n/4 chunks; exactly the trailing chunks are slot-less *)
Theorem C10_scale_in_completes : forall s name n cl ops,
  reachable s -> alookup name (st_clusters s) = Some cl -> snd (step s (OScaleDown name n)) = ROk ->
  Forall (drain_op name) ops ->
  let s1 := fst (step s (OScaleDown name n)) in
  (N.to_nat (n / 4) < length (cl_chunks cl))%nat /\
  exists cl1, alookup name (st_clusters s1) = Some cl1 /\
    (successes s1 ops = pending cl1 ->
     exists cl', alookup name (st_clusters (run s1 ops)) = Some cl' /\ settled (N.to_nat (n / 4)) cl').
Proof. exact scale_in_completes. Qed.
Check C10_scale_in_completes : forall s name n cl ops,
  reachable s -> alookup name (st_clusters s) = Some cl -> snd (step s (OScaleDown name n)) = ROk ->
  Forall (drain_op name) ops ->
  let s1 := fst (step s (OScaleDown name n)) in
  (N.to_nat (n / 4) < length (cl_chunks cl))%nat /\
  exists cl1, alookup name (st_clusters s1) = Some cl1 /\
    (successes s1 ops = pending cl1 ->
     exists cl', alookup name (st_clusters (run s1 ops)) = Some cl' /\ settled (N.to_nat (n / 4)) cl').
Print Assumptions C10_scale_in_completes.

(* termination measure: every successful commit removes exactly one pending migration; failovers and rebalances keep the count *)
Theorem C10_commits_drain : forall ops s name cl,
  store_part_inv s -> alookup name (st_clusters s) = Some cl -> Forall (drain_op name) ops ->
  exists cl', alookup name (st_clusters (run s ops)) = Some cl' /\ (pending cl' + successes s ops)%nat = pending cl.
Proof. exact run_drain. Qed.
Check C10_commits_drain : forall ops s name cl,
  store_part_inv s -> alookup name (st_clusters s) = Some cl -> Forall (drain_op name) ops ->
  exists cl', alookup name (st_clusters (run s ops)) = Some cl' /\ (pending cl' + successes s ops)%nat = pending cl.
Print Assumptions C10_commits_drain.

(* the planners never panic (no usize underflow, no failed expect) and the model's loop fuel always suffices, on every reachable store *)
Theorem C10_planners_no_panic : forall s name n, reachable s ->
  snd (migrate_slots s name) <> Panic /\ snd (migrate_slots s name) <> Fail E_BadChoice /\ snd (migrate_slots_to_scale_down s name n) <> Panic /\ snd (migrate_slots_to_scale_down s name n) <> Fail E_BadChoice.
Proof. exact reachable_planners_no_panic. Qed.
Check C10_planners_no_panic : forall s name n, reachable s ->
  snd (migrate_slots s name) <> Panic /\ snd (migrate_slots s name) <> Fail E_BadChoice /\ snd (migrate_slots_to_scale_down s name n) <> Panic /\ snd (migrate_slots_to_scale_down s name n) <> Fail E_BadChoice.
Print Assumptions C10_planners_no_panic.

(* non-vacuity: a migrating cluster exists and refuses *)
Definition ex_ops : list op :=
  [OAddProxy 1 (Some 10) None; OAddProxy 2 (Some 11) None; OAddProxy 3 (Some 10) None; OAddProxy 4 (Some 11) None;
   OAddCluster 1 4 7 [(1, 2)]; OAutoAddNodes 1 4 [(3, 4)]; OMigrateSlots 1].
Example C10_refused_example :
  match alookup 1 (st_clusters (run (init_store false) ex_ops)) with
  | Some cl => cluster_is_migrating cl = true /\ snd (step (run (init_store false) ex_ops) (OScaleDown 1 4)) = RErr E_FreeNodeFound
               /\ snd (step (run (init_store false) ex_ops) (OChangeConfig 1 true 3)) = RErr E_MigrationRunning
  | None => False
  end.
Proof. vm_compute. repeat split. Qed.
