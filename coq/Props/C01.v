(* C01 Every slot has exactly one owner in every broker view.  Statements only; proofs in Proofs/BrokerPart*.v.
   `reachable` (BrokerPartDefs.v): closure of `init_store` under `step` for ALL operations with ALL oracle choices the model
   accepts, excluding steps whose result is a panic; a Restore installs a snapshot that is itself reachable.
   `partition_ok` (BrokerPartDefs.v): every slot < 16384 is in exactly one Stable-or-Migrating range of a master and no other slot
   is owned; replicas own nothing; every Migrating entry sits on its source node and has exactly one Importing twin with equal
   ranges, epoch and addresses, sitting on the destination master; every Importing entry has its Migrating twin.
   `proxy_partition_ok` (BrokerPartViewProxy.v): the same for local nodes + peers of a per-proxy view. *)
From UM Require Import Base.BytesDef Model.Ranges Model.Broker Proofs.BrokerPartRanges Proofs.BrokerPartDefs
  Proofs.BrokerPartViewProxy Proofs.BrokerPartMain Proofs.BrokerTotal.

Theorem C01_invariant_step : forall s o,
  store_part_inv s -> (forall snap, o = ORestore snap -> store_part_inv snap) -> snd (step s o) <> RPanic ->
  store_part_inv (fst (step s o)).
Proof. exact step_keeps_partition. Qed.
Check C01_invariant_step : forall s o,
  store_part_inv s -> (forall snap, o = ORestore snap -> store_part_inv snap) -> snd (step s o) <> RPanic ->
  store_part_inv (fst (step s o)).
Print Assumptions C01_invariant_step.

Theorem C01_cluster_view : forall s, reachable s -> forall lim name ov,
  view_cluster lim s name = Some ov -> exists v, ov = Some v /\ partition_ok (vc_nodes v).
Proof. exact cluster_view_partition. Qed.
Check C01_cluster_view : forall s, reachable s -> forall lim name ov,
  view_cluster lim s name = Some ov -> exists v, ov = Some v /\ partition_ok (vc_nodes v).
Print Assumptions C01_cluster_view.

Theorem C01_proxy_view : forall s, reachable s -> forall lim a ov,
  view_proxy lim s a = Some ov -> exists v, ov = Some v /\ proxy_partition_ok a v.
Proof. exact proxy_view_partition. Qed.
Check C01_proxy_view : forall s, reachable s -> forall lim a ov,
  view_proxy lim s a = Some ov -> exists v, ov = Some v /\ proxy_partition_ok a v.
Print Assumptions C01_proxy_view.


(* The unconditional form: EVERY finite operation sequence from the empty store (a Restore may install any store that is itself the
   result of such a sequence). No step of such a sequence panics (C12_no_operation_panics below), so nothing is excluded. *)
Theorem C01_any_history_cluster_view : forall ordered ops, (forall snap, In (ORestore snap) ops -> reachable_any snap) ->
  forall lim name ov, view_cluster lim (run (init_store ordered) ops) name = Some ov ->
  exists v, ov = Some v /\ partition_ok (vc_nodes v).
Proof. exact any_history_cluster_view. Qed.
Check C01_any_history_cluster_view : forall ordered ops, (forall snap, In (ORestore snap) ops -> reachable_any snap) ->
  forall lim name ov, view_cluster lim (run (init_store ordered) ops) name = Some ov ->
  exists v, ov = Some v /\ partition_ok (vc_nodes v).
Print Assumptions C01_any_history_cluster_view.

Theorem C01_any_history_proxy_view : forall ordered ops, (forall snap, In (ORestore snap) ops -> reachable_any snap) ->
  forall lim a ov, view_proxy lim (run (init_store ordered) ops) a = Some ov ->
  exists v, ov = Some v /\ proxy_partition_ok a v.
Proof. exact any_history_proxy_view. Qed.
Check C01_any_history_proxy_view : forall ordered ops, (forall snap, In (ORestore snap) ops -> reachable_any snap) ->
  forall lim a ov, view_proxy lim (run (init_store ordered) ops) a = Some ov ->
  exists v, ov = Some v /\ proxy_partition_ok a v.
Print Assumptions C01_any_history_proxy_view.

Theorem C01_no_operation_panics : forall s o, reachable_any s -> snd (step s o) <> RPanic.
Proof. exact reachable_any_no_panic. Qed.
Check C01_no_operation_panics : forall s o, reachable_any s -> snd (step s o) <> RPanic.
Print Assumptions C01_no_operation_panics.

(* non-vacuity: a reachable mid-migration store with a limited view *)
Definition ex_ops : list op :=
  [OAddProxy 1 (Some 10) None; OAddProxy 2 (Some 11) None; OAddProxy 3 (Some 10) None; OAddProxy 4 (Some 11) None;
   OAddCluster 1 4 7 [(1, 2)]; OAutoAddNodes 1 4 [(3, 4)]; OMigrateSlots 1; OReplaceFailed 1 None].
Example C01_example_views :
  match view_cluster 1 (run (init_store false) ex_ops) 1, view_proxy 0 (run (init_store false) ex_ops) 3 with
  | Some (Some vc), Some (Some vp) => length (vc_nodes vc) = 8%nat /\ vp_cluster vp = Some 1
  | _, _ => False
  end.
Proof. vm_compute. split; reflexivity. Qed.
