(* C13 Broker state loss is recoverable by epoch recovery (store level).  Statements only; proofs live in
   Proofs/BrokerEpochMain.v (on top of the C04 development).
   Composition in the code: MemBrokerService::recover_epoch (service.rs) calls self.storage.recover_epoch(max_epoch + 1);
   MemoryStorage::recover_epoch (storage.rs) calls store.recover_epoch(existing_largest_epoch + 1).  So the store
   function (Broker.recover_epoch, mirror of store.rs MetaStore::recover_epoch) receives max_epoch + 1 + 1:
     recover_service s m := recover_epoch s (m + 1 + 1).
   The theorems are also stated for any argument e > m (covers a storage layer that passes max_epoch + 1 unchanged).
   `s` (the store restored from a snapshot, i.e. the crash point) is universally quantified. *)
From UM Require Import Base.BytesDef Model.Ranges Model.Broker Proofs.BrokerBase Proofs.BrokerEpochReach
     Proofs.BrokerEpochInv Proofs.BrokerEpochOps Proofs.BrokerEpochMain.

(* after recovery with m = the largest epoch held by any proxy, every served view and the global epoch exceed m
   (every store s: no invariant needed) *)
Theorem C13_recovered_epoch : forall s m,
  let s' := recover_service s m in
  (forall lim a v, view_proxy lim s' a = Some (Some v) -> m < vp_epoch v) /\ m < st_epoch s'.
Proof. exact recovered_epoch_service. Qed.
Check C13_recovered_epoch : forall s m,
  let s' := recover_service s m in
  (forall lim a v, view_proxy lim s' a = Some (Some v) -> m < vp_epoch v) /\ m < st_epoch s'.
Print Assumptions C13_recovered_epoch.

Theorem C13_recovered_epoch_general : forall s e m,
  m < e ->
  let s' := recover_epoch s e in
  (forall lim a v, view_proxy lim s' a = Some (Some v) -> m < vp_epoch v) /\ m < st_epoch s'.
Proof. exact recovered_epoch_general. Qed.
Check C13_recovered_epoch_general : forall s e m,
  m < e ->
  let s' := recover_epoch s e in
  (forall lim a v, view_proxy lim s' a = Some (Some v) -> m < vp_epoch v) /\ m < st_epoch s'.
Print Assumptions C13_recovered_epoch_general.

(* and it stays so after any Restore-free operation list *)
Theorem C13_stays_above : forall s m ops,
  epoch_inv s -> restore_free ops ->
  let s'' := run (recover_service s m) ops in
  (forall lim a v, view_proxy lim s'' a = Some (Some v) -> m < vp_epoch v) /\ m < st_epoch s''.
Proof. exact stays_above_service. Qed.
Check C13_stays_above : forall s m ops,
  epoch_inv s -> restore_free ops ->
  let s'' := run (recover_service s m) ops in
  (forall lim a v, view_proxy lim s'' a = Some (Some v) -> m < vp_epoch v) /\ m < st_epoch s''.
Print Assumptions C13_stays_above.

(* general form: any recovery argument above m, rejected Restores allowed afterwards *)
Theorem C13_stays_above_general : forall s e m ops,
  epoch_inv s -> m < e -> ok_ops (recover_epoch s e) ops ->
  let s'' := run (recover_epoch s e) ops in
  (forall lim a v, view_proxy lim s'' a = Some (Some v) -> m < vp_epoch v) /\ m < st_epoch s''.
Proof. exact stays_above_general. Qed.
Check C13_stays_above_general : forall s e m ops,
  epoch_inv s -> m < e -> ok_ops (recover_epoch s e) ops ->
  let s'' := run (recover_epoch s e) ops in
  (forall lim a v, view_proxy lim s'' a = Some (Some v) -> m < vp_epoch v) /\ m < st_epoch s''.
Print Assumptions C13_stays_above_general.

(* the hypothesis of C13_stays_above holds of every reachable snapshot *)
Theorem C13_snapshot_inv : forall s, reachable s -> epoch_inv s.
Proof. exact epoch_inv_reachable. Qed.
Check C13_snapshot_inv : forall s, reachable s -> epoch_inv s.
Print Assumptions C13_snapshot_inv.

(* ---------- non-vacuity ---------- *)
(* snapshot taken mid-migration at global epoch 9 (cluster proxies 1 2 3 5, free proxies 4 6); the proxies meanwhile
   installed epochs up to 40 *)
Definition c13_snapshot : store :=
  run (init_store false)
      [OAddProxy 1 (Some 10) None; OAddProxy 2 (Some 10) None; OAddProxy 3 (Some 11) None; OAddProxy 4 (Some 11) None;
       OAddProxy 5 (Some 12) None; OAddProxy 6 (Some 12) None; OAddCluster 1 4 1 [(1, 3)]; OAutoAddNodes 1 4 [(5, 2)];
       OMigrateSlots 1].
Definition c13_epoch (o : option (option vproxy)) : option N :=
  match o with Some (Some v) => Some (vp_epoch v) | _ => None end.

Example C13_example :
  epoch_inv c13_snapshot
  /\ st_epoch c13_snapshot = 9
  /\ st_epoch (recover_service c13_snapshot 40) = 42
  /\ map (fun a => c13_epoch (view_proxy 1 (recover_service c13_snapshot 40) a)) [1; 2; 3; 4; 5; 6; 7]
     = [Some 42; Some 42; Some 42; Some 42; Some 42; Some 42; None]
  /\ map (fun a => c13_epoch (view_proxy 1 (run (recover_service c13_snapshot 40) [OCommitNth 1 0 false; ORemoveProxy 6]) a))
         [1; 2; 3; 4; 5; 6; 7]
     = [Some 43; Some 43; Some 43; Some 44; Some 43; None; None]
  /\ st_epoch (recover_service c13_snapshot 3) = 10.
Proof.
  split; [apply epoch_inv_run; repeat constructor|].
  vm_compute. repeat split; reflexivity.
Qed.

(* ---------- service layer: restart from the meta file (src/bin/mem_broker.rs main + MemBrokerService::new + JsonFileStorage) ----------
   Proofs/BrokerSvc.v.  svc_state = (in-memory store, store in the meta file). *)
From UM Require Import Proofs.BrokerSvc.

(* the restart the code performs - a fresh store (either ordered flag) restores the loaded file - is always accepted and yields
   exactly the file: nothing but the file survives a restart, and all of it does *)
Theorem C13_service_restart_is_file : forall b st, svc_restart_code b st = (svc_restart st, ROk).
Proof. exact svc_restart_code_is_restart. Qed.
Check C13_service_restart_is_file : forall b st, svc_restart_code b st = (svc_restart st, ROk).
Print Assumptions C13_service_restart_is_file.

(* (ii) under the contract (svc_step: file := memory after every call) restarts inserted anywhere in a history change nothing:
   file = memory at the end, and the memory is `run` of the history with the restarts removed *)
Theorem C13_service_restarts_are_identity : forall evs st,
  svc_file st = svc_mem st ->
  svc_file (svc_run st evs) = svc_mem (svc_run st evs)
  /\ svc_mem (svc_run st evs) = run (svc_mem st) (strip_restarts evs).
Proof. exact svc_run_strip. Qed.
Check C13_service_restarts_are_identity : forall evs st,
  svc_file st = svc_mem st ->
  svc_file (svc_run st evs) = svc_mem (svc_run st evs)
  /\ svc_mem (svc_run st evs) = run (svc_mem st) (strip_restarts evs).
Print Assumptions C13_service_restarts_are_identity.

Theorem C13_service_restarts_are_identity_init : forall b evs,
  svc_file (svc_run (svc_init b) evs) = svc_mem (svc_run (svc_init b) evs)
  /\ svc_mem (svc_run (svc_init b) evs) = run (init_store b) (strip_restarts evs).
Proof. exact svc_run_strip_init. Qed.
Check C13_service_restarts_are_identity_init : forall b evs,
  svc_file (svc_run (svc_init b) evs) = svc_mem (svc_run (svc_init b) evs)
  /\ svc_mem (svc_run (svc_init b) evs) = run (init_store b) (strip_restarts evs).
Print Assumptions C13_service_restarts_are_identity_init.

(* the handlers as written (impl_step: handler_persists says which handler reaches trigger_update() for which reply) meet the
   contract on every call that is persisted or leaves the store as it was *)
Theorem C13_service_handlers_meet_contract : forall st o,
  svc_file st = svc_mem st ->
  (handler_persists o (snd (step (svc_mem st) o)) = false -> fst (step (svc_mem st) o) = svc_mem st) ->
  impl_step st o = svc_step st o /\ svc_file (fst (impl_step st o)) = svc_mem (fst (impl_step st o)).
Proof. exact impl_step_is_contract. Qed.
Check C13_service_handlers_meet_contract : forall st o,
  svc_file st = svc_mem st ->
  (handler_persists o (snd (step (svc_mem st) o)) = false -> fst (step (svc_mem st) o) = svc_mem st) ->
  impl_step st o = svc_step st o /\ svc_file (fst (impl_step st o)) = svc_mem (fst (impl_step st o)).
Print Assumptions C13_service_handlers_meet_contract.

(* ... and the premise is needed on the unchanged tree: a refused migrate_slots (SLOTS_ALREADY_EVEN) has already taken a global
   epoch (5 -> 6), its handler skips the persistence step, and a restart takes the global epoch back to 5
   (known class refused-migration-call-burns-global-epoch; replayed on the real server by checks/broker_common.py SERVICE_OBSERVED) *)
Theorem C13_service_stale_witness :
  let st := (stale_store, stale_store) in
  let o := OMigrateSlots 1 in
  svc_file st = svc_mem st
  /\ snd (impl_step st o) = RErr E_SlotsAlreadyEven
  /\ handler_persists o (snd (step (svc_mem st) o)) = false
  /\ st_epoch (svc_mem (fst (impl_step st o))) = 6
  /\ st_epoch (svc_file (fst (impl_step st o))) = 5
  /\ st_epoch (svc_mem (svc_restart (fst (impl_step st o)))) = 5
  /\ fst (impl_step st o) <> fst (svc_step st o).
Proof. exact stale_witness. Qed.
Check C13_service_stale_witness :
  let st := (stale_store, stale_store) in
  let o := OMigrateSlots 1 in
  svc_file st = svc_mem st
  /\ snd (impl_step st o) = RErr E_SlotsAlreadyEven
  /\ handler_persists o (snd (step (svc_mem st) o)) = false
  /\ st_epoch (svc_mem (fst (impl_step st o))) = 6
  /\ st_epoch (svc_file (fst (impl_step st o))) = 5
  /\ st_epoch (svc_mem (svc_restart (fst (impl_step st o)))) = 5
  /\ fst (impl_step st o) <> fst (svc_step st o).
Print Assumptions C13_service_stale_witness.

(* non-vacuity of C13_service_restarts_are_identity: a history on the c13 snapshot with three restarts *)
Example C13_service_example :
  let evs := [EvRestart; EvOp (OCommitNth 1 0 false); EvRestart; EvOp (ORemoveProxy 6); EvRestart] in
  svc_mem (svc_run (c13_snapshot, c13_snapshot) evs) = run c13_snapshot [OCommitNth 1 0 false; ORemoveProxy 6]
  /\ strip_restarts evs = [OCommitNth 1 0 false; ORemoveProxy 6]
  /\ st_epoch (svc_mem (svc_run (c13_snapshot, c13_snapshot) evs)) = 11.
Proof. vm_compute. repeat split; reflexivity. Qed.
