(* C17 Control-plane messages survive their wire encodings.  Statements only; proofs live in Proofs/WireProofs*.v *)
From UM Require Import Base.BytesDef Base.Dec Model.Wire Proofs.WireProofsBase Proofs.WireProofsLeaf.

(* ---- leaf records: decode (encode x ++ rest) = Ok (normal form of x, rest) ---- *)

(* a range list decodes to what RangeList::new makes of it (compaction), and to itself when it is already compact *)
Theorem C17_range_list : forall rl rest, wf_rl rl = true ->
  parse_range_list (rl_to_strings rl ++ rest) = Ok (norm_rl rl, rest) /\ compact rl = Some (norm_rl rl) /\
  (is_compact rl = true -> norm_rl rl = rl).
Proof. intros rl rest H. split; [apply parse_range_list_roundtrip; exact H|]. split; [apply compact_norm_rl; exact H|apply norm_rl_id; exact H]. Qed.
Check C17_range_list : forall rl rest, wf_rl rl = true ->
  parse_range_list (rl_to_strings rl ++ rest) = Ok (norm_rl rl, rest) /\ compact rl = Some (norm_rl rl) /\
  (is_compact rl = true -> norm_rl rl = rl).
Print Assumptions C17_range_list.

Theorem C17_migration_meta : forall m rest, wf_mm m = true -> parse_mig_meta (mm_to_strings m ++ rest) = Ok (m, rest).
Proof. exact parse_mig_meta_roundtrip. Qed.
Check C17_migration_meta : forall m rest, wf_mm m = true -> parse_mig_meta (mm_to_strings m ++ rest) = Ok (m, rest).
Print Assumptions C17_migration_meta.

Theorem C17_slot_range : forall sr rest, wf_sr sr = true -> parse_sr (sr_to_strings sr ++ rest) = Ok (norm_sr sr, rest).
Proof. exact parse_sr_roundtrip. Qed.
Check C17_slot_range : forall sr rest, wf_sr sr = true -> parse_sr (sr_to_strings sr ++ rest) = Ok (norm_sr sr, rest).
Print Assumptions C17_slot_range.

(* migration task descriptor: as a token vector, and through the INFOMGR join(" ") / split(' ') journey; with a compact
   range list (what every RangeList in the system is) the descriptor comes back EQUAL *)
Theorem C17_task : forall t,
  (wf_task t = true -> parse_task (tm_to_strings t) = Ok (norm_task t, [])) /\
  (wf_task_str t = true -> task_of_string (task_to_string t) = Ok (norm_task t)) /\
  (wf_task t = true -> task_compact t = true -> norm_task t = t).
Proof.
  intros t. split; [|split].
  - intros H. pose proof (parse_task_roundtrip t [] H) as R. rewrite app_nil_r in R. exact R.
  - apply task_string_roundtrip.
  - apply norm_task_id.
Qed.
Check C17_task : forall t,
  (wf_task t = true -> parse_task (tm_to_strings t) = Ok (norm_task t, [])) /\
  (wf_task_str t = true -> task_of_string (task_to_string t) = Ok (norm_task t)) /\
  (wf_task t = true -> task_compact t = true -> norm_task t = t).
Print Assumptions C17_task.

Theorem C17_switch_arg : forall a rest, wf_task (sa_meta a) = true ->
  parse_switch (sa_to_strings a ++ rest) = Ok (norm_switch a, rest).
Proof. exact parse_switch_roundtrip. Qed.
Check C17_switch_arg : forall a rest, wf_task (sa_meta a) = true ->
  parse_switch (sa_to_strings a ++ rest) = Ok (norm_switch a, rest).
Print Assumptions C17_switch_arg.

(* ---- every strict prefix of a fixed-arity record is rejected (never Ok, never a panic) ---- *)
Theorem C17_fixed_arity_truncation :
  (forall rl k, wf_rl rl = true -> (k < length (rl_to_strings rl))%nat -> is_err (parse_range_list (firstn k (rl_to_strings rl))) = true) /\
  (forall m k, wf_mm m = true -> (k < length (mm_to_strings m))%nat -> is_err (parse_mig_meta (firstn k (mm_to_strings m))) = true) /\
  (forall sr k, wf_sr sr = true -> (k < length (sr_to_strings sr))%nat -> is_err (parse_sr (firstn k (sr_to_strings sr))) = true) /\
  (forall t k, wf_task t = true -> (k < length (tm_to_strings t))%nat -> is_err (parse_task (firstn k (tm_to_strings t))) = true) /\
  (forall a k, wf_task (sa_meta a) = true -> (k < length (sa_to_strings a))%nat -> is_err (parse_switch (firstn k (sa_to_strings a))) = true).
Proof. repeat split; [apply rl_truncation|apply mm_truncation|apply sr_truncation|apply task_truncation|apply switch_truncation]. Qed.
Check C17_fixed_arity_truncation :
  (forall rl k, wf_rl rl = true -> (k < length (rl_to_strings rl))%nat -> is_err (parse_range_list (firstn k (rl_to_strings rl))) = true) /\
  (forall m k, wf_mm m = true -> (k < length (mm_to_strings m))%nat -> is_err (parse_mig_meta (firstn k (mm_to_strings m))) = true) /\
  (forall sr k, wf_sr sr = true -> (k < length (sr_to_strings sr))%nat -> is_err (parse_sr (firstn k (sr_to_strings sr))) = true) /\
  (forall t k, wf_task t = true -> (k < length (tm_to_strings t))%nat -> is_err (parse_task (firstn k (tm_to_strings t))) = true) /\
  (forall a k, wf_task (sa_meta a) = true -> (k < length (sa_to_strings a))%nat -> is_err (parse_switch (firstn k (sa_to_strings a))) = true).
Print Assumptions C17_fixed_arity_truncation.

(* non-vacuity: concrete non-trivial values satisfy the hypotheses *)
Definition ex_mm : mig_meta := MkMM 7799 [49; 50; 55] [97] [98] [99; 58; 49].
Definition ex_task : task_meta := MkTM [109; 121] (MkSR [(233, 666); (700, 800)] (TMigrating ex_mm)).
Example C17_task_example :
  wf_task_str ex_task = true /\ task_compact ex_task = true /\
  task_of_string (task_to_string ex_task) = Ok ex_task /\
  length (tm_to_strings ex_task) = 10%nat /\
  parse_sr (sr_to_strings (MkSR [(30, 20); (0, 10); (11, 15)] TNone)) = Ok (MkSR [(0, 15); (20, 30)] TNone, []).
Proof. vm_compute. repeat split. Qed.
