(* C17 Control-plane messages survive their wire encodings.  Statements only; proofs live in Proofs/WireProofs*.v *)
From UM Require Import Base.BytesDef Base.Dec Model.Wire Proofs.WireProofsBase Proofs.WireProofsLeaf Proofs.WireProofsCluster Proofs.WireProofsRepl Proofs.WireProofsTrunc
  Proofs.WireProofsSound Proofs.WireProofsSoundRepl Proofs.WireProofsCompact Proofs.WireProofsFuel.

(* ---- leaf records: decode (encode x ++ rest) = Ok (normal form of x, rest) ---- *)

(* a range list decodes to what RangeList::new makes of it (compaction), and to itself when it is already compact *)
Theorem C17_range_list : forall rl rest, wf_rl rl = true ->
  parse_range_list (rl_to_strings rl ++ rest) = Ok (norm_rl rl, rest) /\ compact rl = Some (norm_rl rl) /\
  (is_compact rl = true -> norm_rl rl = rl).
Proof. intros rl rest H. split; [apply parse_range_list_roundtrip; exact H|]. split; [apply compact_norm_rl; exact H|apply norm_rl_id; exact H]. Qed.
Check C17_range_list : forall rl rest, wf_rl rl = true ->
  parse_range_list (rl_to_strings rl ++ rest) = Ok (norm_rl rl, rest) /\ compact rl = Some (norm_rl rl) /\
  (is_compact rl = true -> norm_rl rl = rl).
Print Assumptions C17_range_list.

Theorem C17_migration_meta : forall m rest, wf_mm m = true -> parse_mig_meta (mm_to_strings m ++ rest) = Ok (m, rest).
Proof. exact parse_mig_meta_roundtrip. Qed.
Check C17_migration_meta : forall m rest, wf_mm m = true -> parse_mig_meta (mm_to_strings m ++ rest) = Ok (m, rest).
Print Assumptions C17_migration_meta.

Theorem C17_slot_range : forall sr rest, wf_sr sr = true -> parse_sr (sr_to_strings sr ++ rest) = Ok (norm_sr sr, rest).
Proof. exact parse_sr_roundtrip. Qed.
Check C17_slot_range : forall sr rest, wf_sr sr = true -> parse_sr (sr_to_strings sr ++ rest) = Ok (norm_sr sr, rest).
Print Assumptions C17_slot_range.

(* migration task descriptor: as a token vector, and through the INFOMGR join(" ") / split(' ') journey; with a compact
   range list (what every RangeList in the system is) the descriptor comes back EQUAL *)
Theorem C17_task : forall t,
  (wf_task t = true -> parse_task (tm_to_strings t) = Ok (norm_task t, [])) /\
  (wf_task_str t = true -> task_of_string (task_to_string t) = Ok (norm_task t)) /\
  (wf_task t = true -> task_compact t = true -> norm_task t = t).
Proof.
  intros t. split; [|split].
  - intros H. pose proof (parse_task_roundtrip t [] H) as R. rewrite app_nil_r in R. exact R.
  - apply task_string_roundtrip.
  - apply norm_task_id.
Qed.
Check C17_task : forall t,
  (wf_task t = true -> parse_task (tm_to_strings t) = Ok (norm_task t, [])) /\
  (wf_task_str t = true -> task_of_string (task_to_string t) = Ok (norm_task t)) /\
  (wf_task t = true -> task_compact t = true -> norm_task t = t).
Print Assumptions C17_task.

Theorem C17_switch_arg : forall a rest, wf_task (sa_meta a) = true ->
  parse_switch (sa_to_strings a ++ rest) = Ok (norm_switch a, rest).
Proof. exact parse_switch_roundtrip. Qed.
Check C17_switch_arg : forall a rest, wf_task (sa_meta a) = true ->
  parse_switch (sa_to_strings a ++ rest) = Ok (norm_switch a, rest).
Print Assumptions C17_switch_arg.

(* ---- every strict prefix of a fixed-arity record is rejected (never Ok, never a panic) ---- *)
Theorem C17_fixed_arity_truncation :
  (forall rl k, wf_rl rl = true -> (k < length (rl_to_strings rl))%nat -> is_err (parse_range_list (firstn k (rl_to_strings rl))) = true) /\
  (forall m k, wf_mm m = true -> (k < length (mm_to_strings m))%nat -> is_err (parse_mig_meta (firstn k (mm_to_strings m))) = true) /\
  (forall sr k, wf_sr sr = true -> (k < length (sr_to_strings sr))%nat -> is_err (parse_sr (firstn k (sr_to_strings sr))) = true) /\
  (forall t k, wf_task t = true -> (k < length (tm_to_strings t))%nat -> is_err (parse_task (firstn k (tm_to_strings t))) = true) /\
  (forall a k, wf_task (sa_meta a) = true -> (k < length (sa_to_strings a))%nat -> is_err (parse_switch (firstn k (sa_to_strings a))) = true).
Proof. repeat split; [apply rl_truncation|apply mm_truncation|apply sr_truncation|apply task_truncation|apply switch_truncation]. Qed.
Check C17_fixed_arity_truncation :
  (forall rl k, wf_rl rl = true -> (k < length (rl_to_strings rl))%nat -> is_err (parse_range_list (firstn k (rl_to_strings rl))) = true) /\
  (forall m k, wf_mm m = true -> (k < length (mm_to_strings m))%nat -> is_err (parse_mig_meta (firstn k (mm_to_strings m))) = true) /\
  (forall sr k, wf_sr sr = true -> (k < length (sr_to_strings sr))%nat -> is_err (parse_sr (firstn k (sr_to_strings sr))) = true) /\
  (forall t k, wf_task t = true -> (k < length (tm_to_strings t))%nat -> is_err (parse_task (firstn k (tm_to_strings t))) = true) /\
  (forall a k, wf_task (sa_meta a) = true -> (k < length (sa_to_strings a))%nat -> is_err (parse_switch (firstn k (sa_to_strings a))) = true).
Print Assumptions C17_fixed_arity_truncation.

(* ---- cluster metadata (UMCTL SETCLUSTER), plain form ----
   `ord` is the order in which the HashMap of to_str_map lists the config fields, the order of the association lists
   p_local / p_peer is the iteration order of the node HashMaps: the statements hold for every order.
   The plain encoding cannot say that a node has no slot range: such nodes are dropped (class has_empty_node). *)
Theorem C17_cluster_plain : forall unpack ord m, wf_pcm m = true -> (forall f, In f ord) ->
  parse_pcm unpack (pcm_to_args ord m) = Ok (drop_empty_nodes (normalize m), true).
Proof. exact pcm_plain_roundtrip. Qed.
Check C17_cluster_plain : forall unpack ord m, wf_pcm m = true -> (forall f, In f ord) ->
  parse_pcm unpack (pcm_to_args ord m) = Ok (drop_empty_nodes (normalize m), true).
Print Assumptions C17_cluster_plain.

Theorem C17_cluster_plain_exact : forall unpack ord m, wf_pcm m = true -> (forall f, In f ord) ->
  has_empty_node m = false ->
  parse_pcm unpack (pcm_to_args ord m) = Ok (normalize m, true) /\ (pcm_compact m = true -> normalize m = m).
Proof.
  intros unpack ord m H Ho He. split; [apply pcm_plain_roundtrip_exact; assumption|apply normalize_id; exact H].
Qed.
Check C17_cluster_plain_exact : forall unpack ord m, wf_pcm m = true -> (forall f, In f ord) ->
  has_empty_node m = false ->
  parse_pcm unpack (pcm_to_args ord m) = Ok (normalize m, true) /\ (pcm_compact m = true -> normalize m = m).
Print Assumptions C17_cluster_plain_exact.

(* the empty-node class is inhabited and really loses the node: witness by computation *)
Definition ex_cfg : config := MkCfg SetGetOnly 666 66699 500 16.
Definition ex_empty : pcm := MkPcm 7 (MkFlags true false) [99] [([49; 58; 49], [])] [] ex_cfg.
Theorem C17_empty_node_witness :
  wf_pcm ex_empty = true /\ has_empty_node ex_empty = true /\
  parse_pcm (fun _ => None) (pcm_to_args all_cfields ex_empty) = Ok (MkPcm 7 (MkFlags true false) [99] [] [] ex_cfg, true) /\
  MkPcm 7 (MkFlags true false) [99] [] [] ex_cfg <> normalize ex_empty.
Proof. split; [|split; [|split]]; try (vm_compute; reflexivity). vm_compute. discriminate. Qed.
Check C17_empty_node_witness :
  wf_pcm ex_empty = true /\ has_empty_node ex_empty = true /\
  parse_pcm (fun _ => None) (pcm_to_args all_cfields ex_empty) = Ok (MkPcm 7 (MkFlags true false) [99] [] [] ex_cfg, true) /\
  MkPcm 7 (MkFlags true false) [99] [] [] ex_cfg <> normalize ex_empty.
Print Assumptions C17_empty_node_witness.

(* ---- compressed form: the hypothesis stands for serde_json + gzip + base64 (tested against the real libraries by the
   harness); nothing is normalised or dropped, left-over tokens are ignored ---- *)
Theorem C17_cluster_compressed : forall (pack : pcm_data -> tok) (unpack : tok -> option pcm_data),
  (forall d, unpack (pack d) = Some d) ->
  forall m rest, wf_pcm_z m = true -> parse_pcm unpack (pcm_to_compressed_args pack m ++ rest) = Ok (m, true).
Proof. exact pcm_compressed_roundtrip. Qed.
Check C17_cluster_compressed : forall (pack : pcm_data -> tok) (unpack : tok -> option pcm_data),
  (forall d, unpack (pack d) = Some d) ->
  forall m rest, wf_pcm_z m = true -> parse_pcm unpack (pcm_to_compressed_args pack m ++ rest) = Ok (m, true).
Print Assumptions C17_cluster_compressed.

(* every truncation of a plain SETCLUSTER vector is rejected, except at the boundaries where the remainder is itself a
   complete message (after the header, after a node group, after PEER / CONFIG, after a complete config pair), and -
   with both node maps non-empty - between a config field and its value, where the parser tolerates the config error *)
Theorem C17_cluster_truncation : forall unpack ord m k, wf_pcm m = true -> (k < length (pcm_to_args ord m))%nat ->
  is_err (parse_pcm unpack (firstn k (pcm_to_args ord m))) = true
  \/ at_group_boundary ord m k = true \/ at_config_value_cut ord m k = true.
Proof. exact pcm_truncation. Qed.
Check C17_cluster_truncation : forall unpack ord m k, wf_pcm m = true -> (k < length (pcm_to_args ord m))%nat ->
  is_err (parse_pcm unpack (firstn k (pcm_to_args ord m))) = true
  \/ at_group_boundary ord m k = true \/ at_config_value_cut ord m k = true.
Print Assumptions C17_cluster_truncation.

(* ---- replication metadata (UMCTL SETREPL) ---- *)
Theorem C17_repl : forall m, wf_repl m = true -> parse_repl (encode_repl m) = Ok m.
Proof. exact repl_roundtrip. Qed.
Check C17_repl : forall m, wf_repl m = true -> parse_repl (encode_repl m) = Ok m.
Print Assumptions C17_repl.

(* every truncation of a SETREPL vector is rejected, except after the header and after a complete record *)
Theorem C17_repl_truncation : forall m k, wf_repl m = true -> (k < length (encode_repl m))%nat ->
  is_err (parse_repl (firstn k (encode_repl m))) = true \/ at_record_boundary m k = true.
Proof. exact repl_truncation. Qed.
Check C17_repl_truncation : forall m k, wf_repl m = true -> (k < length (encode_repl m))%nat ->
  is_err (parse_repl (firstn k (encode_repl m))) = true \/ at_record_boundary m k = true.
Print Assumptions C17_repl_truncation.

(* ---- parser soundness: only grammatical vectors are accepted, and the result is what the vector says ----
   `shaped_like toks canon` relates the consumed tokens one by one to the printer's tokens for a raw value: equal, or the
   same number in the syntax str::parse::<u64> accepts, or a range token denoting the same range, or the MIGRATING /
   IMPORTING keyword in another case.  The result is the normal form of that raw value. *)
Theorem C17_slot_range_sound : forall toks sr rest, parse_sr toks = Ok (sr, rest) ->
  exists sr0 pre, toks = pre ++ rest /\ shaped_like pre (sr_to_strings sr0) /\ sr = norm_sr sr0 /\ compact (sr_ranges sr0) <> None.
Proof. exact parse_sr_sound. Qed.
Check C17_slot_range_sound : forall toks sr rest, parse_sr toks = Ok (sr, rest) ->
  exists sr0 pre, toks = pre ++ rest /\ shaped_like pre (sr_to_strings sr0) /\ sr = norm_sr sr0 /\ compact (sr_ranges sr0) <> None.
Print Assumptions C17_slot_range_sound.

(* an accepted SETCLUSTER vector is: v2, a number, a flags token, then either (COMPRESS set) one data token that unpacks to
   the result, anything after it being ignored; or a valid cluster name, a run of node groups `address :: slot range`
   (no address is PEER/CONFIG in any case) which are pushed into the local map in order, and a sequence of PEER / CONFIG
   sections (relation `sections`: each PEER section replaces the peer map by its groups, each CONFIG section is a list
   of field/value pairs applied to the DEFAULT config, a failing CONFIG section is tolerated only when local and peer
   are non-empty and then clears the extended-result flag); every token is accounted for *)
Theorem C17_parse_sound : forall unpack toks m ext, parse_pcm unpack toks = Ok (m, ext) ->
  exists et ft tail, toks = kw_v2 :: et :: ft :: tail /\ parse_u64 et = Some (p_epoch m) /\ flags_from_arg ft = p_flags m /\
  ((f_compress (p_flags m) = true /\ ext = true /\
    exists data ignored, tail = data :: ignored /\ unpack data = Some (pcm_data_of m))
   \/
   (f_compress (p_flags m) = false /\
    exists pre gs rest, tail = p_name m :: pre ++ rest /\ valid_cluster_name (p_name m) = true /\
      shaped_like pre (groups_toks gs) /\ Forall group_ok gs /\ p_local m = push_groups gs [] /\ stops rest /\
      sections (p_local m) rest [] default_config true (p_peer m) (p_config m) ext)).
Proof. exact parse_pcm_sound. Qed.
Check C17_parse_sound : forall unpack toks m ext, parse_pcm unpack toks = Ok (m, ext) ->
  exists et ft tail, toks = kw_v2 :: et :: ft :: tail /\ parse_u64 et = Some (p_epoch m) /\ flags_from_arg ft = p_flags m /\
  ((f_compress (p_flags m) = true /\ ext = true /\
    exists data ignored, tail = data :: ignored /\ unpack data = Some (pcm_data_of m))
   \/
   (f_compress (p_flags m) = false /\
    exists pre gs rest, tail = p_name m :: pre ++ rest /\ valid_cluster_name (p_name m) = true /\
      shaped_like pre (groups_toks gs) /\ Forall group_ok gs /\ p_local m = push_groups gs [] /\ stops rest /\
      sections (p_local m) rest [] default_config true (p_peer m) (p_config m) ext)).
Print Assumptions C17_parse_sound.

Theorem C17_repl_sound : forall toks m, parse_repl toks = Ok m ->
  exists et ft body, toks = et :: ft :: body /\ parse_u64 et = Some (rm_epoch m) /\ flags_from_arg ft = rm_flags m /\
                     records body (rm_masters m) (rm_replicas m).
Proof. exact parse_repl_sound. Qed.
Check C17_repl_sound : forall toks m, parse_repl toks = Ok m ->
  exists et ft body, toks = et :: ft :: body /\ parse_u64 et = Some (rm_epoch m) /\ flags_from_arg ft = rm_flags m /\
                     records body (rm_masters m) (rm_replicas m).
Print Assumptions C17_repl_sound.

(* RangeList::compact really yields the normal form (start <= end, sorted, neither overlapping nor adjacent), so every range
   list a parser returns is one *)
Theorem C17_compact_normal_form :
  (forall l c, compact l = Some c -> is_compact c = true) /\
  (forall toks c rest, parse_range_list toks = Ok (c, rest) -> is_compact c = true).
Proof. split; [exact compact_is_compact|exact parse_range_list_compact]. Qed.
Check C17_compact_normal_form :
  (forall l c, compact l = Some c -> is_compact c = true) /\
  (forall toks c rest, parse_range_list toks = Ok (c, rest) -> is_compact c = true).
Print Assumptions C17_compact_normal_form.

(* RangeList::compact mirrored index by index (vector, indices a and b, `s.end() + 1` overflow, the two
   `expect("RangeList::compact")`) computes exactly the list version the parsers of the model use: neither `expect` can
   fire and the loop never runs out of fuel; under wf_rl there is no overflow panic either *)
Theorem C17_compact_loop_faithful :
  (forall l, compact_idx l = match compact l with Some c => CDone c | None => CPanicOverflow end) /\
  (forall l, wf_rl l = true -> compact_idx l = CDone (norm_rl l)).
Proof.
  split; [exact compact_idx_faithful|]. intros l H. rewrite compact_idx_faithful, (compact_norm_rl l H). reflexivity.
Qed.
Check C17_compact_loop_faithful :
  (forall l, compact_idx l = match compact l with Some c => CDone c | None => CPanicOverflow end) /\
  (forall l, wf_rl l = true -> compact_idx l = CDone (norm_rl l)).
Print Assumptions C17_compact_loop_faithful.

(* the loops of the model run on fuel (token count + 1): the out-of-fuel error is unreachable, so every model outcome is an
   outcome of the mirrored code *)
Theorem C17_no_fuel_error : (forall unpack toks, parse_pcm unpack toks <> Err EFuel) /\ (forall toks, parse_repl toks <> Err EFuel).
Proof. split; [exact parse_pcm_no_fuel|exact parse_repl_no_fuel]. Qed.
Check C17_no_fuel_error : (forall unpack toks, parse_pcm unpack toks <> Err EFuel) /\ (forall toks, parse_repl toks <> Err EFuel).
Print Assumptions C17_no_fuel_error.

(* non-vacuity: concrete non-trivial values satisfy the hypotheses *)
Definition ex_mm : mig_meta := MkMM 7799 [49; 50; 55] [97] [98] [99; 58; 49].
Definition ex_task : task_meta := MkTM [109; 121] (MkSR [(233, 666); (700, 800)] (TMigrating ex_mm)).
Example C17_task_example :
  wf_task_str ex_task = true /\ task_compact ex_task = true /\
  task_of_string (task_to_string ex_task) = Ok ex_task /\
  length (tm_to_strings ex_task) = 10%nat /\
  parse_sr (sr_to_strings (MkSR [(30, 20); (0, 10); (11, 15)] TNone)) = Ok (MkSR [(0, 15); (20, 30)] TNone, []).
Proof. vm_compute. repeat split. Qed.

Definition ex_sr1 : slot_range := MkSR [(0, 100); (200, 300)] TNone.
Definition ex_sr2 : slot_range := MkSR [(500, 600)] (TImporting ex_mm).
Definition ex_pcm : pcm :=
  MkPcm 233 (MkFlags true false) [109; 121] [([49; 58; 49], [ex_sr1; ex_sr2]); ([49; 58; 50], [ex_sr1])] [([50; 58; 49], [ex_sr1])] ex_cfg.
Definition ex_repl : repl_meta :=
  MkRepl 5 (MkFlags false false) [MkRec [99] [49; 58; 49] [([50; 58; 49], [50; 58; 50])]] [MkRec [99] [51; 58; 49] []].
Example C17_cluster_example :
  wf_pcm ex_pcm = true /\ has_empty_node ex_pcm = false /\ pcm_compact ex_pcm = true /\
  length (pcm_to_args all_cfields ex_pcm) = 37%nat /\
  parse_pcm (fun _ => None) (pcm_to_args [FScanCount; FStrategy; FMaxBlocking; FMaxMigration; FScanInterval] ex_pcm) = Ok (ex_pcm, true) /\
  (forall f, In f all_cfields) /\
  wf_pcm_z (MkPcm 1 (MkFlags false true) [] [] [] ex_cfg) = true /\
  wf_repl ex_repl = true /\ length (encode_repl ex_repl) = 12%nat /\ at_record_boundary ex_repl 8 = true /\ at_record_boundary ex_repl 9 = false.
Proof.
  assert (A : forall f, In f all_cfields) by (intros []; cbn; tauto).
  split; [|split; [|split; [|split; [|split; [|split; [exact A|]]]]]]; try (vm_compute; reflexivity).
  repeat split; vm_compute; reflexivity.
Qed.

(* ---- the plain format is not robust (the last clause of the property is false of it): witnesses by computation.
   Deleting the PEER token (index 21) of a well-formed message yields a vector that is itself a printer output
   (in_language) and parses to DIFFERENT metadata (the peer has become a local node); cutting the same message after its
   first node group (8 tokens, a group boundary) or between a config field and its value (28 tokens) is accepted too. ---- *)
Definition no_unpack : tok -> option pcm_data := fun _ => None.
Theorem C17_format_not_robust_witness :
  wf_pcm ex_pcm = true /\
  nth 21 (pcm_to_args all_cfields ex_pcm) [] = kw_PEER /\
  (exists m', parse_pcm no_unpack (delete_nth 21 (pcm_to_args all_cfields ex_pcm)) = Ok (m', true)
              /\ m' <> drop_empty_nodes (normalize ex_pcm) /\ p_peer m' = [] /\ length (p_local m') = 3%nat) /\
  in_language no_unpack (delete_nth 21 (pcm_to_args all_cfields ex_pcm)) = true /\
  (exists m', parse_pcm no_unpack (firstn 8 (pcm_to_args all_cfields ex_pcm)) = Ok (m', true)
              /\ m' <> drop_empty_nodes (normalize ex_pcm)) /\
  at_group_boundary all_cfields ex_pcm 8 = true /\
  (exists m', parse_pcm no_unpack (firstn 28 (pcm_to_args all_cfields ex_pcm)) = Ok (m', false)
              /\ p_config m' = default_config) /\
  at_config_value_cut all_cfields ex_pcm 28 = true.
Proof.
  split; [vm_compute; reflexivity|]. split; [vm_compute; reflexivity|].
  split. { eexists. split; [vm_compute; reflexivity|]. split; [vm_compute; discriminate|]. split; vm_compute; reflexivity. }
  split; [vm_compute; reflexivity|].
  split. { eexists. split; [vm_compute; reflexivity|]. vm_compute; discriminate. }
  split; [vm_compute; reflexivity|].
  split. { eexists. split; vm_compute; reflexivity. }
  vm_compute; reflexivity.
Qed.
Check C17_format_not_robust_witness :
  wf_pcm ex_pcm = true /\
  nth 21 (pcm_to_args all_cfields ex_pcm) [] = kw_PEER /\
  (exists m', parse_pcm no_unpack (delete_nth 21 (pcm_to_args all_cfields ex_pcm)) = Ok (m', true)
              /\ m' <> drop_empty_nodes (normalize ex_pcm) /\ p_peer m' = [] /\ length (p_local m') = 3%nat) /\
  in_language no_unpack (delete_nth 21 (pcm_to_args all_cfields ex_pcm)) = true /\
  (exists m', parse_pcm no_unpack (firstn 8 (pcm_to_args all_cfields ex_pcm)) = Ok (m', true)
              /\ m' <> drop_empty_nodes (normalize ex_pcm)) /\
  at_group_boundary all_cfields ex_pcm 8 = true /\
  (exists m', parse_pcm no_unpack (firstn 28 (pcm_to_args all_cfields ex_pcm)) = Ok (m', false)
              /\ p_config m' = default_config) /\
  at_config_value_cut all_cfields ex_pcm 28 = true.
Print Assumptions C17_format_not_robust_witness.

(* soundness hypotheses are inhabited by vectors the printer never emits: lower-case keywords, '+' and leading zeros,
   a third piece in a range token, an interleaved group, a repeated PEER section *)
Example C17_sound_example :
  exists m e, parse_pcm no_unpack
    [kw_v2; [43; 53]; [120]; [99];
     [97]; [109; 105; 103; 114; 97; 116; 105; 110; 103]; [48; 49]; [53; 45; 51; 45; 57]; [55]; [115]; [116]; [117]; [118];
     [98]; [49]; [57; 45; 57]; [97]; [49]; [49; 48; 45; 50; 48];
     [112; 101; 101; 114]; [113]; [49]; [49; 45; 49]; kw_PEER] = Ok (m, e) /\ p_epoch m = 5 /\ p_peer m = [] /\ length (p_local m) = 2%nat.
Proof. eexists. eexists. split; [vm_compute; reflexivity|]. vm_compute. repeat split. Qed.

(* ---- the broker half: "the descriptor a proxy reports for a finished migration is accepted by the broker as naming that migration" ----
   The wire half is C17_task above (the descriptor arrives EQUAL). The statements live in Proofs/C17BrokerHalf.v (the Broker model's names
   clash with the Wire model's): for every store reached by ANY operation sequence and every Migrating or Importing slot entry visible in a served
   cluster view under any migration limit, commit_migration with that entry's (ranges, tag, epoch) succeeds, removes exactly that migration pair,
   keeps every other pending migration, moves the ranges into the destination's stable slots and bumps the cluster epoch (commit_effect);
   a second commit of the same descriptor and a stale descriptor return MigrationTaskNotFound and leave the store unchanged. *)
From UM Require Proofs.C17BrokerHalf.

Theorem C17_commit_accepts : C17BrokerHalf.commit_accepts_visible_stmt.
Proof. exact C17BrokerHalf.commit_accepts_visible_holds. Qed.
Check C17_commit_accepts : C17BrokerHalf.commit_accepts_visible_stmt.
Print Assumptions C17_commit_accepts.

Theorem C17_commit_twice_rejected : C17BrokerHalf.commit_twice_rejected_stmt.
Proof. exact C17BrokerHalf.commit_twice_rejected_holds. Qed.
Check C17_commit_twice_rejected : C17BrokerHalf.commit_twice_rejected_stmt.
Print Assumptions C17_commit_twice_rejected.

Theorem C17_commit_stale_rejected : C17BrokerHalf.commit_stale_rejected_stmt.
Proof. exact C17BrokerHalf.commit_stale_rejected_holds. Qed.
Check C17_commit_stale_rejected : C17BrokerHalf.commit_stale_rejected_stmt.
Print Assumptions C17_commit_stale_rejected.
