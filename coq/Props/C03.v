(* C03 Live slot migration neither loses, duplicates nor resurrects data.
   Statements only; proofs live in Proofs/MigrateProofs{Base,Inv,Frame,Step,Lin}.v over Model/Migrate.v.

   Reading guide.  `run (init s0) evs = Some st`: the event list evs is an execution of the per-key model from the
   initial state whose source copy is s0 (destination empty, both sides in PreCheck, no operation).  The three run
   premises are boolean functions of the run (Model/Migrate.v):
     c11_ok         a client command executes on the source Redis only while the source phase is PreCheck or
                    PreBlocking (C11's guarantee: nothing reaches the source Redis between blocking-done and redirect);
     commit_ok      the destination's metadata commit does not happen while some transfer holds a dumped value whose
                    RESTORE has not executed yet;
     classified_ok  every Delete command is classified deleting (cpush = requires_blocking_migration);
     ensured_ok     a multi-key command (multi-key EVAL) that DELETES a key other than its first key - it is pushed
                    (UMSYNC) for its first key only - does so when the source copy of that key is gone and no transfer
                    holds a dumped value of it (vacuous for runs without EvEnsured events, i.e. single-key commands and
                    multi-key reads / writes).
   `history` is the client history (HInv/HRep) with one marker HLin at each linearization point. *)
From Coq Require Import String.
From UM Require Import Base.BytesDef Base.RespT Model.Ttl Model.Migrate
  Proofs.MigrateProofsInv Proofs.MigrateProofsStep Proofs.MigrateProofsLin.

(* (1a) per-step forward simulation: a step of a run either is the linearization point of exactly one in-flight
   operation - it applies that operation's register semantics to L, and the operation's stored reply is L before the
   step - or it leaves L unchanged and is nobody's linearization point *)
Theorem C03_step_simulation : forall s0 evs1 e s s',
  wf_init s0 -> run (init s0) evs1 = Some s -> step s e = Some s' ->
  c11_ok (init s0) (evs1 ++ [e]) = true -> commit_ok (init s0) (evs1 ++ [e]) = true ->
  classified_ok (init s0) (evs1 ++ [e]) = true -> ensured_ok (init s0) (evs1 ++ [e]) = true ->
  match lin_point e with
  | Some i => exists o, nth_error (ops s) i = Some o /\
                hist_step s e = [HLin i (ckind (ocmd o)) (L (gl s))] /\
                L (gl s') = apply_kind (ckind (ocmd o)) (L (gl s)) /\
                nth_error (ops s') i = Some (mkOp (ocmd o) (PDone (ROk (L (gl s)))) (ocl o))
  | None => L (gl s') = L (gl s) /\ (forall i k r, ~ In (HLin i k r) (hist_step s e))
  end.
Proof. exact run_step_simulation. Qed.
Check C03_step_simulation : forall s0 evs1 e s s',
  wf_init s0 -> run (init s0) evs1 = Some s -> step s e = Some s' ->
  c11_ok (init s0) (evs1 ++ [e]) = true -> commit_ok (init s0) (evs1 ++ [e]) = true ->
  classified_ok (init s0) (evs1 ++ [e]) = true -> ensured_ok (init s0) (evs1 ++ [e]) = true ->
  match lin_point e with
  | Some i => exists o, nth_error (ops s) i = Some o /\
                hist_step s e = [HLin i (ckind (ocmd o)) (L (gl s))] /\
                L (gl s') = apply_kind (ckind (ocmd o)) (L (gl s)) /\
                nth_error (ops s') i = Some (mkOp (ocmd o) (PDone (ROk (L (gl s)))) (ocl o))
  | None => L (gl s') = L (gl s) /\ (forall i k r, ~ In (HLin i k r) (hist_step s e))
  end.
Print Assumptions C03_step_simulation.

(* (1) every run is linearizable with respect to the one-register specification: there is a marked history `lin` whose
   client events are exactly the run's invocations and replies, in which every operation is linearized at most once,
   between its invocation and its reply, every Ok reply is the value computed at the operation's linearization point and
   every error reply belongs to an operation that never took effect (`bracketed`), and whose linearization points
   replayed on one register starting from the source copy's value reproduce every reply and end in L st *)
Theorem C03_linearizable : forall s0 evs st,
  wf_init s0 -> run (init s0) evs = Some st ->
  c11_ok (init s0) evs = true -> commit_ok (init s0) evs = true -> classified_ok (init s0) evs = true ->
  ensured_ok (init s0) evs = true ->
  exists lin, is_linearization lin (client_history (history (init s0) evs)) /\
              register_spec (val s0) lin = Some (L (gl st)).
Proof. exact linearizable. Qed.
Check C03_linearizable : forall s0 evs st,
  wf_init s0 -> run (init s0) evs = Some st ->
  c11_ok (init s0) evs = true -> commit_ok (init s0) evs = true -> classified_ok (init s0) evs = true ->
  ensured_ok (init s0) evs = true ->
  exists lin, is_linearization lin (client_history (history (init s0) evs)) /\
              register_spec (val s0) lin = Some (L (gl st)).
Print Assumptions C03_linearizable.

(* (2) after the scan passed the key, the commit, and with every operation answered: the source holds nothing and the
   destination holds exactly what the register holds after all linearized operations: the value of the last write, or
   nothing after a delete (final_value folds the linearization points), and every linearized operation has been
   acknowledged to its client with the reply computed at its linearization point *)
Theorem C03_final : forall s0 evs st,
  wf_init s0 -> run (init s0) evs = Some st ->
  c11_ok (init s0) evs = true -> commit_ok (init s0) evs = true -> classified_ok (init s0) evs = true ->
  ensured_ok (init s0) evs = true ->
  is_passed (scan (gl st)) = true -> committed (gl st) = true -> quiescent st = true ->
  src (gl st) = None /\
  register_spec (val s0) (history (init s0) evs) = Some (val (dst (gl st))) /\
  val (dst (gl st)) = final_value (val s0) (history (init s0) evs) /\
  (forall i k r, In (HLin i k r) (history (init s0) evs) -> In (HRep i (ROk r)) (history (init s0) evs)).
Proof. exact final_state. Qed.
Check C03_final : forall s0 evs st,
  wf_init s0 -> run (init s0) evs = Some st ->
  c11_ok (init s0) evs = true -> commit_ok (init s0) evs = true -> classified_ok (init s0) evs = true ->
  ensured_ok (init s0) evs = true ->
  is_passed (scan (gl st)) = true -> committed (gl st) = true -> quiescent st = true ->
  src (gl st) = None /\
  register_spec (val s0) (history (init s0) evs) = Some (val (dst (gl st))) /\
  val (dst (gl st)) = final_value (val s0) (history (init s0) evs) /\
  (forall i k r, In (HLin i k r) (history (init s0) evs) -> In (HRep i (ROk r)) (history (init s0) evs)).
Print Assumptions C03_final.

(* (3) every transfer step (the RESTORE of the pull path, of the fast and slow push paths and of the scanner) either
   meets an existing destination key and changes nothing (BUSYKEY), or copies the source's (value, PTTL) as
   (value, ttl_restore PTTL) - the RESTORE command of C19 *)
Theorem C03_ttl_preserved : forall s0 evs s e s',
  wf_init s0 -> run (init s0) evs = Some s ->
  c11_ok (init s0) evs = true -> commit_ok (init s0) evs = true -> classified_ok (init s0) evs = true ->
  ensured_ok (init s0) evs = true ->
  is_transfer e = true -> step s e = Some s' ->
  match dst (gl s) with
  | Some _ => dst (gl s') = dst (gl s)
  | None => exists raw p, src (gl s) = Some (raw, p) /\ dst (gl s') = Some (raw, ttl_restore p) /\
                          forall key, restore_cmd key (Entry p raw) = Some [RESTORE; key; ttl_restore p; raw]
  end.
Proof. exact ttl_preserved. Qed.
Check C03_ttl_preserved : forall s0 evs s e s',
  wf_init s0 -> run (init s0) evs = Some s ->
  c11_ok (init s0) evs = true -> commit_ok (init s0) evs = true -> classified_ok (init s0) evs = true ->
  ensured_ok (init s0) evs = true ->
  is_transfer e = true -> step s e = Some s' ->
  match dst (gl s) with
  | Some _ => dst (gl s') = dst (gl s)
  | None => exists raw p, src (gl s) = Some (raw, p) /\ dst (gl s') = Some (raw, ttl_restore p) /\
                          forall key, restore_cmd key (Entry p raw) = Some [RESTORE; key; ttl_restore p; raw]
  end.
Print Assumptions C03_ttl_preserved.

(* ---------- witnesses: each premise is necessary ---------- *)
Definition wa : bytes := [97].
Definition ws0 : option entry := Some (wa, PTTL_NO_EXPIRE).
Definition to_scanning := [EvPreCheckAck; EvBlockingDone; EvDstPreSwitch; EvSrcScanning].

(* DESIGN.md section 9 row 11: a deleting command that requires_blocking_migration does not list (SINTERSTORE,
   SDIFFSTORE, ZINTERSTORE, ZUNIONSTORE with an empty result) takes the pull path; the scanner, holding a dump of the source copy taken before, restores the key after
   the delete was acknowledged; a later read returns the deleted value *)
Definition run_unclassified : list event :=
  to_scanning ++
  [EvScanLock; EvScanPttl; EvScanDump;
   EvInvoke (mkCmd KDelete false) false; EvSendExists 0; EvExistsExec 0; EvPullLock 0 true; EvDumpExec 0; EvPttlExec 0;
   EvRestoreExec 0; EvExecDst 0; EvReply 0; EvPullUnlock 0; EvPullDel 0;
   EvScanRestore; EvScanDel;
   EvInvoke (mkCmd KRead false) false; EvSendExists 1; EvExistsExec 1; EvExecDst 1; EvReply 1].

Theorem C03_unclassified_delete_refuted : exists s0 evs st,
  wf_init s0 /\ run (init s0) evs = Some st /\
  c11_ok (init s0) evs = true /\ commit_ok (init s0) evs = true /\ classified_ok (init s0) evs = false /\ ensured_ok (init s0) evs = true /\
  register_spec (val s0) (history (init s0) evs) = None /\
  history (init s0) evs = [HInv 0 (mkCmd KDelete false); HLin 0 KDelete (Some wa); HRep 0 (ROk (Some wa));
                            HInv 1 (mkCmd KRead false); HLin 1 KRead (Some wa); HRep 1 (ROk (Some wa))].
Proof.
  exists ws0, run_unclassified. eexists. split.
  - intros raw t H. inversion H; subst. reflexivity.
  - vm_compute. repeat split.
Qed.
Check C03_unclassified_delete_refuted : exists s0 evs st,
  wf_init s0 /\ run (init s0) evs = Some st /\
  c11_ok (init s0) evs = true /\ commit_ok (init s0) evs = true /\ classified_ok (init s0) evs = false /\ ensured_ok (init s0) evs = true /\
  register_spec (val s0) (history (init s0) evs) = None /\
  history (init s0) evs = [HInv 0 (mkCmd KDelete false); HLin 0 KDelete (Some wa); HRep 0 (ROk (Some wa));
                            HInv 1 (mkCmd KRead false); HLin 1 KRead (Some wa); HRep 1 (ROk (Some wa))].
Print Assumptions C03_unclassified_delete_refuted.

(* a pull-path command stalled between its DUMP and its RESTORE across the whole final switch and the metadata commit:
   a delete served directly after the commit is undone by the stale RESTORE *)
Definition run_commit_race : list event :=
  to_scanning ++
  [EvInvoke (mkCmd KRead false) false; EvSendExists 0; EvExistsExec 0; EvPullLock 0 true; EvDumpExec 0; EvPttlExec 0;
   EvScanLock; EvScanPttl; EvScanDump; EvScanRestore; EvScanDel;
   EvScanFinished; EvDstFinal; EvSrcFinal; EvCommit;
   EvInvoke (mkCmd KDelete true) false; EvDirect 1; EvExecDst 1; EvReply 1;
   EvRestoreExec 0; EvExecDst 0; EvReply 0].

Theorem C03_commit_race_witness : exists s0 evs st,
  wf_init s0 /\ run (init s0) evs = Some st /\
  c11_ok (init s0) evs = true /\ commit_ok (init s0) evs = false /\ classified_ok (init s0) evs = true /\
  ensured_ok (init s0) evs = true /\
  register_spec (val s0) (history (init s0) evs) = None.
Proof.
  exists ws0, run_commit_race. eexists. split.
  - intros raw t H. inversion H; subst. reflexivity.
  - vm_compute. repeat split.
Qed.
Check C03_commit_race_witness : exists s0 evs st,
  wf_init s0 /\ run (init s0) evs = Some st /\
  c11_ok (init s0) evs = true /\ commit_ok (init s0) evs = false /\ classified_ok (init s0) evs = true /\
  ensured_ok (init s0) evs = true /\
  register_spec (val s0) (history (init s0) evs) = None.
Print Assumptions C03_commit_race_witness.

(* without C11's guarantee: a write handed to the source Redis before the barrier but executed after the destination
   started serving is lost *)
Definition wb : bytes := [98].
Definition run_no_barrier : list event :=
  [EvInvoke (mkCmd (KWrite wb) false) true; EvSrcHandoff 0] ++ to_scanning ++
  [EvScanLock; EvScanPttl; EvScanDump; EvScanRestore; EvScanDel;
   EvExecSrc 0; EvReply 0;
   EvInvoke (mkCmd KRead false) false; EvSendExists 1; EvExistsExec 1; EvExecDst 1; EvReply 1].

Theorem C03_barrier_needed_witness : exists s0 evs st,
  wf_init s0 /\ run (init s0) evs = Some st /\
  c11_ok (init s0) evs = false /\ commit_ok (init s0) evs = true /\ classified_ok (init s0) evs = true /\
  ensured_ok (init s0) evs = true /\
  register_spec (val s0) (history (init s0) evs) = None.
Proof.
  exists ws0, run_no_barrier. eexists. split.
  - intros raw t H. inversion H; subst. reflexivity.
  - vm_compute. repeat split.
Qed.
Check C03_barrier_needed_witness : exists s0 evs st,
  wf_init s0 /\ run (init s0) evs = Some st /\
  c11_ok (init s0) evs = false /\ commit_ok (init s0) evs = true /\ classified_ok (init s0) evs = true /\
  ensured_ok (init s0) evs = true /\
  register_spec (val s0) (history (init s0) evs) = None.
Print Assumptions C03_barrier_needed_witness.

(* the ensured_ok premise is necessary: a multi-key script deletes its SECOND key k on the destination (ensure_keys_imported
   found k there: the scanner had copied it and still has to delete the source copy) - nothing orders the deletion
   against a pull that holds a dump of k taken before: its RESTORE brings the deleted value back *)
Definition run_ensured_delete : list event :=
  to_scanning ++
  [EvInvoke (mkCmd KRead false) false; EvSendExists 0; EvExistsExec 0; EvPullLock 0 true; EvDumpExec 0; EvPttlExec 0;
   EvScanLock; EvScanPttl; EvScanDump; EvScanRestore; EvScanDel;
   EvInvoke (mkCmd KDelete true) false; EvEnsured 1; EvExecDst 1; EvReply 1;
   EvRestoreExec 0; EvExecDst 0; EvReply 0].

Theorem C03_ensured_delete_witness : exists s0 evs st,
  wf_init s0 /\ run (init s0) evs = Some st /\
  c11_ok (init s0) evs = true /\ commit_ok (init s0) evs = true /\ classified_ok (init s0) evs = true /\
  ensured_ok (init s0) evs = false /\
  register_spec (val s0) (history (init s0) evs) = None.
Proof.
  exists ws0, run_ensured_delete. eexists. split.
  - intros raw t H. inversion H; subst. reflexivity.
  - vm_compute. repeat split.
Qed.
Check C03_ensured_delete_witness : exists s0 evs st,
  wf_init s0 /\ run (init s0) evs = Some st /\
  c11_ok (init s0) evs = true /\ commit_ok (init s0) evs = true /\ classified_ok (init s0) evs = true /\
  ensured_ok (init s0) evs = false /\
  register_spec (val s0) (history (init s0) evs) = None.
Print Assumptions C03_ensured_delete_witness.

(* a multi-key command never reaches the destination for a key that is still only on the source: EvEnsured is not
   enabled there (the acceptor relies on this) *)
Theorem C03_ensured_needs_import : forall s i s',
  step s (EvEnsured i) = Some s' -> dst (gl s) = None -> src (gl s) = None.
Proof.
  intros s i s' H D. unfold step in H. cbn [ev_op is_cl_event] in H.
  destruct (nth_error (ops s) i) as [[c p cl]|]; [|discriminate].
  unfold op_step in H. cbn [opc ocmd ocl] in H. destruct p; try discriminate.
  rewrite D in H. cbn [is_none negb orb] in H.
  destruct (src (gl s)); auto. rewrite !andb_false_r in H. discriminate.
Qed.
Check C03_ensured_needs_import : forall s i s',
  step s (EvEnsured i) = Some s' -> dst (gl s) = None -> src (gl s) = None.
Print Assumptions C03_ensured_needs_import.

(* ---------- the finite obligation (classification table) ---------- *)
Open Scope string_scope.
(* on the pinned tree four supported commands may delete their key but take the non-deleting path (the blocking pops
   are translated to LPOP/RPOP/RPOPLPUSH/ZPOPMIN/ZPOPMAX by the executor before they are classified) *)
Theorem C03_unclassified_on_pinned_tree :
  unclassified code_deleting_orig =
  ["SDIFFSTORE"; "SINTERSTORE"; "ZINTERSTORE"; "ZUNIONSTORE"].
Proof. vm_compute. reflexivity. Qed.
Check C03_unclassified_on_pinned_tree :
  unclassified code_deleting_orig =
  ["SDIFFSTORE"; "SINTERSTORE"; "ZINTERSTORE"; "ZUNIONSTORE"].
Print Assumptions C03_unclassified_on_pinned_tree.

(* with work/fix_C03.diff every supported command that may delete its key is classified deleting, i.e. the premise
   classified_ok holds for every command of the supported table *)
Theorem C03_classification_complete : unclassified code_deleting = [] /\ length supported_cmds = 137%nat.
Proof. vm_compute. split; reflexivity. Qed.
Check C03_classification_complete : unclassified code_deleting = [] /\ length supported_cmds = 137%nat.
Print Assumptions C03_classification_complete.
Close Scope string_scope.

(* ---------- non-vacuity: a complete run satisfying every premise ---------- *)
(* scanner holds a dump; a classified delete is pushed (slot lock busy -> slow path, served after the scanner's batch);
   a read pulls nothing; scan finishes, final switch, commit; a write after the commit goes directly *)
Definition run_good : list event :=
  [EvInvoke (mkCmd (KWrite wb) false) true; EvSrcHandoff 0; EvExecSrc 0; EvReply 0] ++ to_scanning ++
  [EvScanLock; EvScanPttl; EvScanDump;
   EvInvoke (mkCmd KDelete true) false; EvPushLock 1 true; EvSyncLock 1 false; EvScanRestore; EvScanDel;
   EvSlowPttl 1; EvSlowDump 1; EvPushForward 1; EvExecDst 1; EvReply 1;
   EvInvoke (mkCmd KRead false) true; EvSrcRedirect 2; EvSendExists 2; EvExistsExec 2; EvPullLock 2 true; EvDumpExec 2;
   EvPttlExec 2; EvExecDst 2; EvReply 2;
   EvScanFinished; EvDstFinal; EvSrcFinal; EvCommit;
   EvInvoke (mkCmd (KWrite wa) false) false; EvDirect 3; EvExecDst 3; EvReply 3].

(* the same with a multi-key script whose SECOND key is this key: the EXISTS of ensure_keys_imported pulls it (op 0), then the
   script writes it (op 1, EvEnsured), later another script deletes it once the source copy is gone (op 2) *)
Definition run_multikey : list event :=
  to_scanning ++
  [EvInvoke (mkCmd KRead false) false; EvInvoke (mkCmd (KWrite wb) true) false;
   EvSendExists 0; EvExistsExec 0; EvPullLock 0 true; EvDumpExec 0; EvPttlExec 0; EvRestoreExec 0; EvExecDst 0;
   EvEnsured 1; EvExecDst 1; EvReply 1; EvPullUnlock 0; EvPullDel 0;
   EvInvoke (mkCmd KDelete true) false; EvEnsured 2; EvExecDst 2; EvReply 2; EvScanSkip].

Example C03_multikey_premises_satisfiable : exists st,
  run (init ws0) run_multikey = Some st /\
  c11_ok (init ws0) run_multikey = true /\ commit_ok (init ws0) run_multikey = true /\
  classified_ok (init ws0) run_multikey = true /\ ensured_ok (init ws0) run_multikey = true /\
  src (gl st) = None /\ dst (gl st) = None /\
  register_spec (val ws0) (history (init ws0) run_multikey) = Some None.
Proof. eexists. vm_compute. repeat split. Qed.

Example C03_premises_satisfiable : exists st,
  wf_init ws0 /\ run (init ws0) run_good = Some st /\
  c11_ok (init ws0) run_good = true /\ commit_ok (init ws0) run_good = true /\ classified_ok (init ws0) run_good = true /\
  ensured_ok (init ws0) run_good = true /\
  is_passed (scan (gl st)) = true /\ committed (gl st) = true /\ quiescent st = true /\
  src (gl st) = None /\ val (dst (gl st)) = Some wa /\
  register_spec (val ws0) (history (init ws0) run_good) = Some (Some wa).
Proof.
  eexists. split.
  - intros raw t H. inversion H; subst. reflexivity.
  - vm_compute. repeat split.
Qed.

(* a transfer step of that run copies (value, ttl) through ttl_restore *)
Example C03_ttl_example :
  exists s s', run (init ws0) (firstn 14 run_good) = Some s /\ step s EvScanRestore = Some s' /\
               dst (gl s) = None /\ src (gl s) = Some (wb, PTTL_NO_EXPIRE) /\
               dst (gl s') = Some (wb, ttl_restore PTTL_NO_EXPIRE).
Proof. eexists. eexists. vm_compute. repeat split. Qed.
