(* C04 Metadata epochs version every change and never regress.  Statements only; proofs live in
   Proofs/BrokerEpochInv.v (what a served view depends on, invariant, relation), Proofs/BrokerEpochOps.v (one lemma per
   operation function), Proofs/BrokerEpochMain.v (assembly over step / run).
   Model functions: Broker.step, Broker.run, Broker.view_proxy (query.rs get_proxy_by_address + store.rs limit_migration).
   Vocabulary defined in the proof files:
     epoch_inv s   := keys of st_clusters strictly increasing /\ keys of st_proxies strictly increasing
                      /\ every stored cluster has cl_epoch <= st_epoch s
     vp_content v  := (vp_cluster v, vp_nodes v, vp_peers v, vp_config v)            (everything but vp_epoch)
     restore_ok s o:= exists snap, o = ORestore snap /\ snd (step s o) = ROk         (a Restore that was accepted)
     ok_ops s ops  := no operation of ops, at the store it is applied to, is an accepted Restore
     restore_free  := no ORestore at all;   op_wf P o := the snapshot of an ORestore satisfies P *)
From UM Require Import Base.BytesDef Model.Ranges Model.Broker Proofs.BrokerBase Proofs.BrokerEpochReach
     Proofs.BrokerEpochInv Proofs.BrokerEpochOps Proofs.BrokerEpochMain.

(* the global epoch never decreases: every operation, accepted Restore included, every store (no invariant needed) *)
Theorem C04_global_mono : forall s o, st_epoch s <= st_epoch (fst (step s o)).
Proof. exact global_mono. Qed.
Check C04_global_mono : forall s o, st_epoch s <= st_epoch (fst (step s o)).
Print Assumptions C04_global_mono.

(* epoch_inv is preserved by every operation (an ORestore must carry a snapshot satisfying it), hence holds after all
   operation lists from the initial store and of every reachable store *)
Theorem C04_epoch_inv_step : forall s o, epoch_inv s -> op_wf epoch_inv o -> epoch_inv (fst (step s o)).
Proof. exact epoch_inv_step. Qed.
Check C04_epoch_inv_step : forall s o, epoch_inv s -> op_wf epoch_inv o -> epoch_inv (fst (step s o)).
Print Assumptions C04_epoch_inv_step.

Theorem C04_epoch_inv_run : forall b ops, Forall (op_wf epoch_inv) ops -> epoch_inv (run (init_store b) ops).
Proof. exact epoch_inv_run. Qed.
Check C04_epoch_inv_run : forall b ops, Forall (op_wf epoch_inv) ops -> epoch_inv (run (init_store b) ops).
Print Assumptions C04_epoch_inv_run.

Theorem C04_epoch_inv_reachable : forall s, reachable s -> epoch_inv s.
Proof. exact epoch_inv_reachable. Qed.
Check C04_epoch_inv_reachable : forall s, reachable s -> epoch_inv s.
Print Assumptions C04_epoch_inv_reachable.

(* per step, every operation other than an accepted Restore, every address, every migration limit:
   the served epoch never decreases and strictly increases whenever anything else of the served view differs *)
Theorem C04_proxy_epoch : forall s o lim a v v',
  epoch_inv s -> ~ restore_ok s o ->
  view_proxy lim s a = Some (Some v) -> view_proxy lim (fst (step s o)) a = Some (Some v') ->
  vp_epoch v <= vp_epoch v' /\ (vp_content v' <> vp_content v -> vp_epoch v < vp_epoch v').
Proof. exact proxy_epoch_lemma. Qed.
Check C04_proxy_epoch : forall s o lim a v v',
  epoch_inv s -> ~ restore_ok s o ->
  view_proxy lim s a = Some (Some v) -> view_proxy lim (fst (step s o)) a = Some (Some v') ->
  vp_epoch v <= vp_epoch v' /\ (vp_content v' <> vp_content v -> vp_epoch v < vp_epoch v').
Print Assumptions C04_proxy_epoch.

(* the same between the two ends of any history without accepted Restore, whatever was served (or not served: address
   unknown, or a panicking view) at the stores in between *)
Theorem C04_proxy_epoch_history : forall s ops lim a v v',
  epoch_inv s -> ok_ops s ops ->
  view_proxy lim s a = Some (Some v) -> view_proxy lim (run s ops) a = Some (Some v') ->
  vp_epoch v <= vp_epoch v' /\ (vp_content v' <> vp_content v -> vp_epoch v < vp_epoch v').
Proof. exact history_views. Qed.
Check C04_proxy_epoch_history : forall s ops lim a v v',
  epoch_inv s -> ok_ops s ops ->
  view_proxy lim s a = Some (Some v) -> view_proxy lim (run s ops) a = Some (Some v') ->
  vp_epoch v <= vp_epoch v' /\ (vp_content v' <> vp_content v -> vp_epoch v < vp_epoch v').
Print Assumptions C04_proxy_epoch_history.

(* two served views of one address with equal epoch are equal (what the control-plane model consumes) *)
Theorem C04_same_epoch_same_content : forall s ops lim a v v',
  epoch_inv s -> restore_free ops ->
  view_proxy lim s a = Some (Some v) -> view_proxy lim (run s ops) a = Some (Some v') ->
  vp_epoch v = vp_epoch v' -> v = v'.
Proof. exact same_epoch_same_content_free. Qed.
Check C04_same_epoch_same_content : forall s ops lim a v v',
  epoch_inv s -> restore_free ops ->
  view_proxy lim s a = Some (Some v) -> view_proxy lim (run s ops) a = Some (Some v') ->
  vp_epoch v = vp_epoch v' -> v = v'.
Print Assumptions C04_same_epoch_same_content.

(* the same with rejected Restores allowed in the history *)
Theorem C04_same_epoch_same_content_ok : forall s ops lim a v v',
  epoch_inv s -> ok_ops s ops ->
  view_proxy lim s a = Some (Some v) -> view_proxy lim (run s ops) a = Some (Some v') ->
  vp_epoch v = vp_epoch v' -> v = v'.
Proof. exact same_epoch_same_content_lemma. Qed.
Check C04_same_epoch_same_content_ok : forall s ops lim a v v',
  epoch_inv s -> ok_ops s ops ->
  view_proxy lim s a = Some (Some v) -> view_proxy lim (run s ops) a = Some (Some v') ->
  vp_epoch v = vp_epoch v' -> v = v'.
Print Assumptions C04_same_epoch_same_content_ok.

(* two points of one history from the initial store: arbitrary prefix (Restore snapshots satisfying epoch_inv),
   Restore-free continuation *)
Theorem C04_same_epoch_same_content_history : forall b ops1 ops2 lim a v v',
  Forall (op_wf epoch_inv) ops1 -> restore_free ops2 ->
  view_proxy lim (run (init_store b) ops1) a = Some (Some v) ->
  view_proxy lim (run (init_store b) (ops1 ++ ops2)) a = Some (Some v') ->
  vp_epoch v = vp_epoch v' -> v = v'.
Proof. exact same_epoch_same_content_history. Qed.
Check C04_same_epoch_same_content_history : forall b ops1 ops2 lim a v v',
  Forall (op_wf epoch_inv) ops1 -> restore_free ops2 ->
  view_proxy lim (run (init_store b) ops1) a = Some (Some v) ->
  view_proxy lim (run (init_store b) (ops1 ++ ops2)) a = Some (Some v') ->
  vp_epoch v = vp_epoch v' -> v = v'.
Print Assumptions C04_same_epoch_same_content_history.

(* removal followed by re-registration: an address that was unknown at some store in between is served afterwards at a
   strictly larger epoch than anything served for it before *)
Theorem C04_reappear : forall s ops1 ops2 lim lim0 a v v',
  epoch_inv s -> ok_ops s ops1 -> ok_ops (run s ops1) ops2 ->
  view_proxy lim s a = Some (Some v) ->
  view_proxy lim0 (run s ops1) a = None ->
  view_proxy lim (run (run s ops1) ops2) a = Some (Some v') ->
  vp_epoch v < vp_epoch v'.
Proof. exact reappear_lemma. Qed.
Check C04_reappear : forall s ops1 ops2 lim lim0 a v v',
  epoch_inv s -> ok_ops s ops1 -> ok_ops (run s ops1) ops2 ->
  view_proxy lim s a = Some (Some v) ->
  view_proxy lim0 (run s ops1) a = None ->
  view_proxy lim (run (run s ops1) ops2) a = Some (Some v') ->
  vp_epoch v < vp_epoch v'.
Print Assumptions C04_reappear.

(* ---------- non-vacuity ---------- *)
(* six proxies on three hosts, cluster 1 on proxies 1 and 3, grown by the chunk (5, 2), migration started *)
Definition c04_ops : list op :=
  [OAddProxy 1 (Some 10) None; OAddProxy 2 (Some 10) None; OAddProxy 3 (Some 11) None; OAddProxy 4 (Some 11) None;
   OAddProxy 5 (Some 12) None; OAddProxy 6 (Some 12) None; OAddCluster 1 4 1 [(1, 3)]; OAutoAddNodes 1 4 [(5, 2)];
   OMigrateSlots 1].
Definition c04_store : store := run (init_store false) c04_ops.
Definition c04_epoch (o : option (option vproxy)) : option N :=
  match o with Some (Some v) => Some (vp_epoch v) | _ => None end.

Example C04_example_inv : epoch_inv c04_store /\ reachable c04_store.
Proof.
  split; [apply C04_epoch_inv_run|apply reachable_run; [constructor|]]; repeat constructor.
Qed.

(* a commit changes the content served to the cluster's proxies and raises their epoch 9 -> 10; the free proxies 4, 6 keep
   their content and follow the global epoch *)
Example C04_example_step :
  ~ restore_ok c04_store (OCommitNth 1 0 false)
  /\ snd (step c04_store (OCommitNth 1 0 false)) = ROk
  /\ map (fun a => c04_epoch (view_proxy 1 c04_store a)) [1; 2; 3; 4; 5; 6; 7]
     = [Some 9; Some 9; Some 9; Some 9; Some 9; Some 9; None]
  /\ map (fun a => c04_epoch (view_proxy 1 (fst (step c04_store (OCommitNth 1 0 false))) a)) [1; 2; 3; 4; 5; 6; 7]
     = [Some 10; Some 10; Some 10; Some 10; Some 10; Some 10; None]
  /\ option_map (option_map vp_content) (view_proxy 1 c04_store 5)
     <> option_map (option_map vp_content) (view_proxy 1 (fst (step c04_store (OCommitNth 1 0 false))) 5)
  /\ option_map (option_map vp_content) (view_proxy 1 c04_store 6)
     = option_map (option_map vp_content) (view_proxy 1 (fst (step c04_store (OCommitNth 1 0 false))) 6).
Proof.
  split; [intros [snap [H _]]; discriminate|].
  vm_compute. repeat split; try reflexivity. discriminate.
Qed.

(* removal and re-registration of proxy 6 with an unrelated report in between: served at 9 before, unknown in the
   middle, served at 12 afterwards *)
Example C04_example_reappear :
  c04_epoch (view_proxy 0 c04_store 6) = Some 9
  /\ view_proxy 0 (run c04_store [ORemoveProxy 6; OAddFailure 1 9 0%Z]) 6 = None
  /\ c04_epoch (view_proxy 0 (run (run c04_store [ORemoveProxy 6; OAddFailure 1 9 0%Z]) [OAddProxy 6 (Some 12) None]) 6) = Some 12.
Proof. vm_compute. repeat split; reflexivity. Qed.
