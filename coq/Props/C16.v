(* C16 No client input can crash, abort or wedge a proxy.  Statements only; proofs live in Proofs/CostProofs{A,B,C}.v.
   Model/Cost.v re-states the RESP parser with an explicit cost semantics (allocation in bytes, steps, recursion depth,
   CPanic outcomes for `Vec::with_capacity` above isize::MAX and for checked usize addition) and models the two argument
   handlers that iterate over attacker-chosen numbers.  It mirrors the working tree WITH work/fix_C15.diff and
   work/fix_C16_{1,2,3,4}.diff; on the unpatched tree all four statements about the parser are false (witnesses below). *)
From UM Require Import Base.BytesDef Base.Dec Base.RespT Model.Resp Model.Cost
  Proofs.RespProofsA Proofs.RespProofsB Proofs.RespProofsC Proofs.CostProofsA Proofs.CostProofsB Proofs.CostProofsC.

(* one decode call on any buffer below 2^58 bytes (32 * len must fit isize): no panic (capacity overflow, add with
   overflow, split_to), no UnexpectedErr, and the result is the one of the C15 model *)
Theorem C16_no_panic : forall b, small b ->
  fst (decode_cost b) <> CPanic /\ fst (decode_cost b) <> CFuel /\ fst (decode_cost b) <> CUnexpected /\
  fst (decode_cost b) = of_pres (parse_resp MAX_ARRAY_NESTING b).
Proof.
  intros b Hs. destruct (decode_cost_no_panic b Hs) as (H1 & H2 & H3). repeat split; auto.
  apply decode_cost_result. exact Hs.
Qed.
Check C16_no_panic : forall b, small b ->
  fst (decode_cost b) <> CPanic /\ fst (decode_cost b) <> CFuel /\ fst (decode_cost b) <> CUnexpected /\
  fst (decode_cost b) = of_pres (parse_resp MAX_ARRAY_NESTING b).
Print Assumptions C16_no_panic.

(* bytes requested from the allocator by one decode call: linear in the buffer (K1 = 32 * 129, K0 = 40); an accepted
   packet costs at most 32 bytes per consumed byte *)
Theorem C16_alloc_linear : forall b,
  c_alloc (snd (decode_cost b)) <= 4128 * len b + 40 /\
  (forall v n, fst (decode_cost b) = COk v n -> c_alloc (snd (decode_cost b)) <= 32 * N.of_nat n + 8).
Proof. intros b. destruct (decode_cost_bounds b) as (H1 & _ & _ & H4). split; [exact H1|]. intros v n H. apply (H4 v n H). Qed.
Check C16_alloc_linear : forall b,
  c_alloc (snd (decode_cost b)) <= 4128 * len b + 40 /\
  (forall v n, fst (decode_cost b) = COk v n -> c_alloc (snd (decode_cost b)) <= 32 * N.of_nat n + 8).
Print Assumptions C16_alloc_linear.

Theorem C16_steps_linear : forall b, c_steps (snd (decode_cost b)) <= 392 * len b + 393.
Proof. intros b. destruct (decode_cost_bounds b) as (_ & H2 & _). exact H2. Qed.
Check C16_steps_linear : forall b, c_steps (snd (decode_cost b)) <= 392 * len b + 393.
Print Assumptions C16_steps_linear.

Theorem C16_depth_bounded : forall b, c_depth (snd (decode_cost b)) <= 129.
Proof. intros b. destruct (decode_cost_bounds b) as (_ & _ & H3 & _). exact H3. Qed.
Check C16_depth_bounded : forall b, c_depth (snd (decode_cost b)) <= 129.
Print Assumptions C16_depth_bounded.

(* EVAL key collection: whatever `numkeys` says, no panic and at most one iteration per command element *)
Theorem C16_eval_bounded : forall args, N.of_nat (length args) < 9223372036854775808 ->
  fst (eval_keys_c args) <> EvPanic /\
  (forall numkeys, nth_error args 2 = Some (Some numkeys) ->
     c_steps (snd (eval_keys_c args)) <= N.of_nat (length numkeys) + 1 + N.of_nat (length args)) /\
  (forall ks, fst (eval_keys_c args) = EvKeys ks -> (length ks <= length args)%nat).
Proof. exact eval_keys_bounded. Qed.
Check C16_eval_bounded : forall args, N.of_nat (length args) < 9223372036854775808 ->
  fst (eval_keys_c args) <> EvPanic /\
  (forall numkeys, nth_error args 2 = Some (Some numkeys) ->
     c_steps (snd (eval_keys_c args)) <= N.of_nat (length numkeys) + 1 + N.of_nat (length args)) /\
  (forall ks, fst (eval_keys_c args) = EvKeys ks -> (length ks <= length args)%nat).
Print Assumptions C16_eval_bounded.

(* RangeMap::from: whatever the range ends say, at most SLOT_NUM iterations per range and a map of at most SLOT_NUM entries *)
Theorem C16_range_map_bounded : forall ranges,
  c_steps (snd (range_map_c ranges)) <= (SLOT_NUM + 1) * N.of_nat (length ranges) /\
  c_alloc (snd (range_map_c ranges)) <= SLOT_NUM.
Proof. exact range_map_bounded. Qed.
Check C16_range_map_bounded : forall ranges,
  c_steps (snd (range_map_c ranges)) <= (SLOT_NUM + 1) * N.of_nat (length ranges) /\
  c_alloc (snd (range_map_c ranges)) <= SLOT_NUM.
Print Assumptions C16_range_map_bounded.

(* ---------- non-vacuity and the refutation witnesses of the unpatched tree ---------- *)

(* "*1000000000000\r\n" (aborted the process: with_capacity(10^12)) and "*9223372036854775807\r\n" (panicked:
   capacity overflow) now reserve min(declared, remaining bytes) elements and answer NotEnoughData *)
Example C16_hostile_lengths :
  let b1 := [42; 49; 48; 48; 48; 48; 48; 48; 48; 48; 48; 48; 48; 48; 13; 10] in
  let b2 := [42; 57; 50; 50; 51; 51; 55; 50; 48; 51; 54; 56; 53; 52; 55; 55; 53; 56; 48; 55; 13; 10] in
  decode_cost b1 = (CNeed, mkCost (15 * 32) 32 2) /\ fst (decode_cost b2) = CNeed /\
  c_alloc (snd (decode_cost b2)) = 21 * 32.
Proof. vm_compute. repeat split. Qed.

(* numkeys = 10^18 (looped 10^18 times) and numkeys = 2^64-1 (3 + key_num overflowed) on "EVAL s <numkeys> k" *)
Example C16_eval_witnesses :
  let big := [49; 48; 48; 48; 48; 48; 48; 48; 48; 48; 48; 48; 48; 48; 48; 48; 48; 48; 48] in
  let maxu := [49; 56; 52; 52; 54; 55; 52; 52; 48; 55; 51; 55; 48; 57; 53; 53; 49; 54; 49; 53] in
  let cmd n := [Some [69; 86; 65; 76]; Some [115]; Some n; Some [107]] in
  fst (eval_keys_c (cmd big)) = EvKeys [[107]] /\ c_steps (snd (eval_keys_c (cmd big))) = 24 /\
  fst (eval_keys_c (cmd maxu)) = EvKeys [[107]].
Proof. vm_compute. repeat split. Qed.

(* a Migrating range 0-9223372036854775807 (looped 2^63 times): no map, 16384 clamped iterations *)
Example C16_range_witness :
  range_map_c [(0, 9223372036854775807)] = ((0, 0), mkCost 0 16385 0).
Proof. vm_compute. reflexivity. Qed.

Example C16_small_example : small [42; 49; 13; 10; 43; 97; 13; 10] /\
  fst (decode_cost [42; 49; 13; 10; 43; 97; 13; 10]) = COk (IArr [ISimple (5, 6)%nat]) 8.
Proof. vm_compute. split; reflexivity. Qed.
