(* C14 CLUSTER NODES and CLUSTER SLOTS advertise each slot once and agree with routing.  Statements only. *)
From UM Require Import Base.BytesDef Base.Dec Base.RespT Model.Slot Model.Topo Proofs.SlotProofs Proofs.SlotProofsRoute Proofs.TopoProofs.
From UM Require Props.C09.
Import Props.C09.

(* in every metadata whose view is well formed and in EVERY migration state map, every covered slot is advertised under exactly one address *)
Theorem C14_unique : forall self m st v s, wf_view (claims self m) ->
  (exists c, In c (claims self m) /\ in_ranges (sr_ranges (snd c)) s) ->
  exists a, adv_nodes (gen_cluster_nodes self m st v) a s /\
            forall a', adv_nodes (gen_cluster_nodes self m st v) a' s -> a' = a.
Proof. exact unique_adv. Qed.
Check C14_unique : forall self m st v s, wf_view (claims self m) ->
  (exists c, In c (claims self m) /\ in_ranges (sr_ranges (snd c)) s) ->
  exists a, adv_nodes (gen_cluster_nodes self m st v) a s /\
            forall a', adv_nodes (gen_cluster_nodes self m st v) a' s -> a' = a.
Print Assumptions C14_unique.

(* CLUSTER NODES (either format version) and CLUSTER SLOTS advertise the same (address, slot) relation, for arbitrary metadata and states *)
Theorem C14_agree : forall self m st es v a s, gen_cluster_slots self m st = Some es ->
  (adv_nodes (gen_cluster_nodes self m st v) a s <-> adv_slots es a s).
Proof. exact nodes_slots_agree. Qed.
Check C14_agree : forall self m st es v a s, gen_cluster_slots self m st = Some es ->
  (adv_nodes (gen_cluster_nodes self m st v) a s <-> adv_slots es a s).
Print Assumptions C14_agree.

(* the two NODES versions differ only in the @5299 suffix of the address field *)
Theorem C14_version_field : forall self m st v l, In l (gen_cluster_nodes self m st v) ->
  nl_field l = match v with V1 => nl_addr l | V2 => nl_addr l ++ cport_suffix end.
Proof. exact version_field. Qed.
Check C14_version_field : forall self m st v l, In l (gen_cluster_nodes self m st v) ->
  nl_field l = match v with V1 => nl_addr l | V2 => nl_addr l ++ cport_suffix end.
Print Assumptions C14_version_field.

(* a slot not under migration is advertised exactly at the node that serves it: the proxy itself iff Slot.route executes locally, otherwise the MOVED (forward) target *)
Theorem C14_matches_routing : forall self m st v cf redir a sr s,
  wf_view (claims self m) -> In (a, sr) (claims self m) -> sr_tag sr = TNone ->
  in_ranges (sr_ranges sr) s -> s < SLOT_NUM ->
  let d := route cf (install cf (routing_meta m)) redir (Some s) in
  (forall a', adv_nodes (gen_cluster_nodes self m st v) a' s <-> a' = a) /\
  (In sr (flat_map snd (t_local m)) -> exists n, d = DLocal n /\ In n (map fst (t_local m))) /\
  (~ In sr (flat_map snd (t_local m)) ->
     (c_ar cf = false -> d = DMoved s a) /\
     (c_ar cf = true -> d = DTooMany \/ exists w, d = DForward s a w)).
Proof. exact stable_routing. Qed.
Check C14_matches_routing : forall self m st v cf redir a sr s,
  wf_view (claims self m) -> In (a, sr) (claims self m) -> sr_tag sr = TNone ->
  in_ranges (sr_ranges sr) s -> s < SLOT_NUM ->
  let d := route cf (install cf (routing_meta m)) redir (Some s) in
  (forall a', adv_nodes (gen_cluster_nodes self m st v) a' s <-> a' = a) /\
  (In sr (flat_map snd (t_local m)) -> exists n, d = DLocal n /\ In n (map fst (t_local m))) /\
  (~ In sr (flat_map snd (t_local m)) ->
     (c_ar cf = false -> d = DMoved s a) /\
     (c_ar cf = true -> d = DTooMany \/ exists w, d = DForward s a w)).
Print Assumptions C14_matches_routing.

(* a migrating slot is advertised at its source while the proxy's task for it is in PreCheck, at its destination in every later phase, and at the destination on a proxy that has no task for it (bystander) *)
Theorem C14_migrating : forall self m st v a1 sr1 a2 sr2 s, wf_view (claims self m) ->
  In (a1, sr1) (claims self m) -> sr_tag sr1 = TMigrating ->
  In (a2, sr2) (claims self m) -> sr_tag sr2 = TImporting ->
  sr_ranges sr1 = sr_ranges sr2 -> in_ranges (sr_ranges sr1) s ->
  (lookup st (sr_ranges sr1) = Some PreCheck -> forall a, adv_nodes (gen_cluster_nodes self m st v) a s <-> a = a1) /\
  (lookup st (sr_ranges sr1) <> Some PreCheck -> forall a, adv_nodes (gen_cluster_nodes self m st v) a s <-> a = a2) /\
  (lookup st (sr_ranges sr1) = None -> forall a, adv_nodes (gen_cluster_nodes self m st v) a s <-> a = a2).
Proof. exact migrating_cases. Qed.
Check C14_migrating : forall self m st v a1 sr1 a2 sr2 s, wf_view (claims self m) ->
  In (a1, sr1) (claims self m) -> sr_tag sr1 = TMigrating ->
  In (a2, sr2) (claims self m) -> sr_tag sr2 = TImporting ->
  sr_ranges sr1 = sr_ranges sr2 -> in_ranges (sr_ranges sr1) s ->
  (lookup st (sr_ranges sr1) = Some PreCheck -> forall a, adv_nodes (gen_cluster_nodes self m st v) a s <-> a = a1) /\
  (lookup st (sr_ranges sr1) <> Some PreCheck -> forall a, adv_nodes (gen_cluster_nodes self m st v) a s <-> a = a2) /\
  (lookup st (sr_ranges sr1) = None -> forall a, adv_nodes (gen_cluster_nodes self m st v) a s <-> a = a2).
Print Assumptions C14_migrating.

(* get_states: a task's range list reads back the state that task inserted (last insert wins) *)
Theorem C14_states : forall st rl v, lookup (upsert st rl v) rl = Some v.
Proof. exact lookup_upsert_same. Qed.
Check C14_states : forall st rl v, lookup (upsert st rl v) rl = Some v.
Print Assumptions C14_states.

(* ---------- non-vacuity ---------- *)
Definition mk (a b : N) (t : tag) : tagged_range := {| sr_ranges := [(a, b)]; sr_tag := t |}.
Definition ex_self : addr := [83].
(* this proxy (a source): 0-99 stable, 100-199 migrating to peer P; P imports 100-199 and owns 200-16383 *)
Definition ex_tmeta : tmeta :=
  {| t_epoch := 7; t_local := [([65; 58; 49], [mk 0 99 TNone; mk 100 199 TMigrating])];
     t_peer := [([80; 58; 50], [mk 100 199 TImporting; mk 200 16383 TNone])] |}.

Example C14_wf_example : wf_view (claims ex_self ex_tmeta).
Proof.
  unfold wf_view. split; [|split].
  - repeat constructor; cbn; intuition discriminate.
  - intros c1 c2 s H1 H2 Hne (r1 & Hr1 & Hb1) (r2 & Hr2 & Hb2).
    cbn in H1, H2.
    destruct H1 as [<-|[<-|[<-|[<-|[]]]]]; destruct H2 as [<-|[<-|[<-|[<-|[]]]]];
      try congruence; cbn in Hr1, Hr2;
      destruct Hr1 as [<-|[]]; destruct Hr2 as [<-|[]]; cbn [fst snd] in *;
      try (exfalso; lia);
      (split; [reflexivity|]); cbv [complementary mk sr_tag snd]; intuition congruence.
  - intros c1 H1 Ht. cbn in H1.
    destruct H1 as [<-|[<-|[<-|[<-|[]]]]]; cbn in Ht; try congruence.
    + exists ([80; 58; 50], mk 100 199 TImporting). split; [cbn; auto|]. split; [reflexivity|]. left. split; reflexivity.
    + exists (ex_self, mk 100 199 TMigrating). split; [cbn; auto|]. split; [reflexivity|]. right. split; reflexivity.
Qed.
(* while the task is in PreCheck slot 150 is advertised at this proxy, afterwards and without a task at P *)
Example C14_migrating_example :
  map nl_ranges (gen_cluster_nodes ex_self ex_tmeta [([(100, 199)], PreCheck)] V2) = [[(0, 99); (100, 199)]; [(200, 16383)]] /\
  map nl_ranges (gen_cluster_nodes ex_self ex_tmeta [([(100, 199)], Scanning)] V2) = [[(0, 99)]; [(100, 199); (200, 16383)]] /\
  map nl_ranges (gen_cluster_nodes ex_self ex_tmeta [] V1) = [[(0, 99)]; [(100, 199); (200, 16383)]].
Proof. vm_compute. repeat split. Qed.
Example C14_agree_example :
  exists es, gen_cluster_slots [49; 58; 50] ex_tmeta [([(100, 199)], PreCheck)] = Some es /\ length es = 3%nat.
Proof. eexists. split; [vm_compute; reflexivity|reflexivity]. Qed.
Example C14_routing_example :
  route ex_cfg (install ex_cfg (routing_meta ex_tmeta)) None (Some 50) = DLocal [65; 58; 49] /\
  route ex_cfg (install ex_cfg (routing_meta ex_tmeta)) None (Some 5000) = DMoved 5000 [80; 58; 50].
Proof. vm_compute. split; reflexivity. Qed.

(* ---------- the same over broker histories (Proofs/TopoProofsBroker*.v) ----------
   The Broker / Ranges / Route models define range, in_range, install, in_ranges, ... as well, so the composed statements are named
   propositions of Proofs/TopoProofsBroker.v (unfold them there).  Ingredients:
     meta_of_vproxy render v   what a proxy installs from the broker's per-proxy view v (coordinator/sync.rs: filter_proxy_masters,
                               node_map / peer_node_map HashMaps = the route group's `install`, ProxyClusterMeta::new), as Topo.tmeta;
                               `render` turns the broker model's numeric proxy / node identifiers into address strings
     view_claims render a v    = claims (render a) (meta_of_vproxy render v)
     reachable_any s           s is the result of ANY broker operation sequence (Proofs/BrokerTotal.v)
   view_core_broker_stmt   forall render s lim a v, reachable_any s -> view_proxy lim s a = Some (Some v) ->
                           wf_view_core (view_claims render a v) /\ (wf_view (view_claims render a v) <-> NoDup (view_claims render a v))
                           wf_view_core = wf_view without its NoDup conjunct (Proofs/TopoProofsBrokerCore.v); the C14 conclusions are
                           re-derived there from wf_view_core alone.  NoDup is NOT derivable: proxy_partition_ok + served_view_wf
                           exclude every duplicate claim whose range list covers a slot, but a drained master keeps an EMPTY stable
                           slot range after a scale-down, and two such masters on one proxy give the claim (proxy, [], None) twice.
   unique_broker_stmt      C14_unique with hypotheses reachable_any s + the view equation only: every claimed slot, in particular
                           every slot < 16384 of a proxy in a cluster, is advertised under exactly one address, for every state map
                           and both NODES versions
   migrating_broker_stmt   C14_migrating likewise: a MIGRATING entry (rl, m) visible in the view sits under vm_src_proxy m, its
                           IMPORTING twin under vm_dst_proxy m, and every slot of rl is advertised at render (vm_src_proxy m) iff the
                           proxy's state for rl is PreCheck, else (later phase / no task) at render (vm_dst_proxy m)
   broker_example_stmt     a concrete reachable store with a migration in flight and the advertised lines of its source proxy *)
From UM Require Proofs.TopoProofsBroker.

Theorem C14_view_core_broker : TopoProofsBroker.view_core_broker_stmt.
Proof. exact TopoProofsBroker.view_core_broker_holds. Qed.
Check C14_view_core_broker : TopoProofsBroker.view_core_broker_stmt.
Print Assumptions C14_view_core_broker.

Theorem C14_unique_broker : TopoProofsBroker.unique_broker_stmt.
Proof. exact TopoProofsBroker.unique_broker_holds. Qed.
Check C14_unique_broker : TopoProofsBroker.unique_broker_stmt.
Print Assumptions C14_unique_broker.

Theorem C14_migrating_broker : TopoProofsBroker.migrating_broker_stmt.
Proof. exact TopoProofsBroker.migrating_broker_holds. Qed.
Check C14_migrating_broker : TopoProofsBroker.migrating_broker_stmt.
Print Assumptions C14_migrating_broker.

Example C14_broker_example : TopoProofsBroker.broker_example_stmt.
Proof. exact TopoProofsBroker.broker_example_holds. Qed.
