(* C11 The pre-switch barrier stops source-side execution and loses nothing.
   Statements only; proofs live in Proofs/BarrierProofsAbs.v (counter abstraction, invariant) and
   Proofs/BarrierProofs.v (simulation, transfer to the per-thread model that is extracted and run).
   `exec st0 sched` is the run of the per-thread model Model/Barrier.v on a schedule (a list of thread ids);
   every interleaving of any number of senders (any hint, any answer of the inner sender), blockers (any number
   of polls), stop_blocking callers and in-flight commands is such a run. *)
From UM Require Import Base.BytesDef Model.Barrier Proofs.BarrierProofsAbs Proofs.BarrierProofs.
From Coq Require Import Permutation.

(* once a blocker has seen blocking_done() = true (running = 0 while it holds a handle), no command is handed to
   the inner sender for as long as the blocking count stays > 0: a run that contains such an observation and a
   later hand-off has a state with count = 0 in between *)
Theorem C11_barrier : forall st0 sched pre b stb mid h task ir sth post,
  initial st0 ->
  exec st0 sched = pre ++ (b, EvDoneLoad true, stb) :: mid ++ (h, EvHandoff task ir, sth) :: post ->
  (forall x, In x ((b, EvDoneLoad true, stb) :: mid) -> (0 < sh_count (st_sh (snd x)))%N) ->
  False.
Proof. exact barrier_holds. Qed.
Check C11_barrier : forall st0 sched pre b stb mid h task ir sth post,
  initial st0 ->
  exec st0 sched = pre ++ (b, EvDoneLoad true, stb) :: mid ++ (h, EvHandoff task ir, sth) :: post ->
  (forall x, In x ((b, EvDoneLoad true, stb) :: mid) -> (0 < sh_count (st_sh (snd x)))%N) ->
  False.
Print Assumptions C11_barrier.

(* when a blocker sees blocking_done() = true, no sender is between its counter increment and the matching
   decrement and no command is in flight: source-side execution has stopped *)
Theorem C11_done_means_idle : forall st0 sched tid, initial st0 ->
  let st := final st0 sched in
  snd (step st tid) = EvDoneLoad true ->
  forall i p, nth_opt (st_threads st) i = Some p -> holds_ref p = false.
Proof. exact done_means_idle_run. Qed.
Check C11_done_means_idle : forall st0 sched tid, initial st0 ->
  let st := final st0 sched in
  snd (step st tid) = EvDoneLoad true ->
  forall i p, nth_opt (st_threads st) i = Some p -> holds_ref p = false.
Print Assumptions C11_done_means_idle.

(* every task is re-dispatched at most once and only if it was enqueued; when every thread has finished and the
   blocking count is 0 the queue is empty and the re-dispatched tasks are exactly the enqueued ones *)
Theorem C11_exactly_once : forall st0 sched, initial st0 ->
  let st := final st0 sched in
  NoDup (sh_redisp (st_sh st)) /\
  (forall t, In t (sh_redisp (st_sh st)) -> In t (sh_enq (st_sh st))) /\
  (quiescent st = true -> sh_count (st_sh st) = 0%N ->
   sh_queue (st_sh st) = [] /\ Permutation (sh_enq (st_sh st)) (sh_redisp (st_sh st))).
Proof. exact exactly_once_run. Qed.
Check C11_exactly_once : forall st0 sched, initial st0 ->
  let st := final st0 sched in
  NoDup (sh_redisp (st_sh st)) /\
  (forall t, In t (sh_redisp (st_sh st)) -> In t (sh_enq (st_sh st))) /\
  (quiescent st = true -> sh_count (st_sh st) = 0%N ->
   sh_queue (st_sh st) = [] /\ Permutation (sh_enq (st_sh st)) (sh_redisp (st_sh st))).
Print Assumptions C11_exactly_once.

(* no lost wake-up: whenever tasks are queued while nobody blocks, some thread is at a point from which it runs
   the release loop (after its enqueue and before its second state load, or inside release_all) *)
Theorem C11_no_stuck_queue : forall st0 sched, initial st0 ->
  let st := final st0 sched in
  sh_queue (st_sh st) <> [] -> sh_count (st_sh st) = 0%N ->
  exists tid p, nth_opt (st_threads st) tid = Some p /\ will_release p = true.
Proof. exact no_stuck_queue_run. Qed.
Check C11_no_stuck_queue : forall st0 sched, initial st0 ->
  let st := final st0 sched in
  sh_queue (st_sh st) <> [] -> sh_count (st_sh st) = 0%N ->
  exists tid p, nth_opt (st_threads st) tid = Some p /\ will_release p = true.
Print Assumptions C11_no_stuck_queue.

(* the panics and the error branch of the code: `blocking_count - 1` never underflows, the enqueue never fails,
   and `blocking_count + 1` / `term + 1` overflow only when the loaded value is u32::MAX *)
Theorem C11_no_underflow : forall st0 sched tid, initial st0 ->
  let ev := snd (step (final st0 sched) tid) in
  ev <> EvPanic PSubOverflow /\ ev <> EvEnqueueFailed /\
  (ev = EvPanic PAddOverflow ->
   sh_count (st_sh (final st0 sched)) = U32_MAX \/ sh_term (st_sh (final st0 sched)) = U32_MAX).
Proof. exact no_underflow_run. Qed.
Check C11_no_underflow : forall st0 sched tid, initial st0 ->
  let ev := snd (step (final st0 sched) tid) in
  ev <> EvPanic PSubOverflow /\ ev <> EvEnqueueFailed /\
  (ev = EvPanic PAddOverflow ->
   sh_count (st_sh (final st0 sched)) = U32_MAX \/ sh_term (st_sh (final st0 sched)) = U32_MAX).
Print Assumptions C11_no_underflow.

(* the invariant of the counter abstraction holds in every state of every run of the per-thread model *)
Theorem C11_counting_invariant : forall st0 sched, initial st0 -> AInv (abs (final st0 sched)).
Proof. exact counting_invariant_run. Qed.
Check C11_counting_invariant : forall st0 sched, initial st0 -> AInv (abs (final st0 sched)).
Print Assumptions C11_counting_invariant.

(* ---- non-vacuity ---- *)
Definition ex_threads : list pc := [S_ref_inc HNotBlocking IOk; B_start_load 1].
Lemma ex_initial : initial (init_state 0 ex_threads).
Proof. exists 0%N, ex_threads. split; reflexivity. Qed.

(* a run with a done-observation followed by a sender that arrives while blocking: it is queued, not handed off,
   and re-dispatched exactly once by the blocker's drop; the final state is quiescent with count 0 *)
Example C11_example_blocked :
  map (fun x => snd (fst x)) (exec (init_state 0 ex_threads) [1; 1; 1; 0; 0; 0; 0; 0; 1; 1; 1; 1; 1]%nat)
  = [EvCasLoad 0 0; EvCasOk 0 0; EvDoneLoad true; EvRefInc; EvStateLoad 1 1; EvRefDec; EvEnqueue 0; EvStateLoad 1 1;
     EvCasLoad 1 1; EvCasOk 1 1; EvRecv 0; EvRedispatch 0; EvRecvEmpty]
  /\ let st := final (init_state 0 ex_threads) [1; 1; 1; 0; 0; 0; 0; 0; 1; 1; 1; 1; 1]%nat in
     quiescent st = true /\ sh_count (st_sh st) = 0%N /\ sh_enq (st_sh st) = [0%nat] /\ sh_redisp (st_sh st) = [0%nat].
Proof. vm_compute. repeat split. Qed.

(* the hypotheses of C11_barrier are satisfiable up to the last one: a done-observation, then the blocking is
   lifted (count returns to 0), then a hand-off *)
Example C11_example_handoff_after_lift :
  map (fun x => (snd (fst x), sh_count (st_sh (snd x)))) (exec (init_state 0 ex_threads) [1; 1; 1; 1; 1; 1; 0; 0; 0; 0]%nat)
  = [(EvCasLoad 0 0, 0%N); (EvCasOk 0 0, 1%N); (EvDoneLoad true, 1%N); (EvCasLoad 1 1, 1%N); (EvCasOk 1 1, 0%N);
     (EvRecvEmpty, 0%N); (EvRefInc, 0%N); (EvStateLoad 0 2, 0%N); (EvTaskInc, 0%N); (EvHandoff 0 IOk, 0%N)].
Proof. vm_compute. reflexivity. Qed.

(* the hypotheses of C11_no_stuck_queue are satisfiable: the sender loaded "blocking", the blocker then dropped
   its handle and emptied the (still empty) queue, the sender then enqueued: queue = [0], count = 0, and the
   sender stands before its second state load *)
Example C11_example_late_enqueue :
  let st := final (init_state 0 [S_ref_inc HNotBlocking IOk; B_start_load 0]) [1; 1; 0; 0; 1; 1; 1; 0; 0]%nat in
  sh_queue (st_sh st) = [0%nat] /\ sh_count (st_sh st) = 0%N /\ nth_opt (st_threads st) 0 = Some S_load2.
Proof. vm_compute. repeat split. Qed.
