(* C09 Key-to-slot routing at a proxy is exact.  Statements only; proofs live in Proofs/SlotProofs.v, SlotProofsRoute.v *)
From UM Require Import Base.BytesDef Base.Dec Base.RespT Model.Slot Proofs.SlotProofs Proofs.SlotProofsRoute.
From Coq Require Import Permutation.

(* the tag is the content between the first '{' and the first '}' after it when non-empty, else the whole key (tag_spec: Proofs/SlotProofs.v) *)
Theorem C09_hash_tag_spec : forall k t, hash_tag k = t <-> tag_spec k t.
Proof. exact hash_tag_spec. Qed.
Check C09_hash_tag_spec : forall k t, hash_tag k = t <-> tag_spec k t.
Print Assumptions C09_hash_tag_spec.

(* the expect() in get_hash_tag is unreachable *)
Theorem C09_hash_tag_no_panic : forall k, get_hash_tag k = TagOk (hash_tag k).
Proof. exact hash_tag_no_panic. Qed.
Check C09_hash_tag_no_panic : forall k, get_hash_tag k = TagOk (hash_tag k).
Print Assumptions C09_hash_tag_no_panic.

(* slots are below SLOT_NUM *)
Theorem C09_slot_range : forall k, slot k < 16384.
Proof. exact slot_range. Qed.
Check C09_slot_range : forall k, slot k < 16384.
Print Assumptions C09_slot_range.

(* slot = CRC16/XMODEM of the hash tag modulo 16384 *)
Theorem C09_slot_def : forall k, slot k = crc16 (hash_tag k) mod 16384.
Proof. exact slot_def. Qed.
Check C09_slot_def : forall k, slot k = crc16 (hash_tag k) mod 16384.
Print Assumptions C09_slot_def.

(* the bitwise CRC stays a 16-bit value *)
Theorem C09_crc16_range : forall l, crc16 l < 65536.
Proof. exact crc16_range. Qed.
Check C09_crc16_range : forall l, crc16 l < 65536.
Print Assumptions C09_crc16_range.

(* for EVERY slot number and every iteration order of the map, the 16384-entry table answers the last entry whose (clipped, start<=end) ranges cover the slot; nothing beyond slot 16383 *)
Theorem C09_table : forall m s, slot_map_get (slot_map_new m) s = last_owner m s.
Proof. exact table_correct. Qed.
Check C09_table : forall m s, slot_map_get (slot_map_new m) s = last_owner m s.
Print Assumptions C09_table.

(* the same for the whole table as a list (what the exhaustive comparison prints) *)
Theorem C09_table_dump : forall m s, s < SLOT_NUM -> nth_error (slot_map_dump (slot_map_new m)) (N.to_nat s) = Some (last_owner m s).
Proof. exact dump_correct. Qed.
Check C09_table_dump : forall m s, s < SLOT_NUM -> nth_error (slot_map_dump (slot_map_new m)) (N.to_nat s) = Some (last_owner m s).
Print Assumptions C09_table_dump.

(* for pairwise disjoint nodes the table lookup IS the declarative covers relation *)
Theorem C09_table_wf : forall m s a, wf_map m -> (slot_map_get (slot_map_new m) s = Some a <-> covers (ranges_of m a) s).
Proof. exact table_wf. Qed.
Check C09_table_wf : forall m s a, wf_map m -> (slot_map_get (slot_map_new m) s = Some a <-> covers (ranges_of m a) s).
Print Assumptions C09_table_wf.

(* ... and does not depend on the HashMap iteration order *)
Theorem C09_table_order : forall m m' s, Permutation m m' -> wf_map m -> slot_map_get (slot_map_new m) s = slot_map_get (slot_map_new m') s.
Proof. exact table_order. Qed.
Check C09_table_order : forall m m' s, Permutation m m' -> wf_map m -> slot_map_get (slot_map_new m) s = slot_map_get (slot_map_new m') s.
Print Assumptions C09_table_order.

(* for overlapping nodes the answer is a member of the set of covering nodes, and None iff that set is empty *)
Theorem C09_table_overlap : forall m s, (forall a, slot_map_get (slot_map_new m) s = Some a -> In a (owners m s)) /\ (slot_map_get (slot_map_new m) s = None <-> owners m s = []).
Proof. exact table_overlap. Qed.
Check C09_table_overlap : forall m s, (forall a, slot_map_get (slot_map_new m) s = Some a -> In a (owners m s)) /\ (slot_map_get (slot_map_new m) s = None <-> owners m s = []).
Print Assumptions C09_table_overlap.

(* the routing decision of a proxy with installed metadata for a command whose key hashes to slot s *)
Theorem C09_decision : forall cf m redir s, m_noname m = false ->
  let d := route cf (install cf m) redir (Some s) in
  (forall n, d = DLocal n -> covers (ranges_of (m_local m) n) s) /\
  (wf_map (m_local m) -> forall n, covers (ranges_of (m_local m) n) s -> d = DLocal n) /\
  (local_covers m s -> exists n, d = DLocal n) /\
  (forall s' a, d = DMoved s' a ->
     s' = s /\ covers (ranges_of (m_peer m) a) s /\ ~ local_covers m s /\ c_ar cf = false) /\
  (forall s' a w, d = DForward s' a w ->
     s' = s /\ covers (ranges_of (m_peer m) a) s /\ ~ local_covers m s /\ c_ar cf = true /\
     w = option_map (fun t => t - 1) (redir_times cf redir)) /\
  (d = DTooMany -> c_ar cf = true /\ ~ local_covers m s /\ peer_covers m s /\ redir_times cf redir = Some 0) /\
  (~ local_covers m s -> peer_covers m s ->
     (c_ar cf = false -> exists a, d = DMoved s a) /\
     (c_ar cf = true -> (exists a w, d = DForward s a w) \/ d = DTooMany)) /\
  (forall s', d = DNotCovered s' <-> s' = s /\ ~ local_covers m s /\ ~ peer_covers m s) /\
  d <> DDropped /\ d <> DMissingKey /\ d <> DNoCluster.
Proof. exact decision_spec. Qed.
Check C09_decision : forall cf m redir s, m_noname m = false ->
  let d := route cf (install cf m) redir (Some s) in
  (forall n, d = DLocal n -> covers (ranges_of (m_local m) n) s) /\
  (wf_map (m_local m) -> forall n, covers (ranges_of (m_local m) n) s -> d = DLocal n) /\
  (local_covers m s -> exists n, d = DLocal n) /\
  (forall s' a, d = DMoved s' a ->
     s' = s /\ covers (ranges_of (m_peer m) a) s /\ ~ local_covers m s /\ c_ar cf = false) /\
  (forall s' a w, d = DForward s' a w ->
     s' = s /\ covers (ranges_of (m_peer m) a) s /\ ~ local_covers m s /\ c_ar cf = true /\
     w = option_map (fun t => t - 1) (redir_times cf redir)) /\
  (d = DTooMany -> c_ar cf = true /\ ~ local_covers m s /\ peer_covers m s /\ redir_times cf redir = Some 0) /\
  (~ local_covers m s -> peer_covers m s ->
     (c_ar cf = false -> exists a, d = DMoved s a) /\
     (c_ar cf = true -> (exists a w, d = DForward s a w) \/ d = DTooMany)) /\
  (forall s', d = DNotCovered s' <-> s' = s /\ ~ local_covers m s /\ ~ peer_covers m s) /\
  d <> DDropped /\ d <> DMissingKey /\ d <> DNoCluster.
Print Assumptions C09_decision.

(* a proxy without a cluster answers ERR_CLUSTER_NOT_FOUND or MOVED to the configured default address *)
Theorem C09_no_cluster : forall cf m redir so, m_noname m = true -> route cf (install cf m) redir so = no_cluster cf so.
Proof. exact route_noname. Qed.
Check C09_no_cluster : forall cf m redir so, m_noname m = true -> route cf (install cf m) redir so = no_cluster cf so.
Print Assumptions C09_no_cluster.

(* MGET/MSET/MSETNX/multi-DEL/multi-EXISTS with active redirection off, and multi-key EVAL always, are refused and send nothing when the guarded keys are not all in one slot *)
Theorem C09_multi_refused : forall bk cf ins redir c always ks,
  multi_guard c = Some (always, ks) -> (c_ar cf = false \/ always = true) -> same_slot ks = false ->
  handle_data bk cf ins redir c = Out (Error e_not_same_slot) [].
Proof. exact multi_refused. Qed.
Check C09_multi_refused : forall bk cf ins redir c always ks,
  multi_guard c = Some (always, ks) -> (c_ar cf = false \/ always = true) -> same_slot ks = false ->
  handle_data bk cf ins redir c = Out (Error e_not_same_slot) [].
Print Assumptions C09_multi_refused.

(* ... which means: no key at all, or two keys hashing to different slots *)
Theorem C09_same_slot : forall ks, same_slot ks = false <-> ks = [] \/ exists k1 k2, In k1 ks /\ In k2 ks /\ slot k1 <> slot k2.
Proof. exact same_slot_false. Qed.
Check C09_same_slot : forall ks, same_slot ks = false <-> ks = [] \/ exists k1 k2, In k1 ks /\ In k2 ks /\ slot k1 <> slot k2.
Print Assumptions C09_same_slot.

(* whatever a data command causes to be sent anywhere is the command itself routed by its own key, or a sub command whose keys are keys of the command, all in one slot, routed by that slot: nothing is executed on a node the decision theorem does not name *)
Theorem C09_multi_key : forall bk cf ins redir c a c',
  In (a, c') (out_sent (handle_data bk cf ins redir c)) ->
  sent_by (route cf ins redir (cmd_slot c)) c a c' \/
  exists sub ks, sub_of c sub ks /\ ks <> [] /\
    (forall k, In k ks -> In (Some k) c /\ cmd_slot sub = Some (slot k)) /\
    sent_by (route cf ins None (cmd_slot sub)) sub a c'.
Proof. exact multi_key_sent. Qed.
Check C09_multi_key : forall bk cf ins redir c a c',
  In (a, c') (out_sent (handle_data bk cf ins redir c)) ->
  sent_by (route cf ins redir (cmd_slot c)) c a c' \/
  exists sub ks, sub_of c sub ks /\ ks <> [] /\
    (forall k, In k ks -> In (Some k) c /\ cmd_slot sub = Some (slot k)) /\
    sent_by (route cf ins None (cmd_slot sub)) sub a c'.
Print Assumptions C09_multi_key.

(* an EVAL with several declared keys that is executed anywhere has all of them in one slot *)
Theorem C09_eval_keys : forall bk cf ins redir c ns n a c',
  data_kind c = DEval -> elem c 2 = Some ns -> btoi_usize ns = Some n -> n <> 1 ->
  In (a, c') (out_sent (handle_data bk cf ins redir c)) ->
  same_slot (filter_some (firstn_N (eval_key_count c n) (skipn 3 c))) = true.
Proof. exact eval_keys_same_slot. Qed.
Check C09_eval_keys : forall bk cf ins redir c ns n a c',
  data_kind c = DEval -> elem c 2 = Some ns -> btoi_usize ns = Some n -> n <> 1 ->
  In (a, c') (out_sent (handle_data bk cf ins redir c)) ->
  same_slot (filter_some (firstn_N (eval_key_count c n) (skipn 3 c))) = true.
Print Assumptions C09_eval_keys.

(* ---------- non-vacuity: concrete values ---------- *)
(* the standard CRC16/XMODEM check value and the Redis Cluster examples *)
Example C09_crc_vector : crc16 [49; 50; 51; 52; 53; 54; 55; 56; 57] = 12739 (* 0x31C3 *).
Proof. vm_compute. reflexivity. Qed.
Example C09_slot_foo : slot [102; 111; 111] = 12182 /\ slot [98; 97; 114] = 5061.
Proof. vm_compute. split; reflexivity. Qed.
(* "{user1000}.following" and "{user1000}.followers" share the tag "user1000"; "foo{}{bar}" and "{" are their own tag *)
Example C09_tag_examples :
  hash_tag [123; 117; 49; 125; 46; 97] = [117; 49] /\ hash_tag [102; 123; 125; 123; 98; 125] = [102; 123; 125; 123; 98; 125]
  /\ hash_tag [102; 123; 123; 98; 125; 125] = [123; 98] /\ hash_tag [123] = [123] /\ hash_tag [] = [].
Proof. vm_compute. repeat split. Qed.
Example C09_tag_spec_example : tag_spec [120; 123; 97; 125; 121] [97].
Proof. apply (TagFound _ [120] [97] [121]); [reflexivity| | |discriminate]; intros [H|[]]; discriminate. Qed.

Definition ex_local : slot_map := [([65], [(0, 8191)]); ([66], [(8192, 12000); (16383, 16383)])].
Definition ex_peer : slot_map := [([80], [(12001, 16382)])].
Definition ex_meta : meta := {| m_noname := false; m_local := ex_local; m_peer := ex_peer |}.
Definition ex_cfg : cfg := {| c_ar := false; c_default_redir := None; c_max_redir := None |}.

Lemma ex_covers_dec : forall rs s, covers rs s -> coversb rs s = true.
Proof. intros. apply coversb_iff. auto. Qed.

Example C09_wf_example : wf_map ex_local.
Proof.
  split.
  - repeat constructor; cbn; intuition discriminate.
  - intros a1 rs1 a2 rs2 s H1 H2 C1 C2.
    apply ex_covers_dec in C1. apply ex_covers_dec in C2.
    unfold ex_local in *. cbn [In] in H1, H2.
    destruct H1 as [H1|[H1|[]]]; destruct H2 as [H2|[H2|[]]]; inversion H1; inversion H2; subst; auto;
      unfold coversb, in_range in *; cbn [existsb fst snd] in *; exfalso; lia.
Qed.
(* foo (slot 12182) is a peer's, bar (5061) is local node "A", and a gap-free layout covers both *)
Example C09_decision_example :
  route ex_cfg (install ex_cfg ex_meta) None (Some (slot [102; 111; 111])) = DMoved 12182 [80] /\
  route ex_cfg (install ex_cfg ex_meta) None (Some (slot [98; 97; 114])) = DLocal [65].
Proof. vm_compute. split; reflexivity. Qed.
Example C09_multi_refused_example :
  multi_guard [Some s_MGET; Some [102; 111; 111]; Some [98; 97; 114]] = Some (false, [[102; 111; 111]; [98; 97; 114]]) /\
  same_slot [[102; 111; 111]; [98; 97; 114]] = false /\
  handle_data std_backend ex_cfg (install ex_cfg ex_meta) None [Some s_MGET; Some [102; 111; 111]; Some [98; 97; 114]]
    = Out (Error e_not_same_slot) [].
Proof. vm_compute. repeat split. Qed.
Example C09_multi_key_example :
  out_sent (handle_data std_backend ex_cfg (install ex_cfg ex_meta) None
              [Some s_MGET; Some [123; 98; 97; 114; 125; 49]; Some [123; 98; 97; 114; 125; 50]])
  = [([65], [Some s_GET; Some [123; 98; 97; 114; 125; 49]]); ([65], [Some s_GET; Some [123; 98; 97; 114; 125; 50]])].
Proof. vm_compute. reflexivity. Qed.

(* ---------- key level x slot level: hashing composed with the route group's C02 theorems over broker histories ----------
   Model/Route.v (C02) and Model/Slot.v both define route / install / installed, so the composed statements are named
   propositions of Proofs/SlotProofsBroker.v (unfold them there; each is the C02 statement with `slot k` for the slot):
   key_slot_in_range_stmt    forall k, Slot.slot k < Ranges.SLOT_NUM  - exactly the premise `sl < SLOT_NUM` of C02_reachable_route
   key_route_stmt            forall s, reachable_any s -> forall lim name v, view_cluster lim s name = Some (Some v) ->
                             forall ph KEY start tr, phases_ok ph (vc_nodes v) = true -> In start (proxies_of (vc_nodes v)) ->
                             path ph (installed s lim) (slot KEY) start tr -> <conclusions of C02_reachable_route at slot KEY>:
                             at most 1 (migrating slot: 2) redirections, ends Exec on the designated node or Queued at an allowed
                             blocked node, never Err, no stray execution anywhere in the chase
   key_route_dynamic_stmt    the same for C02_reachable_route_dynamic (phases progressing during the chase, bound 3)
   key_progress_stmt         C02_progress at slot KEY *)
From UM Require Proofs.SlotProofsBroker.

Theorem C09_key_slot_in_range_for_routing : SlotProofsBroker.key_slot_in_range_stmt.
Proof. exact SlotProofsBroker.key_slot_in_range_holds. Qed.
Check C09_key_slot_in_range_for_routing : SlotProofsBroker.key_slot_in_range_stmt.
Print Assumptions C09_key_slot_in_range_for_routing.

Theorem C09_key_route : SlotProofsBroker.key_route_stmt.
Proof. exact SlotProofsBroker.key_route_holds. Qed.
Check C09_key_route : SlotProofsBroker.key_route_stmt.
Print Assumptions C09_key_route.

Theorem C09_key_route_dynamic : SlotProofsBroker.key_route_dynamic_stmt.
Proof. exact SlotProofsBroker.key_route_dynamic_holds. Qed.
Check C09_key_route_dynamic : SlotProofsBroker.key_route_dynamic_stmt.
Print Assumptions C09_key_route_dynamic.

Theorem C09_key_progress : SlotProofsBroker.key_progress_stmt.
Proof. exact SlotProofsBroker.key_progress_holds. Qed.
Check C09_key_progress : SlotProofsBroker.key_progress_stmt.
Print Assumptions C09_key_progress.

(* the premise is literally the one of the route group's theorem (pinned by unfolding the named proposition) *)
Example C09_key_slot_premise_unfolded : forall k : bytes, slot k < 16384.
Proof. exact C09_key_slot_in_range_for_routing. Qed.
