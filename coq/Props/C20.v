(* C20 Value compression is transparent.  Statements only; proofs live in Proofs/CompressProofs.v.
   zstd is abstract: every theorem quantifies over functions compress / decompress; the only property used of them is
   the round-trip law, stated as an explicit premise (zstd::decode_all (zstd::encode_all v 1) = v; tested against the
   real library calls on every run by harness/compress). *)
From UM Require Import Base.BytesDef Base.Dec Base.RespT Model.Compress Proofs.CompressProofs.

(* with compression enabled (set_get_only or allow_all), on a store that holds what the proxy wrote (enc lg), a value
   written by any of SET (with any options), SETNX, SETEX, PSETEX, GETSET, MSET, MSETNX (relation `writes`, any value
   incl. empty / binary) is returned byte-identical by GET, by GETSET and at its position by MGET (reads_back) *)
Theorem C20_transparent : forall (compress : bytes -> bytes) (decompress : bytes -> option bytes),
  (forall v, decompress (compress v) = Some v) ->
  forall s lg w k v, s <> Disabled -> writes lg w k v ->
  reads_back compress decompress s (fst (exec compress decompress s (enc compress lg) w)) k v.
Proof. exact transparent. Qed.
Check C20_transparent : forall (compress : bytes -> bytes) (decompress : bytes -> option bytes),
  (forall v, decompress (compress v) = Some v) ->
  forall s lg w k v, s <> Disabled -> writes lg w k v ->
  reads_back compress decompress s (fst (exec compress decompress s (enc compress lg) w)) k v.
Print Assumptions C20_transparent.

(* the general form: ANY sequence of commands other than the restricted string commands, in any argument shape whose
   value positions exist, run through the compressing proxy on the encoded store, gives byte-identical replies and the
   encoded image of the store that the same proxy with compression disabled gives on the plain store *)
Theorem C20_transparent_sequences : forall (compress : bytes -> bytes) (decompress : bytes -> option bytes),
  (forall v, decompress (compress v) = Some v) ->
  forall s, s <> Disabled -> forall cs lg,
  Forall (fun c => cmd_dtype c <> TStrOther /\ shape_ok c = true) cs ->
  fst (exec_all compress decompress s (enc compress lg) cs) = enc compress (fst (exec_all compress decompress Disabled lg cs)) /\
  snd (exec_all compress decompress s (enc compress lg) cs) = snd (exec_all compress decompress Disabled lg cs).
Proof. exact exec_all_sim. Qed.
Check C20_transparent_sequences : forall (compress : bytes -> bytes) (decompress : bytes -> option bytes),
  (forall v, decompress (compress v) = Some v) ->
  forall s, s <> Disabled -> forall cs lg,
  Forall (fun c => cmd_dtype c <> TStrOther /\ shape_ok c = true) cs ->
  fst (exec_all compress decompress s (enc compress lg) cs) = enc compress (fst (exec_all compress decompress Disabled lg cs)) /\
  snd (exec_all compress decompress s (enc compress lg) cs) = snd (exec_all compress decompress Disabled lg cs).
Print Assumptions C20_transparent_sequences.

(* the compressor forwards a command of the same length; positions outside the value positions of its type (command
   name, keys, options, expire time, every argument of every other command) are byte-identical; value positions
   (2 for SET/SETNX/GETSET, 3 for SETEX/PSETEX, every even index >= 2 for MSET/MSETNX) hold compress of the original *)
Theorem C20_untouched : forall (compress : bytes -> bytes) (decompress : bytes -> option bytes) s c c',
  compress_cmd compress s c = CForward c' ->
  length c' = length c /\
  (forall i, value_position (cmd_dtype c) (length c) i = false \/ s = Disabled -> nth_error c' i = nth_error c i) /\
  (forall i, s <> Disabled -> value_position (cmd_dtype c) (length c) i = true ->
             nth_error c' i = option_map compress (nth_error c i)).
Proof. exact untouched_cmd. Qed.
Check C20_untouched : forall (compress : bytes -> bytes) (decompress : bytes -> option bytes) s c c',
  compress_cmd compress s c = CForward c' ->
  length c' = length c /\
  (forall i, value_position (cmd_dtype c) (length c) i = false \/ s = Disabled -> nth_error c' i = nth_error c i) /\
  (forall i, s <> Disabled -> value_position (cmd_dtype c) (length c) i = true ->
             nth_error c' i = option_map compress (nth_error c i)).
Print Assumptions C20_untouched.

(* only bulk strings of GET / GETSET replies and arrays of MGET replies are rewritten *)
Theorem C20_untouched_reply : forall (decompress : bytes -> option bytes) s t r,
  (s = Disabled \/ (t <> TGet /\ t <> TGetset /\ t <> TMget) -> decompress_reply decompress s t r = r)
  /\ ((t = TGet \/ t = TGetset) -> (forall b, r <> Bulk b) -> decompress_reply decompress s t r = r)
  /\ (t = TMget -> (forall l, r <> Arr l) -> decompress_reply decompress s t r = r).
Proof. exact untouched_reply. Qed.
Check C20_untouched_reply : forall (decompress : bytes -> option bytes) s t r,
  (s = Disabled \/ (t <> TGet /\ t <> TGetset /\ t <> TMget) -> decompress_reply decompress s t r = r)
  /\ ((t = TGet \/ t = TGetset) -> (forall b, r <> Bulk b) -> decompress_reply decompress s t r = r)
  /\ (t = TMget -> (forall l, r <> Arr l) -> decompress_reply decompress s t r = r).
Print Assumptions C20_untouched_reply.

(* what the code does with a stored value that did NOT go through the compressor (written while compression was
   disabled, or by APPEND under allow_all): GET answers whatever zstd decodes from the raw bytes, and a nil bulk
   string when they are no zstd frame *)
Theorem C20_raw_value_read : forall (compress : bytes -> bytes) (decompress : bytes -> option bytes) s st k b,
  s <> Disabled -> lookup k st = Some b ->
  snd (exec compress decompress s st [n_GET; k]) = match decompress b with Some v => Bulk v | None => BulkNil end.
Proof. exact raw_value_read. Qed.
Check C20_raw_value_read : forall (compress : bytes -> bytes) (decompress : bytes -> option bytes) s st k b,
  s <> Disabled -> lookup k st = Some b ->
  snd (exec compress decompress s st [n_GET; k]) = match decompress b with Some v => Bulk v | None => BulkNil end.
Print Assumptions C20_raw_value_read.

(* set_get_only: every string command of the proxy's supported-command table (23 names: proxy/table.rs + msetnx) other
   than the nine written / read through compression (14 names) is refused with the fixed error and touches nothing *)
Theorem C20_restricted : forall (compress : bytes -> bytes) (decompress : bytes -> option bytes) name args st,
  In name string_table -> existsb (bytes_eqb name) nine_lower = false ->
  exec compress decompress SetGetOnly st (name :: args) = (st, Error MSG_RESTRICTED).
Proof. exact table_restricted_exec. Qed.
Check C20_restricted : forall (compress : bytes -> bytes) (decompress : bytes -> option bytes) name args st,
  In name string_table -> existsb (bytes_eqb name) nine_lower = false ->
  exec compress decompress SetGetOnly st (name :: args) = (st, Error MSG_RESTRICTED).
Print Assumptions C20_restricted.

(* the same for every spelling (upper / lower / mixed case) of the 15 names of the compressor's restricted arm incl.
   BITOP: whatever name maps to a restricted DataCmdType is refused *)
Theorem C20_restricted_any_case : forall (compress : bytes -> bytes) (decompress : bytes -> option bytes) name args st,
  cmd_type name = TStrOther ->
  exec compress decompress SetGetOnly st (name :: args) = (st, Error MSG_RESTRICTED)
  /\ compress_cmd compress SetGetOnly (name :: args) = CRestricted.
Proof. exact restricted. Qed.
Check C20_restricted_any_case : forall (compress : bytes -> bytes) (decompress : bytes -> option bytes) name args st,
  cmd_type name = TStrOther ->
  exec compress decompress SetGetOnly st (name :: args) = (st, Error MSG_RESTRICTED)
  /\ compress_cmd compress SetGetOnly (name :: args) = CRestricted.
Print Assumptions C20_restricted_any_case.

Theorem C20_table : length string_table = 23%nat /\ length nine_lower = 9%nat /\
  length (filter (fun n => negb (existsb (bytes_eqb n) nine_lower)) string_table) = 14%nat.
Proof. exact table_counts. Qed.
Check C20_table : length string_table = 23%nat /\ length nine_lower = 9%nat /\
  length (filter (fun n => negb (existsb (bytes_eqb n) nine_lower)) string_table) = 14%nat.
Print Assumptions C20_table.

(* out of scope and named: string commands the proxy's DataCmdType does not know (SUBSTR, GETDEL, GETEX; not in the
   supported-command table) are forwarded unchanged in every mode, so they would observe compressed bytes *)
Theorem C20_outside_table_forwarded : forall (compress : bytes -> bytes) s args,
  compress_cmd compress s (n_SUBSTR :: args) = CForward (n_SUBSTR :: args) /\
  compress_cmd compress s (n_GETDEL :: args) = CForward (n_GETDEL :: args) /\
  compress_cmd compress s (n_GETEX :: args) = CForward (n_GETEX :: args).
Proof. exact outside_table_forwarded. Qed.
Check C20_outside_table_forwarded : forall (compress : bytes -> bytes) s args,
  compress_cmd compress s (n_SUBSTR :: args) = CForward (n_SUBSTR :: args) /\
  compress_cmd compress s (n_GETDEL :: args) = CForward (n_GETDEL :: args) /\
  compress_cmd compress s (n_GETEX :: args) = CForward (n_GETEX :: args).
Print Assumptions C20_outside_table_forwarded.

Theorem C20_disabled_identity : forall (compress : bytes -> bytes) (decompress : bytes -> option bytes) c t r,
  compress_cmd compress Disabled c = CForward c /\ decompress_reply decompress Disabled t r = r.
Proof. exact disabled_identity. Qed.
Check C20_disabled_identity : forall (compress : bytes -> bytes) (decompress : bytes -> option bytes) c t r,
  compress_cmd compress Disabled c = CForward c /\ decompress_reply decompress Disabled t r = r.
Print Assumptions C20_disabled_identity.

(* non-vacuity: a concrete codec satisfying the round-trip law (prefix byte 90), a write with options after the value,
   an MSETNX with two pairs, an empty value *)
Definition ex_compress (v : bytes) : bytes := 90 :: v.
Definition ex_decompress (b : bytes) : option bytes := match b with 90 :: v => Some v | _ => None end.
Example C20_roundtrip_example : forall v, ex_decompress (ex_compress v) = Some v.
Proof. reflexivity. Qed.
Example C20_writes_example :
  writes [] (n_SET :: [107] :: [1; 0; 255] :: [[69; 88]; [49; 48]]) [107] [1; 0; 255] /\
  writes [] (n_MSETNX :: [[97]; []; [98]; [0]]) [97] [] /\
  fst (exec ex_compress ex_decompress SetGetOnly [] (n_SET :: [107] :: [1; 0; 255] :: [[69; 88]; [49; 48]]))
    = [([107], [90; 1; 0; 255])] /\
  snd (exec ex_compress ex_decompress SetGetOnly [([107], [90; 1; 0; 255])] [n_GET; [107]]) = Bulk [1; 0; 255] /\
  snd (exec ex_compress ex_decompress AllowAll [([107], [1; 2])] [n_GET; [107]]) = BulkNil.
Proof.
  split; [constructor|]. split.
  - eapply W_msetnx with (ps := [([97], []); ([98], [0])]); [reflexivity| |left; reflexivity|intros; reflexivity].
    repeat constructor; cbn; intuition discriminate.
  - vm_compute. repeat split.
Qed.
Example C20_sequences_example :
  Forall (fun c => cmd_dtype c <> TStrOther /\ shape_ok c = true)
         [n_SET :: [107] :: [1] :: [[78; 88]]; [n_MGET; [107]; [120]]; [n_MSETNX; [97]; []; [98]]; [[70; 79; 79]; [107]]].
Proof. repeat constructor; cbn; discriminate. Qed.
Example C20_restricted_example :
  In [97; 112; 112; 101; 110; 100] string_table /\ existsb (bytes_eqb [97; 112; 112; 101; 110; 100]) nine_lower = false /\
  cmd_type [65; 112; 80; 101; 78; 100] = TStrOther /\ cmd_type n_BITOP = TStrOther.
Proof. vm_compute. intuition. Qed.
Example C20_untouched_example :
  compress_cmd ex_compress SetGetOnly [n_SETEX; [107]; [49; 48]; [118]; [120]] = CForward [n_SETEX; [107]; [49; 48]; [90; 118]; [120]] /\
  compress_cmd ex_compress AllowAll [n_MSETNX; [97]; [1]; [98]; [2]; [99]] = CForward [n_MSETNX; [97]; [90; 1]; [98]; [90; 2]; [99]] /\
  compress_cmd ex_compress SetGetOnly [n_SET; [107]] = CInvalid.
Proof. vm_compute. repeat split. Qed.
