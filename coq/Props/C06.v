(* C06 Failover promotes the replica without changing slot ownership.
   Statements only; proofs live in Proofs/BrokerFailover*.v.  Model: Model/Broker.v
   (takeover_master, replace_failed_proxy, generate_new_free_proxy, chunk_nodes / cluster_nodes, to_slot_range, step). *)
From UM Require Import Base.BytesDef Model.Ranges Model.Broker Proofs.BrokerBase
  Proofs.BrokerFailoverStruct Proofs.BrokerFailoverTakeover Proofs.BrokerFailoverView Proofs.BrokerFailoverStore
  Proofs.BrokerFailoverReplace Proofs.BrokerFailoverAlloc Proofs.BrokerFailoverEpochInv Proofs.BrokerFailoverEx.

(* ---- 1. structure of the four nodes of a chunk, for EVERY chunk in EVERY role position (so also after any failover).
   Node i lives on proxy position (2 <=? i); peer_idx is the peer table 0<->3, 1<->2 of cluster_store_to_cluster.
   Exactly two masters and two replicas; the peer of a node is on the other proxy, has the opposite role, and the peer
   records are mutually consistent; replicas carry no slots; the node owning part p's slots is node
   part_node_index p role on proxy part_proxy_index p role: the index tables of cluster_store_to_cluster and of
   to_slot_range (chunk_part_to_node_index / chunk_part_to_proxy_index) agree. *)
Theorem C06_structure : forall chunks c ns, chunk_nodes chunks c = Some ns ->
  length ns = 4%nat
  /\ length (filter vn_master ns) = 2%nat
  /\ length (filter (fun n => negb (vn_master n)) ns) = 2%nat
  /\ (forall i n, nth_error ns i = Some n ->
        vn_addr n = ck_node c i /\ vn_proxy n = ck_proxy c (Nat.leb 2 i)
        /\ (vn_master n = false -> vn_slots n = [])
        /\ exists p, nth_error ns (peer_idx i) = Some p
             /\ Nat.leb 2 (peer_idx i) = negb (Nat.leb 2 i)
             /\ vn_master p = negb (vn_master n)
             /\ vn_peer_node n = vn_addr p /\ vn_peer_proxy n = vn_proxy p
             /\ vn_peer_node p = vn_addr n /\ vn_peer_proxy p = vn_proxy n)
  /\ (forall part, exists n sl,
        nth_error ns (part_node_index part (ck_role c)) = Some n
        /\ Nat.leb 2 (part_node_index part (ck_role c)) = part_proxy_index part (ck_role c)
        /\ vn_master n = true
        /\ vn_addr n = ck_node c (part_node_index part (ck_role c))
        /\ vn_proxy n = ck_proxy c (part_proxy_index part (ck_role c))
        /\ map_opt (to_slot_range chunks) (ck_mig c part) = Some sl
        /\ vn_slots n = (match ck_stable c part with Some r => [(r, VNone)] | None => [] end) ++ sl).
Proof. exact structure_of_chunk. Qed.
Check C06_structure : forall chunks c ns, chunk_nodes chunks c = Some ns ->
  length ns = 4%nat
  /\ length (filter vn_master ns) = 2%nat
  /\ length (filter (fun n => negb (vn_master n)) ns) = 2%nat
  /\ (forall i n, nth_error ns i = Some n ->
        vn_addr n = ck_node c i /\ vn_proxy n = ck_proxy c (Nat.leb 2 i)
        /\ (vn_master n = false -> vn_slots n = [])
        /\ exists p, nth_error ns (peer_idx i) = Some p
             /\ Nat.leb 2 (peer_idx i) = negb (Nat.leb 2 i)
             /\ vn_master p = negb (vn_master n)
             /\ vn_peer_node n = vn_addr p /\ vn_peer_proxy n = vn_proxy p
             /\ vn_peer_node p = vn_addr n /\ vn_peer_proxy p = vn_proxy n)
  /\ (forall part, exists n sl,
        nth_error ns (part_node_index part (ck_role c)) = Some n
        /\ Nat.leb 2 (part_node_index part (ck_role c)) = part_proxy_index part (ck_role c)
        /\ vn_master n = true
        /\ vn_addr n = ck_node c (part_node_index part (ck_role c))
        /\ vn_proxy n = ck_proxy c (part_proxy_index part (ck_role c))
        /\ map_opt (to_slot_range chunks) (ck_mig c part) = Some sl
        /\ vn_slots n = (match ck_stable c part with Some r => [(r, VNone)] | None => [] end) ++ sl).
Print Assumptions C06_structure.

(* lifted to all chunks of a cluster view: the node list is the concatenation of per-chunk quadruples, each satisfying
   the statement above (chunk_structure chunks c ns is literally the conclusion of C06_structure) *)
Theorem C06_structure_cluster : forall cl ns, cluster_nodes cl = Some ns ->
  exists per_chunk, ns = concat per_chunk
    /\ Forall2 (fun c cn => chunk_nodes (cl_chunks cl) c = Some cn /\ chunk_structure (cl_chunks cl) c cn)
               (cl_chunks cl) per_chunk.
Proof. exact structure_of_cluster. Qed.
Check C06_structure_cluster : forall cl ns, cluster_nodes cl = Some ns ->
  exists per_chunk, ns = concat per_chunk
    /\ Forall2 (fun c cn => chunk_nodes (cl_chunks cl) c = Some cn /\ chunk_structure (cl_chunks cl) c cn)
               (cl_chunks cl) per_chunk.
Print Assumptions C06_structure_cluster.

(* the addresses in a migration tag are those of the master nodes currently owning the source / destination part
   (so after a failover the tags name the promoted nodes) *)
Theorem C06_tag_names_owner : forall chunks m rl tag,
  to_slot_range chunks m = Some (rl, tag) ->
  exists sc dc meta,
    nth_error chunks (mm_src_idx (ms_meta m)) = Some sc
    /\ nth_error chunks (mm_dst_idx (ms_meta m)) = Some dc
    /\ rl = ms_ranges m
    /\ tag = (if ms_out m then VMigrating meta else VImporting meta)
    /\ vm_epoch meta = mm_epoch (ms_meta m)
    /\ (forall ns, chunk_nodes chunks sc = Some ns ->
          exists n, nth_error ns (part_node_index (mm_src_part (ms_meta m)) (ck_role sc)) = Some n
                    /\ vn_master n = true /\ vn_addr n = vm_src_node meta /\ vn_proxy n = vm_src_proxy meta)
    /\ (forall ns, chunk_nodes chunks dc = Some ns ->
          exists n, nth_error ns (part_node_index (mm_dst_part (ms_meta m)) (ck_role dc)) = Some n
                    /\ vn_master n = true /\ vn_addr n = vm_dst_node meta /\ vn_proxy n = vm_dst_proxy meta).
Proof. exact tag_names_owner. Qed.
Check C06_tag_names_owner : forall chunks m rl tag,
  to_slot_range chunks m = Some (rl, tag) ->
  exists sc dc meta,
    nth_error chunks (mm_src_idx (ms_meta m)) = Some sc
    /\ nth_error chunks (mm_dst_idx (ms_meta m)) = Some dc
    /\ rl = ms_ranges m
    /\ tag = (if ms_out m then VMigrating meta else VImporting meta)
    /\ vm_epoch meta = mm_epoch (ms_meta m)
    /\ (forall ns, chunk_nodes chunks sc = Some ns ->
          exists n, nth_error ns (part_node_index (mm_src_part (ms_meta m)) (ck_role sc)) = Some n
                    /\ vn_master n = true /\ vn_addr n = vm_src_node meta /\ vn_proxy n = vm_src_proxy meta)
    /\ (forall ns, chunk_nodes chunks dc = Some ns ->
          exists n, nth_error ns (part_node_index (mm_dst_part (ms_meta m)) (ck_role dc)) = Some n
                    /\ vn_master n = true /\ vn_addr n = vm_dst_node meta /\ vn_proxy n = vm_dst_proxy meta).
Print Assumptions C06_tag_names_owner.

(* ---- 2. takeover_master: ownership.
   first_at chunks f i c pos: c is the chunk at index i, f is its proxy at position pos (false = 0, true = 1), and it is
   the first chunk the loops of takeover_master stop at (no earlier chunk has f; proxy 0 is tested first).
   new_role pos: SecondChunkMaster when proxy 0 failed, FirstChunkMaster when proxy 1 failed.
   same_but_epoch m m': equal ranges, direction and source/destination positions (only mm_epoch may differ).
   (b) slot content is unchanged in every chunk, node/proxy addresses too, only chunk i changes role;
   (a) afterwards both parts of chunk i are owned on the partner proxy position; parts whose owner was on the failed
   position move to the old owner's replication peer, the others keep their node; (c) every node index on the failed
   position is a replica in the new role. *)
Theorem C06_takeover_ownership : forall cl f e i c pos,
  first_at (cl_chunks cl) f i c pos ->
  length (cl_chunks (takeover_master cl f e)) = length (cl_chunks cl)
  /\ (forall j cj, nth_error (cl_chunks cl) j = Some cj ->
        exists cj', nth_error (cl_chunks (takeover_master cl f e)) j = Some cj'
          /\ (forall p, ck_stable cj' p = ck_stable cj p)
          /\ (forall p, Forall2 same_but_epoch (ck_mig cj p) (ck_mig cj' p))
          /\ (forall k, ck_node cj' k = ck_node cj k) /\ (forall b, ck_proxy cj' b = ck_proxy cj b)
          /\ ck_role cj' = (if Nat.eqb j i then new_role pos else ck_role cj))
  /\ (forall p, part_proxy_index p (new_role pos) = negb pos)
  /\ (forall p, part_proxy_index p (ck_role c) = pos ->
        part_node_index p (new_role pos) = peer_idx (part_node_index p (ck_role c)))
  /\ (forall p, part_proxy_index p (ck_role c) = negb pos ->
        part_node_index p (new_role pos) = part_node_index p (ck_role c))
  /\ (forall k, Nat.leb 2 k = pos -> role_replica (new_role pos) k = true).
Proof. exact takeover_ownership. Qed.
Check C06_takeover_ownership : forall cl f e i c pos,
  first_at (cl_chunks cl) f i c pos ->
  length (cl_chunks (takeover_master cl f e)) = length (cl_chunks cl)
  /\ (forall j cj, nth_error (cl_chunks cl) j = Some cj ->
        exists cj', nth_error (cl_chunks (takeover_master cl f e)) j = Some cj'
          /\ (forall p, ck_stable cj' p = ck_stable cj p)
          /\ (forall p, Forall2 same_but_epoch (ck_mig cj p) (ck_mig cj' p))
          /\ (forall k, ck_node cj' k = ck_node cj k) /\ (forall b, ck_proxy cj' b = ck_proxy cj b)
          /\ ck_role cj' = (if Nat.eqb j i then new_role pos else ck_role cj))
  /\ (forall p, part_proxy_index p (new_role pos) = negb pos)
  /\ (forall p, part_proxy_index p (ck_role c) = pos ->
        part_node_index p (new_role pos) = peer_idx (part_node_index p (ck_role c)))
  /\ (forall p, part_proxy_index p (ck_role c) = negb pos ->
        part_node_index p (new_role pos) = part_node_index p (ck_role c))
  /\ (forall k, Nat.leb 2 k = pos -> role_replica (new_role pos) k = true).
Print Assumptions C06_takeover_ownership.

(* the same in the node view (what get_cluster_by_name serves): the view of every chunk still exists; for every part the
   owner is a master before and after and carries the same slot ranges with the same kind of tag (same_slot: stable /
   migrating / importing); an owner on the failed proxy is replaced by its replication peer (address and proxy taken from
   its own peer record), every other part keeps owner node and proxy; no node on the failed proxy of chunk i is master. *)
Theorem C06_takeover_view : forall cl f e i c pos j cj ns,
  first_at (cl_chunks cl) f i c pos ->
  nth_error (cl_chunks cl) j = Some cj ->
  chunk_nodes (cl_chunks cl) cj = Some ns ->
  exists cj' ns',
    nth_error (cl_chunks (takeover_master cl f e)) j = Some cj'
    /\ chunk_nodes (cl_chunks (takeover_master cl f e)) cj' = Some ns'
    /\ (forall p, exists old new,
          nth_error ns (part_node_index p (ck_role cj)) = Some old /\ vn_master old = true
          /\ nth_error ns' (part_node_index p (ck_role cj')) = Some new /\ vn_master new = true
          /\ Forall2 same_slot (vn_slots old) (vn_slots new)
          /\ (if Nat.eqb j i && Bool.eqb (part_proxy_index p (ck_role cj)) pos
              then vn_proxy old = f /\ vn_addr new = vn_peer_node old /\ vn_proxy new = vn_peer_proxy old
              else vn_addr new = vn_addr old /\ vn_proxy new = vn_proxy old))
    /\ (j = i -> forall k n, nth_error ns' k = Some n -> Nat.leb 2 k = pos -> vn_proxy n = f /\ vn_master n = false).
Proof. exact takeover_view. Qed.
Check C06_takeover_view : forall cl f e i c pos j cj ns,
  first_at (cl_chunks cl) f i c pos ->
  nth_error (cl_chunks cl) j = Some cj ->
  chunk_nodes (cl_chunks cl) cj = Some ns ->
  exists cj' ns',
    nth_error (cl_chunks (takeover_master cl f e)) j = Some cj'
    /\ chunk_nodes (cl_chunks (takeover_master cl f e)) cj' = Some ns'
    /\ (forall p, exists old new,
          nth_error ns (part_node_index p (ck_role cj)) = Some old /\ vn_master old = true
          /\ nth_error ns' (part_node_index p (ck_role cj')) = Some new /\ vn_master new = true
          /\ Forall2 same_slot (vn_slots old) (vn_slots new)
          /\ (if Nat.eqb j i && Bool.eqb (part_proxy_index p (ck_role cj)) pos
              then vn_proxy old = f /\ vn_addr new = vn_peer_node old /\ vn_proxy new = vn_peer_proxy old
              else vn_addr new = vn_addr old /\ vn_proxy new = vn_proxy old))
    /\ (j = i -> forall k n, nth_error ns' k = Some n -> Nat.leb 2 k = pos -> vn_proxy n = f /\ vn_master n = false).
Print Assumptions C06_takeover_view.

(* the same across the WHOLE of replace_failed_proxy (takeover_master, then - unordered mode with a spare proxy - the loop
   that puts the replacement proxy and its two nodes in place of the failed one), whatever its outcome: slot content of
   every chunk unchanged; the owner node / proxy of every part (the addresses C06_structure and C06_tag_names_owner show
   in the views) is the old owner's replication peer on the partner proxy for the parts that were on the failed proxy,
   and the old owner for every other part; chunks other than the failing one keep all addresses *)
Theorem C06_replace_ownership : forall s f ch fr name cl i c pos,
  alookup f (st_proxies s) = Some fr -> pr_cluster fr = Some name -> alookup name (st_clusters s) = Some cl ->
  first_at (cl_chunks cl) f i c pos ->
  exists cl', alookup name (st_clusters (fst (replace_failed_proxy s f ch))) = Some cl'
    /\ length (cl_chunks cl') = length (cl_chunks cl)
    /\ forall j cj, nth_error (cl_chunks cl) j = Some cj ->
         exists cj', nth_error (cl_chunks cl') j = Some cj'
           /\ (forall p, ck_stable cj' p = ck_stable cj p)
           /\ (forall p, Forall2 same_but_epoch (ck_mig cj p) (ck_mig cj' p))
           /\ ck_role cj' = (if Nat.eqb j i then new_role pos else ck_role cj)
           /\ (forall p,
                 ck_node cj' (part_node_index p (ck_role cj'))
                 = (if Nat.eqb j i && Bool.eqb (part_proxy_index p (ck_role cj)) pos
                    then ck_node cj (peer_idx (part_node_index p (ck_role cj)))
                    else ck_node cj (part_node_index p (ck_role cj)))
                 /\ ck_proxy cj' (part_proxy_index p (ck_role cj'))
                    = (if Nat.eqb j i && Bool.eqb (part_proxy_index p (ck_role cj)) pos
                       then ck_proxy cj (negb pos)
                       else ck_proxy cj (part_proxy_index p (ck_role cj))))
           /\ (j <> i -> (forall k, ck_node cj' k = ck_node cj k) /\ (forall b, ck_proxy cj' b = ck_proxy cj b)).
Proof. exact replace_ownership. Qed.
Check C06_replace_ownership : forall s f ch fr name cl i c pos,
  alookup f (st_proxies s) = Some fr -> pr_cluster fr = Some name -> alookup name (st_clusters s) = Some cl ->
  first_at (cl_chunks cl) f i c pos ->
  exists cl', alookup name (st_clusters (fst (replace_failed_proxy s f ch))) = Some cl'
    /\ length (cl_chunks cl') = length (cl_chunks cl)
    /\ forall j cj, nth_error (cl_chunks cl) j = Some cj ->
         exists cj', nth_error (cl_chunks cl') j = Some cj'
           /\ (forall p, ck_stable cj' p = ck_stable cj p)
           /\ (forall p, Forall2 same_but_epoch (ck_mig cj p) (ck_mig cj' p))
           /\ ck_role cj' = (if Nat.eqb j i then new_role pos else ck_role cj)
           /\ (forall p,
                 ck_node cj' (part_node_index p (ck_role cj'))
                 = (if Nat.eqb j i && Bool.eqb (part_proxy_index p (ck_role cj)) pos
                    then ck_node cj (peer_idx (part_node_index p (ck_role cj)))
                    else ck_node cj (part_node_index p (ck_role cj)))
                 /\ ck_proxy cj' (part_proxy_index p (ck_role cj'))
                    = (if Nat.eqb j i && Bool.eqb (part_proxy_index p (ck_role cj)) pos
                       then ck_proxy cj (negb pos)
                       else ck_proxy cj (part_proxy_index p (ck_role cj))))
           /\ (j <> i -> (forall k, ck_node cj' k = ck_node cj k) /\ (forall b, ck_proxy cj' b = ck_proxy cj b)).
Print Assumptions C06_replace_ownership.

(* ---- 3. takeover_master: re-issue of migrations (the early return `role already new_role pos` is excluded here; then
   nothing changes, see C06_idempotent).
   moved_positions c pos = source and destination positions of all entries of the parts of chunk i whose master was on the
   failed proxy (the Rust peer_position set).  (1) exact effect: every entry list of every chunk is mapped through
   reepoch_peers (moved_positions c pos) e, i.e. an entry gets epoch e iff its source or destination position is in that
   set, otherwise it is untouched; (2) all entries of a moved part of chunk i carry epoch e; (3) if the chunk already had
   both masters on the failing proxy (role new_role (negb pos): FirstChunkMaster and proxy 0 fails, or SecondChunkMaster
   and proxy 1 fails - the case fixed in /repo) the entries of BOTH parts carry epoch e; (4) if entries are well placed
   with twins (mig_wf: out-entry in the list of its source position, in-entry in the list of its destination position,
   each with a twin of the other direction with equal ranges and meta at the other end - what assign_dst_slots builds)
   then EVERY entry anywhere whose source or destination is a moved part carries epoch e; (5) mig_wf is preserved, in
   particular out-entry and in-entry still carry equal metas. *)
Theorem C06_reissue : forall cl f e i c pos,
  first_at (cl_chunks cl) f i c pos -> ck_role c <> new_role pos ->
  (forall j cj, nth_error (cl_chunks cl) j = Some cj ->
     exists cj', nth_error (cl_chunks (takeover_master cl f e)) j = Some cj'
       /\ forall p, ck_mig cj' p = map (reepoch_peers (moved_positions c pos) e) (ck_mig cj p))
  /\ (forall c' p m, nth_error (cl_chunks (takeover_master cl f e)) i = Some c' ->
        part_proxy_index p (ck_role c) = pos -> In m (ck_mig c' p) -> mm_epoch (ms_meta m) = e)
  /\ (ck_role c = new_role (negb pos) ->
      forall c' p m, nth_error (cl_chunks (takeover_master cl f e)) i = Some c' -> In m (ck_mig c' p) ->
                     mm_epoch (ms_meta m) = e)
  /\ (mig_wf (cl_chunks cl) ->
      forall j cj' p m' q, nth_error (cl_chunks (takeover_master cl f e)) j = Some cj' -> In m' (ck_mig cj' p) ->
        part_proxy_index q (ck_role c) = pos -> (src_pos m' = (i, q) \/ dst_pos m' = (i, q)) ->
        mm_epoch (ms_meta m') = e)
  /\ (mig_wf (cl_chunks cl) -> mig_wf (cl_chunks (takeover_master cl f e))).
Proof. exact takeover_reissue. Qed.
Check C06_reissue : forall cl f e i c pos,
  first_at (cl_chunks cl) f i c pos -> ck_role c <> new_role pos ->
  (forall j cj, nth_error (cl_chunks cl) j = Some cj ->
     exists cj', nth_error (cl_chunks (takeover_master cl f e)) j = Some cj'
       /\ forall p, ck_mig cj' p = map (reepoch_peers (moved_positions c pos) e) (ck_mig cj p))
  /\ (forall c' p m, nth_error (cl_chunks (takeover_master cl f e)) i = Some c' ->
        part_proxy_index p (ck_role c) = pos -> In m (ck_mig c' p) -> mm_epoch (ms_meta m) = e)
  /\ (ck_role c = new_role (negb pos) ->
      forall c' p m, nth_error (cl_chunks (takeover_master cl f e)) i = Some c' -> In m (ck_mig c' p) ->
                     mm_epoch (ms_meta m) = e)
  /\ (mig_wf (cl_chunks cl) ->
      forall j cj' p m' q, nth_error (cl_chunks (takeover_master cl f e)) j = Some cj' -> In m' (ck_mig cj' p) ->
        part_proxy_index q (ck_role c) = pos -> (src_pos m' = (i, q) \/ dst_pos m' = (i, q)) ->
        mm_epoch (ms_meta m') = e)
  /\ (mig_wf (cl_chunks cl) -> mig_wf (cl_chunks (takeover_master cl f e))).
Print Assumptions C06_reissue.

(* ---- 4. repeated calls.  A second takeover for the same chunk proxy takes the early return: nothing changes, not even
   the cluster epoch. *)
Theorem C06_idempotent : forall cl f e e2 i c pos,
  first_at (cl_chunks cl) f i c pos ->
  takeover_master (takeover_master cl f e) f e2 = takeover_master cl f e.
Proof. exact takeover_idempotent. Qed.
Check C06_idempotent : forall cl f e e2 i c pos,
  first_at (cl_chunks cl) f i c pos ->
  takeover_master (takeover_master cl f e) f e2 = takeover_master cl f e.
Print Assumptions C06_idempotent.

(* after a replacement the failed proxy is free and marked failed; calling replace_failed_proxy again for it changes no
   cluster at all *)
Theorem C06_idempotent_replace : forall s f ch s' r,
  replace_failed_proxy s f ch = (s', Done (Some r)) ->
  forall ch2, st_clusters (fst (replace_failed_proxy s' f ch2)) = st_clusters s'
              /\ snd (replace_failed_proxy s' f ch2) = Done None.
Proof. exact replace_again_after_replacement. Qed.
Check C06_idempotent_replace : forall s f ch s' r,
  replace_failed_proxy s f ch = (s', Done (Some r)) ->
  forall ch2, st_clusters (fst (replace_failed_proxy s' f ch2)) = st_clusters s'
              /\ snd (replace_failed_proxy s' f ch2) = Done None.
Print Assumptions C06_idempotent_replace.

(* whatever the first call did (replacement, ordered mode, no spare proxy, error): a second call for the same address
   leaves the roles and the migration entries (hence migration epochs) of every cluster unchanged
   (same_roles_migs a b: map ck_role equal and, for both parts, map ck_mig equal) *)
Theorem C06_idempotent_replace_general : forall s f ch ch2 n cl',
  alookup n (st_clusters (fst (replace_failed_proxy s f ch))) = Some cl' ->
  exists cl'', alookup n (st_clusters (fst (replace_failed_proxy (fst (replace_failed_proxy s f ch)) f ch2))) = Some cl''
               /\ same_roles_migs cl'' cl' .
Proof. exact replace_twice. Qed.
Check C06_idempotent_replace_general : forall s f ch ch2 n cl',
  alookup n (st_clusters (fst (replace_failed_proxy s f ch))) = Some cl' ->
  exists cl'', alookup n (st_clusters (fst (replace_failed_proxy (fst (replace_failed_proxy s f ch)) f ch2))) = Some cl''
               /\ same_roles_migs cl'' cl' .
Print Assumptions C06_idempotent_replace_general.

(* ---- 5. for every operation (ORestore replaces the whole store by a snapshot and is excluded): a proxy that is in some
   cluster afterwards was in some cluster before, or was free before: no cluster, not in st_failed, no entry in
   st_failures. *)
Theorem C06_never_allocate_failed : forall s o, (forall snap, o <> ORestore snap) ->
  forall n cl' a, In (n, cl') (st_clusters (fst (step s o))) -> In a (cluster_proxies cl') ->
    (exists n0 cl, In (n0, cl) (st_clusters s) /\ In a (cluster_proxies cl))
    \/ (exists ra, In (a, ra) (st_proxies s) /\ is_free s (a, ra) = true /\ pr_cluster ra = None
                   /\ smem a (st_failed s) = false /\ amem a (st_failures s) = false).
Proof. exact never_allocate_failed. Qed.
Check C06_never_allocate_failed : forall s o, (forall snap, o <> ORestore snap) ->
  forall n cl' a, In (n, cl') (st_clusters (fst (step s o))) -> In a (cluster_proxies cl') ->
    (exists n0 cl, In (n0, cl) (st_clusters s) /\ In a (cluster_proxies cl))
    \/ (exists ra, In (a, ra) (st_proxies s) /\ is_free s (a, ra) = true /\ pr_cluster ra = None
                   /\ smem a (st_failed s) = false /\ amem a (st_failures s) = false).
Print Assumptions C06_never_allocate_failed.

(* the allocators themselves: chunk generation (unordered mode: alloc_one's validity test of the implementation's choice;
   ordered mode: free_proxies) and generate_new_free_proxy only return free proxies *)
Theorem C06_allocators_free : forall s,
  (forall k fi choices pairs a b, gen_chunks s k fi choices = Done pairs -> In (a, b) pairs ->
     (exists ra, In (a, ra) (st_proxies s) /\ is_free s (a, ra) = true)
     /\ (exists rb, In (b, rb) (st_proxies s) /\ is_free s (b, rb) = true))
  /\ (forall f ch r, generate_new_free_proxy s f ch = Done r ->
        exists rr, alookup r (st_proxies s) = Some rr /\ is_free s (r, rr) = true).
Proof. exact allocators_free. Qed.
Check C06_allocators_free : forall s,
  (forall k fi choices pairs a b, gen_chunks s k fi choices = Done pairs -> In (a, b) pairs ->
     (exists ra, In (a, ra) (st_proxies s) /\ is_free s (a, ra) = true)
     /\ (exists rb, In (b, rb) (st_proxies s) /\ is_free s (b, rb) = true))
  /\ (forall f ch r, generate_new_free_proxy s f ch = Done r ->
        exists rr, alookup r (st_proxies s) = Some rr /\ is_free s (r, rr) = true).
Print Assumptions C06_allocators_free.

(* ---- 6. the new migration epoch is newer.  epochs_le chunks E: every stored migration epoch is <= E.
   If that holds for some E < e then after takeover_master with epoch e every entry is either untouched or carries
   epoch e, strictly greater than its old epoch; and epochs_le holds for e afterwards. *)
Theorem C06_epoch_newer : forall cl f e E,
  epochs_le (cl_chunks cl) E -> E < e ->
  epochs_le (cl_chunks (takeover_master cl f e)) e
  /\ (forall j cj cj' p, nth_error (cl_chunks cl) j = Some cj ->
        nth_error (cl_chunks (takeover_master cl f e)) j = Some cj' ->
        Forall2 (fun m m' => m' = m \/ (mm_epoch (ms_meta m') = e /\ mm_epoch (ms_meta m) < mm_epoch (ms_meta m')))
                (ck_mig cj p) (ck_mig cj' p)).
Proof. exact takeover_epochs. Qed.
Check C06_epoch_newer : forall cl f e E,
  epochs_le (cl_chunks cl) E -> E < e ->
  epochs_le (cl_chunks (takeover_master cl f e)) e
  /\ (forall j cj cj' p, nth_error (cl_chunks cl) j = Some cj ->
        nth_error (cl_chunks (takeover_master cl f e)) j = Some cj' ->
        Forall2 (fun m m' => m' = m \/ (mm_epoch (ms_meta m') = e /\ mm_epoch (ms_meta m) < mm_epoch (ms_meta m')))
                (ck_mig cj p) (ck_mig cj' p)).
Print Assumptions C06_epoch_newer.

(* replace_failed_proxy runs takeover_master with epoch st_epoch s + 1 (the freshly bumped global epoch) *)
Theorem C06_epoch_newer_replace : forall s f ch fr name cl,
  alookup f (st_proxies s) = Some fr -> pr_cluster fr = Some name -> alookup name (st_clusters s) = Some cl ->
  exists cl', alookup name (st_clusters (fst (replace_failed_proxy s f ch))) = Some cl'
    /\ same_roles_migs cl' (takeover_master cl f (st_epoch s + 1))
    /\ st_epoch s + 1 <= st_epoch (fst (replace_failed_proxy s f ch)).
Proof. exact replace_reissue_epoch. Qed.
Check C06_epoch_newer_replace : forall s f ch fr name cl,
  alookup f (st_proxies s) = Some fr -> pr_cluster fr = Some name -> alookup name (st_clusters s) = Some cl ->
  exists cl', alookup name (st_clusters (fst (replace_failed_proxy s f ch))) = Some cl'
    /\ same_roles_migs cl' (takeover_master cl f (st_epoch s + 1))
    /\ st_epoch s + 1 <= st_epoch (fst (replace_failed_proxy s f ch)).
Print Assumptions C06_epoch_newer_replace.

(* the invariant `every migration epoch of every cluster <= global epoch` (store_epochs_le) is preserved by
   replace_failed_proxy; under it the re-issued epoch st_epoch s + 1 is strictly newer than every epoch present *)
Theorem C06_epoch_invariant_preserved : forall s f ch,
  store_epochs_le s -> store_epochs_le (fst (replace_failed_proxy s f ch)).
Proof. exact replace_preserves_epochs_le. Qed.
Check C06_epoch_invariant_preserved : forall s f ch,
  store_epochs_le s -> store_epochs_le (fst (replace_failed_proxy s f ch)).
Print Assumptions C06_epoch_invariant_preserved.

(* the invariant for EVERY operation: store_metas_le s (every migration entry of every stored cluster, including
   shadowed list entries, has mm_epoch <= st_epoch s; it implies store_epochs_le) is kept by step; a restored snapshot must
   satisfy it itself.  Hence it holds in every store reached from the empty store without ORestore, and there the epoch
   st_epoch s + 1 used by replace_failed_proxy is strictly newer than every migration epoch present. *)
Theorem C06_epoch_invariant_step : forall s o,
  store_metas_le s -> (forall snap, o = ORestore snap -> store_metas_le snap) -> store_metas_le (fst (step s o)).
Proof. exact step_keeps_metas_le. Qed.
Check C06_epoch_invariant_step : forall s o,
  store_metas_le s -> (forall snap, o = ORestore snap -> store_metas_le snap) -> store_metas_le (fst (step s o)).
Print Assumptions C06_epoch_invariant_step.

Theorem C06_epoch_invariant_reachable : forall ordered ops,
  (forall o snap, In o ops -> o <> ORestore snap) -> store_epochs_le (run (init_store ordered) ops).
Proof. exact reachable_epochs_le. Qed.
Check C06_epoch_invariant_reachable : forall ordered ops,
  (forall o snap, In o ops -> o <> ORestore snap) -> store_epochs_le (run (init_store ordered) ops).
Print Assumptions C06_epoch_invariant_reachable.

(* ---------- non-vacuity: concrete mid-migration stores (Proofs/BrokerFailoverEx.v) ----------
   ex_store  = run (init_store false) ex_ops: cluster 1, chunk 0 = proxies 5/4 with BOTH parts migrating out to
               chunk 1 = proxies 8/3 (migration epoch 13);
   ex_store1 = after OReplaceFailed 5 (replaced by 7): chunk 0 in role SecondChunkMaster;
   ex_store2 = after OReplaceFailed 4 as well (replaced by 6): SecondChunkMaster -> FirstChunkMaster, both parts move. *)
Example C06_structure_example :
  (exists ns, cluster_nodes (ex_cluster ex_store2) = Some ns /\ length ns = 8%nat)
  /\ map ck_role (cl_chunks (ex_cluster ex_store2)) = [RFirst; RNormal]
  /\ map chunk_is_migrating (cl_chunks (ex_cluster ex_store2)) = [true; true].
Proof. vm_compute. split; [eexists; split; reflexivity|split; reflexivity]. Qed.

(* hypotheses of C06_takeover_ownership / C06_takeover_view / C06_idempotent: proxy 5 is proxy 0 of chunk 0 of ex_store,
   proxy 3 is proxy 1 of chunk 1 (not the first chunk); the node view exists *)
Example C06_takeover_example :
  (exists c, first_at (cl_chunks (ex_cluster ex_store)) 5 0 c false)
  /\ (exists c, first_at (cl_chunks (ex_cluster ex_store)) 3 1 c true)
  /\ (exists ns, option_map (chunk_nodes (cl_chunks (ex_cluster ex_store))) (nth_error (cl_chunks (ex_cluster ex_store)) 0)
                 = Some (Some ns))
  /\ map ck_role (cl_chunks (takeover_master (ex_cluster ex_store) 5 14)) = [RSecond; RNormal].
Proof.
  split; [apply first_at_b_sound; vm_compute; reflexivity|].
  split; [apply first_at_b_sound; vm_compute; reflexivity|].
  split; [vm_compute; eexists; reflexivity|vm_compute; reflexivity].
Qed.

(* hypotheses of C06_reissue in the both-parts case: in ex_store1 chunk 0 has role SecondChunkMaster = new_role (negb true)
   and proxy 4 (position 1) fails; entries are well placed with twins; afterwards all four entries carry the new epoch *)
Example C06_reissue_example :
  (exists c, first_at (cl_chunks (ex_cluster ex_store1)) 4 0 c true /\ ck_role c = new_role (negb true)
             /\ ck_role c <> new_role true)
  /\ mig_wf (cl_chunks (ex_cluster ex_store1))
  /\ map (fun c => (map (fun m => mm_epoch (ms_meta m)) (ck_mig0 c), map (fun m => mm_epoch (ms_meta m)) (ck_mig1 c)))
         (cl_chunks (ex_cluster ex_store1)) = [([14], [13]); ([14], [13])]
  /\ map (fun c => (map (fun m => mm_epoch (ms_meta m)) (ck_mig0 c), map (fun m => mm_epoch (ms_meta m)) (ck_mig1 c)))
         (cl_chunks (takeover_master (ex_cluster ex_store1) 4 16)) = [([16], [16]); ([16], [16])].
Proof.
  split.
  { destruct (first_at_b_sound (cl_chunks (ex_cluster ex_store1)) 4 0 true eq_refl) as (c & Hc).
    exists c. split; [exact Hc|]. destruct Hc as (Hn & _). vm_compute in Hn. inversion Hn; subst c.
    split; [reflexivity|discriminate]. }
  split; [apply mig_wf_b_sound; vm_compute; reflexivity|].
  split; vm_compute; reflexivity.
Qed.

(* repeated failover calls on the concrete stores: a second call for proxy 5 changes no cluster *)
Example C06_idempotent_example :
  snd (step ex_store (OReplaceFailed 5 (Some 7))) = RRepl (Some 7)
  /\ st_clusters (run ex_store [OReplaceFailed 5 (Some 7); OReplaceFailed 5 (Some 1)]) = st_clusters ex_store1
  /\ takeover_master (takeover_master (ex_cluster ex_store) 5 14) 5 15 = takeover_master (ex_cluster ex_store) 5 14.
Proof. vm_compute. repeat split. Qed.

(* allocation: proxy 7 is newly placed by the failover and was free; the failed proxy 5 is refused as a replacement later *)
Example C06_never_allocate_failed_example :
  In 7 (cluster_proxies (ex_cluster ex_store1)) /\ ~ In 7 (cluster_proxies (ex_cluster ex_store))
  /\ (exists ra, alookup 7 (st_proxies ex_store) = Some ra /\ is_free ex_store (7, ra) = true)
  /\ smem 5 (st_failed ex_store1) = true
  /\ snd (step ex_store1 (OReplaceFailed 4 (Some 5))) = RErr E_BadChoice.
Proof.
  split; [vm_compute; tauto|].
  split; [vm_compute; intros H; repeat (destruct H as [H|H]; [discriminate|]); exact H|].
  split; [eexists; split; vm_compute; reflexivity|].
  split; vm_compute; reflexivity.
Qed.

(* the epoch invariant holds in the concrete stores and the failover uses a strictly newer epoch (13 -> 14 -> 16) *)
Example C06_epoch_example :
  store_epochs_le ex_store /\ store_epochs_le ex_store1
  /\ st_epoch ex_store = 13 /\ epochs_le (cl_chunks (ex_cluster ex_store)) 13
  /\ exists fr, alookup 5 (st_proxies ex_store) = Some fr /\ pr_cluster fr = Some 1.
Proof.
  split; [eapply store_epochs_le_single; vm_compute; reflexivity|].
  split; [eapply store_epochs_le_single; vm_compute; reflexivity|].
  split; [vm_compute; reflexivity|].
  split; [apply epochs_le_b_sound; vm_compute; reflexivity|].
  eexists; split; vm_compute; reflexivity.
Qed.

(* the operation history of the example stores contains no ORestore: C06_epoch_invariant_reachable applies to them *)
Example C06_epoch_invariant_example :
  (forall o snap, In o (ex_ops ++ [OReplaceFailed 5 (Some 7); OReplaceFailed 4 (Some 6)]) -> o <> ORestore snap)
  /\ run (init_store false) (ex_ops ++ [OReplaceFailed 5 (Some 7); OReplaceFailed 4 (Some 6)]) = ex_store2
  /\ store_metas_le (init_store false).
Proof.
  split; [|split; [vm_compute; reflexivity|apply init_metas_le]].
  intros o snap Hin. cbn [ex_ops app In] in Hin.
  repeat (destruct Hin as [<-|Hin]; [discriminate|]). destruct Hin.
Qed.
