(* C06 Failover promotes the replica without changing slot ownership.
   Statements only; proofs live in Proofs/BrokerFailover*.v.  Model: Model/Broker.v. *)
From UM Require Import Base.BytesDef Model.Ranges Model.Broker Proofs.BrokerBase
  Proofs.BrokerFailoverStruct Proofs.BrokerFailoverEx.

(* ---- 1. structure of the four nodes of a chunk, for every chunk in every role position ----
   peer_idx is the peer table 0<->3, 1<->2 of cluster_store_to_cluster. *)
Theorem C06_structure : forall chunks c ns, chunk_nodes chunks c = Some ns ->
  length ns = 4%nat
  /\ length (filter vn_master ns) = 2%nat
  /\ length (filter (fun n => negb (vn_master n)) ns) = 2%nat
  /\ (forall i n, nth_error ns i = Some n ->
        vn_addr n = ck_node c i /\ vn_proxy n = ck_proxy c (Nat.leb 2 i)
        /\ (vn_master n = false -> vn_slots n = [])
        /\ exists p, nth_error ns (peer_idx i) = Some p
             /\ Nat.leb 2 (peer_idx i) = negb (Nat.leb 2 i)
             /\ vn_master p = negb (vn_master n)
             /\ vn_peer_node n = vn_addr p /\ vn_peer_proxy n = vn_proxy p
             /\ vn_peer_node p = vn_addr n /\ vn_peer_proxy p = vn_proxy n)
  /\ (forall part, exists n sl,
        nth_error ns (part_node_index part (ck_role c)) = Some n
        /\ Nat.leb 2 (part_node_index part (ck_role c)) = part_proxy_index part (ck_role c)
        /\ vn_master n = true
        /\ vn_addr n = ck_node c (part_node_index part (ck_role c))
        /\ vn_proxy n = ck_proxy c (part_proxy_index part (ck_role c))
        /\ map_opt (to_slot_range chunks) (ck_mig c part) = Some sl
        /\ vn_slots n = (match ck_stable c part with Some r => [(r, VNone)] | None => [] end) ++ sl).
Proof. exact structure_of_chunk. Qed.
Check C06_structure : forall chunks c ns, chunk_nodes chunks c = Some ns ->
  length ns = 4%nat
  /\ length (filter vn_master ns) = 2%nat
  /\ length (filter (fun n => negb (vn_master n)) ns) = 2%nat
  /\ (forall i n, nth_error ns i = Some n ->
        vn_addr n = ck_node c i /\ vn_proxy n = ck_proxy c (Nat.leb 2 i)
        /\ (vn_master n = false -> vn_slots n = [])
        /\ exists p, nth_error ns (peer_idx i) = Some p
             /\ Nat.leb 2 (peer_idx i) = negb (Nat.leb 2 i)
             /\ vn_master p = negb (vn_master n)
             /\ vn_peer_node n = vn_addr p /\ vn_peer_proxy n = vn_proxy p
             /\ vn_peer_node p = vn_addr n /\ vn_peer_proxy p = vn_proxy n)
  /\ (forall part, exists n sl,
        nth_error ns (part_node_index part (ck_role c)) = Some n
        /\ Nat.leb 2 (part_node_index part (ck_role c)) = part_proxy_index part (ck_role c)
        /\ vn_master n = true
        /\ vn_addr n = ck_node c (part_node_index part (ck_role c))
        /\ vn_proxy n = ck_proxy c (part_proxy_index part (ck_role c))
        /\ map_opt (to_slot_range chunks) (ck_mig c part) = Some sl
        /\ vn_slots n = (match ck_stable c part with Some r => [(r, VNone)] | None => [] end) ++ sl).
Print Assumptions C06_structure.

(* the same for every chunk of a cluster view: the node list is the concatenation of per-chunk quadruples,
   each satisfying the statement above (chunk_structure is exactly the conclusion of C06_structure) *)
Theorem C06_structure_cluster : forall cl ns, cluster_nodes cl = Some ns ->
  exists per_chunk, ns = concat per_chunk
    /\ Forall2 (fun c cn => chunk_nodes (cl_chunks cl) c = Some cn /\ chunk_structure (cl_chunks cl) c cn)
               (cl_chunks cl) per_chunk.
Proof. exact structure_of_cluster. Qed.
Check C06_structure_cluster : forall cl ns, cluster_nodes cl = Some ns ->
  exists per_chunk, ns = concat per_chunk
    /\ Forall2 (fun c cn => chunk_nodes (cl_chunks cl) c = Some cn /\ chunk_structure (cl_chunks cl) c cn)
               (cl_chunks cl) per_chunk.
Print Assumptions C06_structure_cluster.

(* the addresses in a migration tag are those of the master nodes owning the source / destination part *)
Theorem C06_tag_names_owner : forall chunks m rl tag,
  to_slot_range chunks m = Some (rl, tag) ->
  exists sc dc meta,
    nth_error chunks (mm_src_idx (ms_meta m)) = Some sc
    /\ nth_error chunks (mm_dst_idx (ms_meta m)) = Some dc
    /\ rl = ms_ranges m
    /\ tag = (if ms_out m then VMigrating meta else VImporting meta)
    /\ vm_epoch meta = mm_epoch (ms_meta m)
    /\ (forall ns, chunk_nodes chunks sc = Some ns ->
          exists n, nth_error ns (part_node_index (mm_src_part (ms_meta m)) (ck_role sc)) = Some n
                    /\ vn_master n = true /\ vn_addr n = vm_src_node meta /\ vn_proxy n = vm_src_proxy meta)
    /\ (forall ns, chunk_nodes chunks dc = Some ns ->
          exists n, nth_error ns (part_node_index (mm_dst_part (ms_meta m)) (ck_role dc)) = Some n
                    /\ vn_master n = true /\ vn_addr n = vm_dst_node meta /\ vn_proxy n = vm_dst_proxy meta).
Proof. exact tag_names_owner. Qed.
Check C06_tag_names_owner : forall chunks m rl tag,
  to_slot_range chunks m = Some (rl, tag) ->
  exists sc dc meta,
    nth_error chunks (mm_src_idx (ms_meta m)) = Some sc
    /\ nth_error chunks (mm_dst_idx (ms_meta m)) = Some dc
    /\ rl = ms_ranges m
    /\ tag = (if ms_out m then VMigrating meta else VImporting meta)
    /\ vm_epoch meta = mm_epoch (ms_meta m)
    /\ (forall ns, chunk_nodes chunks sc = Some ns ->
          exists n, nth_error ns (part_node_index (mm_src_part (ms_meta m)) (ck_role sc)) = Some n
                    /\ vn_master n = true /\ vn_addr n = vm_src_node meta /\ vn_proxy n = vm_src_proxy meta)
    /\ (forall ns, chunk_nodes chunks dc = Some ns ->
          exists n, nth_error ns (part_node_index (mm_dst_part (ms_meta m)) (ck_role dc)) = Some n
                    /\ vn_master n = true /\ vn_addr n = vm_dst_node meta /\ vn_proxy n = vm_dst_proxy meta).
Print Assumptions C06_tag_names_owner.

(* non-vacuity: the mid-migration cluster after two failovers (chunk 0 in role FirstChunkMaster) has a node view *)
Example C06_structure_example :
  (exists ns, cluster_nodes (ex_cluster ex_store2) = Some ns /\ length ns = 8%nat)
  /\ map ck_role (cl_chunks (ex_cluster ex_store2)) = [RFirst; RNormal]
  /\ map chunk_is_migrating (cl_chunks (ex_cluster ex_store2)) = [true; true].
Proof. vm_compute. split; [eexists; split; reflexivity|split; reflexivity]. Qed.
