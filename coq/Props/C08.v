(* C08 Every request gets exactly one reply, in order, from its own backend exchange.
   Statements only; proofs live in Proofs/PipeProofs*.v.  `hoisted` selects the variant of handle_conn:
   false = the code as found (retry_times_opt recomputed in every poll), true = the repaired code (work/fix_C08.diff). *)
From Coq Require Import List Arith NArith.
From UM Require Import Base.BytesDef Model.Pipe Proofs.PipeProofs Proofs.PipeProofsOwn Proofs.PipeProofsRetry Proofs.PipeProofsSess.
Import ListNotations.
Local Open Scope nat_scope.

(* Both variants, every event sequence the model accepts, ids handed in at most once: no task is completed twice, only
   submitted tasks are completed, a completed task is no longer pending, and when nothing is pending any more every
   submitted task has exactly one completion. *)
Theorem C08_exactly_once : forall h evs s,
  run h init evs = Some s -> NoDup (submitted evs) ->
  NoDup (map fst (s_done s)) /\
  (forall t o, In (t, o) (s_done s) -> In t (submitted evs) /\ ~ In t (pending s)) /\
  (forall t, In t (pending s) -> In t (submitted evs)) /\
  (quiescent s = true -> forall t, In t (submitted evs) -> exactly_one_completion s t).
Proof. exact exactly_once. Qed.
Check C08_exactly_once : forall h evs s,
  run h init evs = Some s -> NoDup (submitted evs) ->
  NoDup (map fst (s_done s)) /\
  (forall t o, In (t, o) (s_done s) -> In t (submitted evs) /\ ~ In t (pending s)) /\
  (forall t, In t (pending s) -> In t (submitted evs)) /\
  (quiescent s = true -> forall t, In t (submitted evs) -> exactly_one_completion s t).
Print Assumptions C08_exactly_once.

(* Backend hypothesis (backend_ok answer): a reply is read on a connection only for a request already written on it, one
   reply per request, the k-th reply being answer(the k-th request).  Then a task completed with a backend reply r got
   r = answer t, r was the k-th reply read on a connection c on which t's request was the k-th request written, c is the
   last connection t was written on, and none of the three InvalidState branches of handle_conn was taken. *)
Theorem C08_own_exchange : forall (answer : tid -> reply) h evs s,
  run h init evs = Some s -> NoDup (submitted evs) -> backend_ok answer h init evs = true ->
  (forall t r, In (t, ORep r) (s_done s) ->
     r = answer t /\
     exists c k, In (c, k, t) (g_wlog (s_ghost s)) /\ In (c, k, r) (g_rlog (s_ghost s)) /\
                 forall c' k', In (c', k', t) (g_wlog (s_ghost s)) -> c' <= c) /\
  g_invalid (s_ghost s) = false.
Proof. exact own_exchange. Qed.
Check C08_own_exchange : forall (answer : tid -> reply) h evs s,
  run h init evs = Some s -> NoDup (submitted evs) -> backend_ok answer h init evs = true ->
  (forall t r, In (t, ORep r) (s_done s) ->
     r = answer t /\
     exists c k, In (c, k, t) (g_wlog (s_ghost s)) /\ In (c, k, r) (g_rlog (s_ghost s)) /\
                 forall c' k', In (c', k', t) (g_wlog (s_ghost s)) -> c' <= c) /\
  g_invalid (s_ghost s) = false.
Print Assumptions C08_own_exchange.

(* The session FIFO, for every order in which the reply futures resolve: the ids written to the client followed by the
   ids still queued are the request sequence; each written reply is the first resolution of its request; no request is
   answered twice; when every queued request is resolved one poll writes them all, in request order. *)
Theorem C08_client_order : forall evs,
  let s := sess_run sess_init evs in
  map fst (ss_out s) ++ ss_list s = sess_reqs evs /\
  (forall q o, In (q, o) (ss_out s) -> first_done q evs = Some o) /\
  (NoDup (sess_reqs evs) -> NoDup (map fst (ss_out s))) /\
  (forall s', s' = sess_step s SPoll ->
     (forall q, In q (ss_list s) -> lookup_tid q (ss_ready s) <> None) -> ss_list s' = [] /\
     map fst (ss_out s') = sess_reqs evs).
Proof. exact client_order. Qed.
Check C08_client_order : forall evs,
  let s := sess_run sess_init evs in
  map fst (ss_out s) ++ ss_list s = sess_reqs evs /\
  (forall q o, In (q, o) (ss_out s) -> first_done q evs = Some o) /\
  (NoDup (sess_reqs evs) -> NoDup (map fst (ss_out s))) /\
  (forall s', s' = sess_step s SPoll ->
     (forall q, In q (ss_list s) -> lookup_tid q (ss_ready s) <> None) -> ss_list s' = [] /\
     map fst (ss_out s') = sess_reqs evs).
Print Assumptions C08_client_order.

(* The repaired code (hoisted = true): a pending task has been part of at most MAX_BACKEND_RETRY failed connections; a
   task that was part of MAX_BACKEND_RETRY + 1 failed connections has been answered with an error and is not pending. *)
Theorem C08_failure_is_error : forall evs s,
  run true init evs = Some s -> NoDup (submitted evs) ->
  (forall t, In t (pending s) -> count_tid t (g_fails (s_ghost s)) <= MAX_BACKEND_RETRY) /\
  (forall t, MAX_BACKEND_RETRY < count_tid t (g_fails (s_ghost s)) ->
     exists o, In (t, o) (s_done s) /\ is_error o = true /\ ~ In t (pending s)).
Proof. exact failure_is_error_hoisted. Qed.
Check C08_failure_is_error : forall evs s,
  run true init evs = Some s -> NoDup (submitted evs) ->
  (forall t, In t (pending s) -> count_tid t (g_fails (s_ghost s)) <= MAX_BACKEND_RETRY) /\
  (forall t, MAX_BACKEND_RETRY < count_tid t (g_fails (s_ghost s)) ->
     exists o, In (t, o) (s_done s) /\ is_error o = true /\ ~ In t (pending s)).
Print Assumptions C08_failure_is_error.

(* Both variants: when the backend cannot be connected the tasks waiting for a retry are cancelled, a task received
   during the failed window and a task handed to a node marked failed are answered with an error reply. *)
Theorem C08_connect_failure_is_error : forall h s s',
  (step h s ConnFail = Some s' ->
     s_retry s' = None /\ forall t, In t (retry_tasks (s_retry s)) -> In (t, OCanceled) (s_done s')) /\
  (forall t, s_mode s = MFailedWait -> step h s (Arrive t) = Some s' -> In (t, OConnectFailed) (s_done s')) /\
  (forall t, s_conn_failed s = true -> step h s (Submit t) = Some s' -> In (t, ORefused) (s_done s')).
Proof. exact connect_failure_is_error. Qed.
Check C08_connect_failure_is_error : forall h s s',
  (step h s ConnFail = Some s' ->
     s_retry s' = None /\ forall t, In t (retry_tasks (s_retry s)) -> In (t, OCanceled) (s_done s')) /\
  (forall t, s_mode s = MFailedWait -> step h s (Arrive t) = Some s' -> In (t, OConnectFailed) (s_done s')) /\
  (forall t, s_conn_failed s = true -> step h s (Submit t) = Some s' -> In (t, ORefused) (s_done s')).
Print Assumptions C08_connect_failure_is_error.

(* The code as found (hoisted = false) REFUTES the bound (candidate defect 12): for every n the backend that accepts,
   lets the first poll pass and then closes, n + 1 times, leaves the task pending after n + 1 failed connections with no
   completion at all. *)
Theorem C08_failure_is_error_refuted_as_found : forall n,
  exists s, run false init (defect12_trace n) = Some s /\ NoDup (submitted (defect12_trace n)) /\
            In 1%N (pending s) /\ count_tid 1%N (g_fails (s_ghost s)) = S n /\ s_done s = [].
Proof. exact failure_is_error_refuted_unhoisted. Qed.
Check C08_failure_is_error_refuted_as_found : forall n,
  exists s, run false init (defect12_trace n) = Some s /\ NoDup (submitted (defect12_trace n)) /\
            In 1%N (pending s) /\ count_tid 1%N (g_fails (s_ghost s)) = S n /\ s_done s = [].
Print Assumptions C08_failure_is_error_refuted_as_found.

(* ReqTask::set_result on a Multi task: every sub-task gets exactly one result, in order; n replies for n sub-tasks are
   zipped, any other shape gives every sub-task InnerError. *)
Theorem C08_multi_fanout : forall v res,
  map fst (req_set_result v res) = v /\
  (forall rs, res = MRMulti rs -> length rs = length v ->
     req_set_result v res = map (fun p => (fst p, SubRep (snd p))) (combine v rs)) /\
  (forall rs, res = MRMulti rs -> length rs <> length v ->
     forall t o, In (t, o) (req_set_result v res) -> o = SubInnerError).
Proof. exact req_set_result_fanout. Qed.
Check C08_multi_fanout : forall v res,
  map fst (req_set_result v res) = v /\
  (forall rs, res = MRMulti rs -> length rs = length v ->
     req_set_result v res = map (fun p => (fst p, SubRep (snd p))) (combine v rs)) /\
  (forall rs, res = MRMulti rs -> length rs <> length v ->
     forall t o, In (t, o) (req_set_result v res) -> o = SubInnerError).
Print Assumptions C08_multi_fanout.

(* non-vacuity: concrete runs satisfying the hypotheses (see also the Examples next to the lemmas in Proofs/) *)
Example C08_exactly_once_example :
  let evs := [Submit 1%N; Submit 2%N; ConnOk; Poll; Arrive 1%N; Arrive 2%N; WriteOk 1%N; WriteOk 2%N; Poll; Reply 11%N; Closed;
              ConnOk; Poll; WriteOk 2%N; Poll; Reply 22%N] in
  exists s, run true init evs = Some s /\ quiescent s = true /\
            s_done s = [(2%N, ORep 22%N); (1%N, ORep 11%N)] /\ NoDup (submitted evs).
Proof. eexists. split; [vm_compute; reflexivity |]. repeat split. repeat constructor; cbn; intuition discriminate. Qed.

Example C08_own_exchange_example :
  let answer := fun t : tid => (t * 10)%N in
  let evs := [Submit 1%N; Submit 2%N; Submit 3%N; ConnOk; Poll; Arrive 1%N; Arrive 2%N; Arrive 3%N;
              WriteOk 1%N; WriteOk 2%N; WriteOk 3%N; Poll; Reply 10%N; Closed;
              ConnOk; Poll; WriteOk 2%N; WriteOk 3%N; Poll; Reply 20%N; Reply 30%N] in
  backend_ok answer true init evs = true /\
  exists s, run true init evs = Some s /\ s_done s = [(3%N, ORep 30%N); (2%N, ORep 20%N); (1%N, ORep 10%N)].
Proof. cbv zeta. split; [vm_compute; reflexivity |]. eexists. split; [vm_compute; reflexivity | reflexivity]. Qed.

Example C08_failure_is_error_example :
  exists s, run true init (defect12_trace 3) = Some s /\ s_done s = [(1%N, OCmdBackend)] /\ pending s = [] /\
            count_tid 1%N (g_fails (s_ghost s)) = 4.
Proof. exact failure_is_error_example. Qed.
