(* C15 RESP encoding and incremental decoding are lossless.  Statements only; proofs live in Proofs/RespProofs{A,B,C,D}.v.
   The model (Model/Resp.v) mirrors src/protocol/{stateless,resp,encoder,packet,codec}.rs of the working tree with
   work/fix_C15.diff (CR LF strictness) and work/fix_C16_{1,2}.diff (capacity cap, nesting limit) applied. *)
From UM Require Import Base.BytesDef Base.Dec Base.RespT Model.Resp
  Proofs.RespProofsA Proofs.RespProofsB Proofs.RespProofsC Proofs.RespProofsD.

(* (1) round trip: every well-formed value (line payloads without LF, lengths below 2^63) nested at most
   MAX_ARRAY_NESTING = 128 arrays deep, followed by any bytes, decodes to itself and consumes exactly its encoding *)
Theorem C15_roundtrip : forall v rest, wf v = true -> (rdepth v <= MAX_ARRAY_NESTING)%nat ->
  decode (encode v ++ rest) = VOk v (length (encode v)).
Proof. exact roundtrip. Qed.
Check C15_roundtrip : forall v rest, wf v = true -> (rdepth v <= MAX_ARRAY_NESTING)%nat ->
  decode (encode v ++ rest) = VOk v (length (encode v)).
Print Assumptions C15_roundtrip.

(* (2) split invariance: feeding the chunks one read after the other (decode called until None after each read, an
   error ends the stream) yields the same packets, leftover and final status as feeding their concatenation at once *)
Theorem C15_split_invariant : forall chunks, feed_all [] chunks = feed_all [] [concat chunks].
Proof. exact split_invariant. Qed.
Check C15_split_invariant : forall chunks, feed_all [] chunks = feed_all [] [concat chunks].
Print Assumptions C15_split_invariant.

(* NotEnoughData consumes nothing; every other result of a decode call is final under extension of the buffer *)
Theorem C15_prefix_monotone : forall b m,
  (decode b = VNeed -> feed_all [] [b] = ([], b, StOk)) /\
  (forall v n, decode b = VOk v n -> decode (b ++ m) = VOk v n) /\
  (decode b = VInvalid -> decode (b ++ m) = VInvalid) /\
  (forall p rest, decode_indexed b = DSome p rest -> decode_indexed (b ++ m) = DSome p (rest ++ m)).
Proof.
  intros b m. split; [apply need_consumes_nothing|]. split; [intros v n; apply decode_ok_stable|].
  split; [apply decode_invalid_stable|]. intros p rest. apply decode_indexed_some_stable.
Qed.
Check C15_prefix_monotone : forall b m,
  (decode b = VNeed -> feed_all [] [b] = ([], b, StOk)) /\
  (forall v n, decode b = VOk v n -> decode (b ++ m) = VOk v n) /\
  (decode b = VInvalid -> decode (b ++ m) = VInvalid) /\
  (forall p rest, decode_indexed b = DSome p rest -> decode_indexed (b ++ m) = DSome p (rest ++ m)).
Print Assumptions C15_prefix_monotone.

(* (3) the bytes kept for the accepted packets are exactly the stream, in order: forwarding every packet (an Indexed
   packet re-encodes to its kept bytes) followed by the leftover reproduces the input; each packet's value is the
   value of its own bytes *)
Theorem C15_forward_unmodified : forall chunks ps l, feed_all [] chunks = (ps, l, StOk) ->
  concat (map (fun p => encode_packet (RPIndexed p)) ps) ++ l = concat chunks /\
  Forall (fun p => exists v, to_resp_vec p = Some v /\ gram v (pk_data p)) ps.
Proof. exact forward_unmodified. Qed.
Check C15_forward_unmodified : forall chunks ps l, feed_all [] chunks = (ps, l, StOk) ->
  concat (map (fun p => encode_packet (RPIndexed p)) ps) ++ l = concat chunks /\
  Forall (fun p => exists v, to_resp_vec p = Some v /\ gram v (pk_data p)) ps.
Print Assumptions C15_forward_unmodified.

(* (4) the hinted multi-packet decoder, from any decoder state (hint word, partial packets, current hint) and buffer:
   same outputs, final result, final state and leftover for every split of the byte stream *)
Theorem C15_multi_split_invariant : forall cs c d buf,
  mfeed_all d buf (c :: cs) = mfeed_all d buf (@cons bytes (concat (c :: cs)) nil).
Proof. exact mfeed_all_concat. Qed.
Check C15_multi_split_invariant : forall cs c d buf,
  mfeed_all d buf (c :: cs) = mfeed_all d buf (@cons bytes (concat (c :: cs)) nil).
Print Assumptions C15_multi_split_invariant.

(* (5) strictness: whatever a decode call accepts is, on exactly the consumed bytes, RESP text for the returned value
   (gram: lines end with CR LF and contain no LF, bulk payloads are followed by CR LF, lengths are what btoi accepts,
   any negative length is nil, arrays have exactly the declared number of elements) *)
Theorem C15_reject_non_resp : forall b v n, decode b = VOk v n -> (n <= length b)%nat /\ gram v (firstn n b).
Proof. exact decode_strict. Qed.
Check C15_reject_non_resp : forall b v n, decode b = VOk v n -> (n <= length b)%nat /\ gram v (firstn n b).
Print Assumptions C15_reject_non_resp.

(* no expect()/split_to panic, no UnexpectedErr, no exhausted model fuel - for every input, stream and split *)
Theorem C15_no_panic : forall b chunks ps l st,
  decode b <> VPanic /\ decode b <> VFuel /\
  (feed_all [] chunks = (ps, l, st) ->
     (st = StOk \/ st = StErr) /\ exists rest, concat chunks = concat (map pk_data ps) ++ rest).
Proof.
  intros b chunks ps l st. split; [apply decode_no_panic|]. split; [apply decode_no_panic|]. apply feed_all_total.
Qed.
Check C15_no_panic : forall b chunks ps l st,
  decode b <> VPanic /\ decode b <> VFuel /\
  (feed_all [] chunks = (ps, l, st) ->
     (st = StOk \/ st = StErr) /\ exists rest, concat chunks = concat (map pk_data ps) ++ rest).
Print Assumptions C15_no_panic.

Theorem C15_multi_no_panic : forall cs d buf os r d' b', mfeed_all d buf cs = (os, r, d', b') -> r = MNone \/ r = MErr.
Proof. exact mfeed_all_final. Qed.
Check C15_multi_no_panic : forall cs d buf os r d' b', mfeed_all d buf cs = (os, r, d', b') -> r = MNone \/ r = MErr.
Print Assumptions C15_multi_no_panic.

(* ---------- non-vacuity and witnesses ---------- *)

(* *2\r\n$2\r\na\n\r\n*1\r\n$-1\r\n followed by garbage: a nested value with LF inside a bulk payload *)
Example C15_roundtrip_example :
  let v := Arr [Bulk [97; 10]; Arr [BulkNil]; Simple [79; 75]; Integer [45; 55]; ArrNil; Error []; Bulk []] in
  wf v = true /\ (rdepth v <= MAX_ARRAY_NESTING)%nat /\
  decode (encode v ++ [1; 2; 3]) = VOk v (length (encode v)).
Proof. vm_compute. repeat split. repeat constructor. Qed.

(* a stream split inside a CR LF pair and inside a payload; the third packet is incomplete *)
Example C15_split_example :
  let s := encode (Simple [79; 75]) ++ encode (Arr [Bulk [1; 13; 10; 2]]) ++ [36; 51; 13; 10; 97] in
  feed_all [] [firstn 4 s; firstn 9 (skipn 4 s); skipn 13 s] = feed_all [] [s] /\
  exists p1 p2, feed_all [] [s] = ([p1; p2], [36; 51; 13; 10; 97], StOk).
Proof. vm_compute. split; [reflexivity|]. eexists. eexists. reflexivity. Qed.

Example C15_multi_example :
  let d := {| md_state := 4; md_buf := []; md_hint := None |} in    (* hint word 4 = Multi of 2 *)
  let s := encode (Simple [97]) ++ encode (Integer [49]) ++ encode (Simple [98]) in
  mfeed_all d [] [firstn 3 s; firstn 4 (skipn 3 s); skipn 7 s]
  = ([OMulti [Simple [97]; Integer [49]]], MNone, {| md_state := 0; md_buf := []; md_hint := None |}, encode (Simple [98])).
Proof. vm_compute. reflexivity. Qed.

(* the inputs that the unpatched parser accepted (see work/fix_C15.diff) are protocol errors now:
   "+OK\n" (was Simple "O"), "$2\r\nabXY" (was Bulk "ab" consuming XY), ":12\n" (was Integer "1") *)
Example C15_lenient_inputs_rejected :
  decode [43; 79; 75; 10] = VInvalid /\
  decode [36; 50; 13; 10; 97; 98; 88; 89] = VInvalid /\
  decode [58; 49; 50; 10] = VInvalid /\
  decode [36; 50; 13; 10; 97; 98; 88] = VNeed.
Proof. vm_compute. repeat split. Qed.

(* the nesting limit: 128 arrays deep is accepted, 129 is a protocol error *)
Fixpoint nest (k : nat) (v : resp) : resp := match k with O => v | S k' => Arr [nest k' v] end.
Example C15_nesting_limit :
  decode (encode (nest 128 (Simple [97]))) = VOk (nest 128 (Simple [97])) (length (encode (nest 128 (Simple [97])))) /\
  decode (encode (nest 129 (Simple [97]))) = VInvalid.
Proof. vm_compute. split; reflexivity. Qed.
