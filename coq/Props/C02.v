(* C02 Synced proxies route every key to the broker-designated master.  Statements only; proofs live in Proofs/RouteProofs*.v
   (model: Model/Route.v, on top of the served views of Model/Broker.v).
   ns is the node list of a cluster view (get_cluster_by_name under some migration limit).  Its hypotheses:
     partition_ok ns     the C01 statement (Proofs/BrokerPartDefs.v), proved for every reachable broker state by the broker group
     view_wfb ns = true  what the proxies' HashMaps / RangeMaps additionally rely on: tagged range lists are normalised
                         (RangeList::new), master node addresses are distinct, the peers of every proxy view have distinct proxy
                         addresses, a migration's source and destination proxy differ.  Evaluated as a monitor on every real view.
     phases_ok ph ns     every migration is in one of the eight phase pairs the handshake passes through (see phase_index), with the
                         barrier flag as scan_task.rs can set it.
   `path` = a chase that follows MOVED answers, possibly still in flight; every proxy holds install_ns ns p, which by
   C02_install_of_view is what the coordinator's sender makes it install from the broker's view of that proxy. *)
From UM Require Import Base.BytesDef Model.Ranges Model.Broker Model.Route
     Proofs.BrokerPartRanges Proofs.BrokerPartDefs Proofs.RouteProofs Proofs.RouteProofsDyn Proofs.RouteProofsGlue Proofs.RouteProofsEx
     Proofs.BrokerTotal Proofs.RouteProofsBroker.

(* every chase, from every proxy of the cluster, for every slot: at most one redirection for a slot that is not migrating and at most
   two for a migrating one (phases fixed during the chase); it ends with the command executed on the designated node, or parked in
   the blocking queue of an allowed node whose barrier is raised; it never ends in an error; a chase still in flight can go on *)
Theorem C02_route : forall ns ph s start tr,
  partition_ok ns -> view_wfb ns = true -> phases_ok ph ns = true -> s < SLOT_NUM -> In start (proxies_of ns) ->
  path ph (install_ns ns) s start tr ->
  (redirections tr <= if migrating_slot ns s then 2 else 1)%nat
  /\ exists p o, last_step tr = Some (p, o) /\ In p (proxies_of ns) /\
       match o with
       | Exec n => designated ph ns s = Some n
       | Queued n => node_blocked ph (install_ns ns p) n = true /\ In n (allowed_nodes ns s)
       | Moved q => In q (proxies_of ns) /\ route_step ph (install_ns ns q) s <> []
       | Err _ => False
       end.
Proof. exact route_correct. Qed.
Check C02_route : forall ns ph s start tr,
  partition_ok ns -> view_wfb ns = true -> phases_ok ph ns = true -> s < SLOT_NUM -> In start (proxies_of ns) ->
  path ph (install_ns ns) s start tr ->
  (redirections tr <= if migrating_slot ns s then 2 else 1)%nat
  /\ exists p o, last_step tr = Some (p, o) /\ In p (proxies_of ns) /\
       match o with
       | Exec n => designated ph ns s = Some n
       | Queued n => node_blocked ph (install_ns ns p) n = true /\ In n (allowed_nodes ns s)
       | Moved q => In q (proxies_of ns) /\ route_step ph (install_ns ns q) s <> []
       | Err _ => False
       end.
Print Assumptions C02_route.

(* no decision anywhere in any chase executes or parks the command on a node other than the stable owner or the source /
   destination node of the slot's migration; no decision is an error *)
Theorem C02_no_stray_exec : forall ns ph s start tr,
  partition_ok ns -> view_wfb ns = true -> phases_ok ph ns = true -> s < SLOT_NUM -> In start (proxies_of ns) ->
  path ph (install_ns ns) s start tr ->
  forall p o, In (p, o) tr ->
    match o with
    | Exec n | Queued n => In n (allowed_nodes ns s)
    | Moved q => In q (proxies_of ns)
    | Err _ => False
    end.
Proof. exact route_no_stray. Qed.
Check C02_no_stray_exec : forall ns ph s start tr,
  partition_ok ns -> view_wfb ns = true -> phases_ok ph ns = true -> s < SLOT_NUM -> In start (proxies_of ns) ->
  path ph (install_ns ns) s start tr ->
  forall p o, In (p, o) tr ->
    match o with
    | Exec n | Queued n => In n (allowed_nodes ns s)
    | Moved q => In q (proxies_of ns)
    | Err _ => False
    end.
Print Assumptions C02_no_stray_exec.

(* every proxy of the cluster answers something for every slot, whatever the phases (no panic, no empty table) *)
Theorem C02_progress : forall ns ph s p,
  partition_ok ns -> view_wfb ns = true -> s < SLOT_NUM -> In p (proxies_of ns) ->
  route_step ph (install_ns ns p) s <> [].
Proof. exact route_progress. Qed.
Check C02_progress : forall ns ph s p,
  partition_ok ns -> view_wfb ns = true -> s < SLOT_NUM -> In p (proxies_of ns) ->
  route_step ph (install_ns ns p) s <> [].
Print Assumptions C02_progress.

(* the same when the handshakes make progress DURING the chase: decision k is taken under phs[k], consecutive assignments never go
   backwards in the list of pairs.  At most three redirections for a migrating slot (reached: C02_dynamic_example), one otherwise;
   the last decision is correct with respect to the phases it was taken under *)
Theorem C02_route_dynamic : forall ns s start phs tr,
  partition_ok ns -> view_wfb ns = true -> s < SLOT_NUM -> In start (proxies_of ns) ->
  Forall (fun ph => phases_ok ph ns = true) phs -> chain phs ->
  dpath (install_ns ns) s phs start tr ->
  (redirections tr <= if migrating_slot ns s then 3 else 1)%nat
  /\ exists ph p o, last_ph phs = Some ph /\ last_step tr = Some (p, o) /\ In p (proxies_of ns) /\
       match o with
       | Exec n => designated ph ns s = Some n
       | Queued n => node_blocked ph (install_ns ns p) n = true /\ In n (allowed_nodes ns s)
       | Moved q => In q (proxies_of ns)
       | Err _ => False
       end.
Proof. exact route_dynamic. Qed.
Check C02_route_dynamic : forall ns s start phs tr,
  partition_ok ns -> view_wfb ns = true -> s < SLOT_NUM -> In start (proxies_of ns) ->
  Forall (fun ph => phases_ok ph ns = true) phs -> chain phs ->
  dpath (install_ns ns) s phs start tr ->
  (redirections tr <= if migrating_slot ns s then 3 else 1)%nat
  /\ exists ph p o, last_ph phs = Some ph /\ last_step tr = Some (p, o) /\ In p (proxies_of ns) /\
       match o with
       | Exec n => designated ph ns s = Some n
       | Queued n => node_blocked ph (install_ns ns p) n = true /\ In n (allowed_nodes ns s)
       | Moved q => In q (proxies_of ns)
       | Err _ => False
       end.
Print Assumptions C02_route_dynamic.

(* the tables of the theorems above are the ones a proxy really gets: its own broker view, masters only, both HashMaps *)
Theorem C02_install_of_view : forall lim st a v name vc,
  view_proxy lim st a = Some (Some v) -> vp_cluster v = Some name ->
  view_cluster lim st name = Some (Some vc) ->
  install v = install_ns (vc_nodes vc) a.
Proof. exact install_of_view. Qed.
Check C02_install_of_view : forall lim st a v name vc,
  view_proxy lim st a = Some (Some v) -> vp_cluster v = Some name ->
  view_cluster lim st name = Some (Some vc) ->
  install v = install_ns (vc_nodes vc) a.
Print Assumptions C02_install_of_view.

(* ---------- the same, stated directly about broker histories ----------
   reachable_any s (Proofs/BrokerTotal.v): s is the result of ANY sequence of broker operations from the empty store.
   installed s lim a: what proxy a holds after the coordinator delivered the broker's current view of a (view_proxy lim s a).
   No hypothesis about the views is left: partition_ok is C01 (Proofs/BrokerPartMain.v), view_wfb is derived in
   Proofs/RouteProofsBroker*.v from C01, the accounting invariant of C12 and the store invariant rinv proved there for every
   operation (node addresses of proxy a are 2a / 2a+1; every migration entry connects two different chunks and carries a range list
   that went through compact).  What remains is phases_ok: the property's own "consistent pair of migration phases". *)
Theorem C02_reachable_views : forall s lim name v,
  reachable_any s -> view_cluster lim s name = Some (Some v) ->
  partition_ok (vc_nodes v) /\ view_wfb (vc_nodes v) = true
  /\ forall a, In a (proxies_of (vc_nodes v)) -> installed s lim a = install_ns (vc_nodes v) a.
Proof.
  intros s lim name v Hr Hv. split; [exact (served_partition s Hr lim name v Hv)|].
  split; [exact (served_view_wf s Hr lim name v Hv)|exact (installed_eq s Hr lim name v Hv)].
Qed.
Check C02_reachable_views : forall s lim name v,
  reachable_any s -> view_cluster lim s name = Some (Some v) ->
  partition_ok (vc_nodes v) /\ view_wfb (vc_nodes v) = true
  /\ forall a, In a (proxies_of (vc_nodes v)) -> installed s lim a = install_ns (vc_nodes v) a.
Print Assumptions C02_reachable_views.

Theorem C02_reachable_route : forall s, reachable_any s -> forall lim name v, view_cluster lim s name = Some (Some v) ->
  forall ph sl start tr,
  phases_ok ph (vc_nodes v) = true -> sl < SLOT_NUM -> In start (proxies_of (vc_nodes v)) ->
  path ph (installed s lim) sl start tr ->
  ((redirections tr <= if migrating_slot (vc_nodes v) sl then 2 else 1)%nat
   /\ exists p o, last_step tr = Some (p, o) /\ In p (proxies_of (vc_nodes v)) /\
        match o with
        | Exec n => designated ph (vc_nodes v) sl = Some n
        | Queued n => node_blocked ph (installed s lim p) n = true /\ In n (allowed_nodes (vc_nodes v) sl)
        | Moved q => In q (proxies_of (vc_nodes v)) /\ route_step ph (installed s lim q) sl <> []
        | Err _ => False
        end)
  /\ (forall p o, In (p, o) tr ->
        match o with
        | Exec n | Queued n => In n (allowed_nodes (vc_nodes v) sl)
        | Moved q => In q (proxies_of (vc_nodes v))
        | Err _ => False
        end).
Proof. exact reachable_route_main. Qed.
Check C02_reachable_route : forall s, reachable_any s -> forall lim name v, view_cluster lim s name = Some (Some v) ->
  forall ph sl start tr,
  phases_ok ph (vc_nodes v) = true -> sl < SLOT_NUM -> In start (proxies_of (vc_nodes v)) ->
  path ph (installed s lim) sl start tr ->
  ((redirections tr <= if migrating_slot (vc_nodes v) sl then 2 else 1)%nat
   /\ exists p o, last_step tr = Some (p, o) /\ In p (proxies_of (vc_nodes v)) /\
        match o with
        | Exec n => designated ph (vc_nodes v) sl = Some n
        | Queued n => node_blocked ph (installed s lim p) n = true /\ In n (allowed_nodes (vc_nodes v) sl)
        | Moved q => In q (proxies_of (vc_nodes v)) /\ route_step ph (installed s lim q) sl <> []
        | Err _ => False
        end)
  /\ (forall p o, In (p, o) tr ->
        match o with
        | Exec n | Queued n => In n (allowed_nodes (vc_nodes v) sl)
        | Moved q => In q (proxies_of (vc_nodes v))
        | Err _ => False
        end).
Print Assumptions C02_reachable_route.

Theorem C02_reachable_route_dynamic : forall s, reachable_any s -> forall lim name v, view_cluster lim s name = Some (Some v) ->
  forall sl start phs tr,
  sl < SLOT_NUM -> In start (proxies_of (vc_nodes v)) ->
  Forall (fun ph => phases_ok ph (vc_nodes v) = true) phs -> chain phs ->
  dpath (installed s lim) sl phs start tr ->
  (redirections tr <= if migrating_slot (vc_nodes v) sl then 3 else 1)%nat
  /\ exists ph p o, last_ph phs = Some ph /\ last_step tr = Some (p, o) /\ In p (proxies_of (vc_nodes v)) /\
       match o with
       | Exec n => designated ph (vc_nodes v) sl = Some n
       | Queued n => node_blocked ph (installed s lim p) n = true /\ In n (allowed_nodes (vc_nodes v) sl)
       | Moved q => In q (proxies_of (vc_nodes v))
       | Err _ => False
       end.
Proof. exact reachable_route_dynamic_main. Qed.
Check C02_reachable_route_dynamic : forall s, reachable_any s -> forall lim name v, view_cluster lim s name = Some (Some v) ->
  forall sl start phs tr,
  sl < SLOT_NUM -> In start (proxies_of (vc_nodes v)) ->
  Forall (fun ph => phases_ok ph (vc_nodes v) = true) phs -> chain phs ->
  dpath (installed s lim) sl phs start tr ->
  (redirections tr <= if migrating_slot (vc_nodes v) sl then 3 else 1)%nat
  /\ exists ph p o, last_ph phs = Some ph /\ last_step tr = Some (p, o) /\ In p (proxies_of (vc_nodes v)) /\
       match o with
       | Exec n => designated ph (vc_nodes v) sl = Some n
       | Queued n => node_blocked ph (installed s lim p) n = true /\ In n (allowed_nodes (vc_nodes v) sl)
       | Moved q => In q (proxies_of (vc_nodes v))
       | Err _ => False
       end.
Print Assumptions C02_reachable_route_dynamic.

(* non-vacuity: a concrete mid-migration view (two migrations in flight) satisfies the hypotheses, in all eight consistent phase
   pairs; concrete chases with two redirections / parked behind the barrier exist *)
Example C02_hypotheses_inhabited :
  partition_ok ns_ex /\ view_wfb ns_ex = true /\ In 6 (proxies_of ns_ex) /\ migrating_slot ns_ex 5000 = true
  /\ phases_ok (ph_all (mkPhase SPreCheck false DPreCheck)) ns_ex = true
  /\ phases_ok (ph_all (mkPhase SPreSwitch true DPreSwitch)) ns_ex = true
  /\ phases_ok (ph_all (mkPhase SSwitchCommitted false DSwitchCommitted)) ns_ex = true.
Proof. split; [exact ex_partition|]. split; [exact ex_wf|]. repeat split; vm_compute; auto 10. Qed.
Example C02_route_example :
  path (ph_all (mkPhase SPreCheck false DPreCheck)) (install_ns ns_ex) 5000 6 [(6, Moved 8); (8, Moved 2); (2, Exec 4)]
  /\ designated (ph_all (mkPhase SPreCheck false DPreCheck)) ns_ex 5000 = Some 4.
Proof. split; [exact ex_path_precheck|vm_compute; reflexivity]. Qed.
Example C02_barrier_example :
  path (ph_all (mkPhase SPreSwitch true DPreSwitch)) (install_ns ns_ex) 5000 6 [(6, Moved 2); (2, Queued 4)]
  /\ path (ph_all (mkPhase SPreSwitch true DPreSwitch)) (install_ns ns_ex) 5000 6 [(6, Moved 8); (8, Exec 16)]
  /\ designated (ph_all (mkPhase SPreSwitch true DPreSwitch)) ns_ex 5000 = Some 16.
Proof. exact ex_path_preswitch. Qed.
(* outside the consistent pairs the conclusions fail (both pairs need the max_blocking_time time-out of scan_task.rs to be reached) *)
Example C02_pingpong_outside_consistent_pairs :
  let ph := ph_all (mkPhase SFinalSwitch false DPreCheck) in
  phases_ok ph ns_ex = false /\
  path ph (install_ns ns_ex) 5000 2 [(2, Moved 8); (8, Moved 2); (2, Moved 8); (8, Moved 2); (2, Moved 8)].
Proof. exact ex_pingpong_outside_consistent_pairs. Qed.
Example C02_split_outside_consistent_pairs :
  let ph := ph_all (mkPhase SPreSwitch false DPreSwitch) in
  phases_ok ph ns_ex = false /\
  route_step ph (install_ns ns_ex 2) 5000 = [Exec 4] /\ route_step ph (install_ns ns_ex 8) 5000 = [Exec 16].
Proof. exact ex_split_outside_consistent_pairs. Qed.
Example C02_dynamic_example :
  dpath (install_ns ns_ex) 5000 [ph_pc; ph_pc; ph_scan; ph_scan] 6 [(6, Moved 8); (8, Moved 2); (2, Moved 8); (8, Exec 16)]
  /\ chain [ph_pc; ph_pc; ph_scan; ph_scan]
  /\ Forall (fun ph => phases_ok ph ns_ex = true) [ph_pc; ph_pc; ph_scan; ph_scan]
  /\ redirections [(6, Moved 8); (8, Moved 2); (2, Moved 8); (8, Exec 16)] = 3%nat
  /\ designated ph_scan ns_ex 5000 = Some 16.
Proof. exact ex_dynamic_three. Qed.
(* the example view is a served view of a reachable store, so the broker-level theorems apply to it *)
Example C02_reachable_example :
  reachable_any (run (init_store false) ex_ops)
  /\ exists v, view_cluster 0 (run (init_store false) ex_ops) 1 = Some (Some v) /\ vc_nodes v = ns_ex /\ In 6 (proxies_of (vc_nodes v)).
Proof.
  split.
  - apply run_reachable. intros snap Hin. unfold ex_ops in Hin. cbn [In] in Hin.
    repeat (destruct Hin as [Hin|Hin]; [discriminate|]). destruct Hin.
  - eexists. split; [vm_compute; reflexivity|]. split; [vm_compute; reflexivity|vm_compute; auto 10].
Qed.
