(* C12 Proxy resources are accounted consistently and chunks span two hosts.
   Statements only; proofs live in Proofs/BrokerAcct*.v.  Model: Model/Broker.v (step / run). *)
From UM Require Import Base.BytesDef Model.Ranges Model.Broker Proofs.BrokerBase Proofs.BrokerAcctBase Proofs.BrokerAcctAlloc
     Proofs.BrokerAcctInv Proofs.BrokerAcctOps Proofs.BrokerAcctThm Proofs.BrokerAcctLink Proofs.BrokerAcctRepl Proofs.BrokerAcctPanic Proofs.BrokerAcctEx.

(* reachable s := exists ordered ops, Forall restore_ok ops /\ s = run (init_store ordered) ops
   restore_ok (ORestore snap) := acct_inv snap   (any other operation: True)
   acct_inv s := keys of st_proxies / st_clusters strictly increasing
                 /\ every chunk of every stored cluster n has both proxies registered with pr_cluster = Some n and the chunk's
                    host / node addresses equal to the resource's, and the proxies of one cluster are pairwise distinct positions
                 /\ every proxy tagged Some n occurs in the chunks of the stored cluster n *)
Theorem C12_accounting : forall s, reachable s ->
  acct_inv s /\ NoDup (all_positions (st_clusters s)) /\ check_metadata s = true.
Proof. exact reachable_accounting. Qed.
Check C12_accounting : forall s, reachable s ->
  acct_inv s /\ NoDup (all_positions (st_clusters s)) /\ check_metadata s = true.
Print Assumptions C12_accounting.

(* the same with the invariant spelled out on the fields of the store *)
Theorem C12_accounting_explicit : forall ordered ops, Forall restore_ok ops ->
  let s := run (init_store ordered) ops in
  (forall name cl c, alookup name (st_clusters s) = Some cl -> In c (cl_chunks cl) ->
     (exists r, alookup (ck_proxy0 c) (st_proxies s) = Some r /\ pr_cluster r = Some name /\
                pr_host r = ck_host0 c /\ pr_n0 r = ck_n0 c /\ pr_n1 r = ck_n1 c) /\
     (exists r, alookup (ck_proxy1 c) (st_proxies s) = Some r /\ pr_cluster r = Some name /\
                pr_host r = ck_host1 c /\ pr_n0 r = ck_n2 c /\ pr_n1 r = ck_n3 c)) /\
  (forall a r name, alookup a (st_proxies s) = Some r -> pr_cluster r = Some name ->
     exists cl, alookup name (st_clusters s) = Some cl /\ In a (cluster_proxies cl)) /\
  NoDup (flat_map (fun nc => flat_map (fun c => [ck_proxy0 c; ck_proxy1 c]) (cl_chunks (snd nc))) (st_clusters s)) /\
  check_metadata s = true.
Proof. exact accounting_explicit. Qed.
Check C12_accounting_explicit : forall ordered ops, Forall restore_ok ops ->
  let s := run (init_store ordered) ops in
  (forall name cl c, alookup name (st_clusters s) = Some cl -> In c (cl_chunks cl) ->
     (exists r, alookup (ck_proxy0 c) (st_proxies s) = Some r /\ pr_cluster r = Some name /\
                pr_host r = ck_host0 c /\ pr_n0 r = ck_n0 c /\ pr_n1 r = ck_n1 c) /\
     (exists r, alookup (ck_proxy1 c) (st_proxies s) = Some r /\ pr_cluster r = Some name /\
                pr_host r = ck_host1 c /\ pr_n0 r = ck_n2 c /\ pr_n1 r = ck_n3 c)) /\
  (forall a r name, alookup a (st_proxies s) = Some r -> pr_cluster r = Some name ->
     exists cl, alookup name (st_clusters s) = Some cl /\ In a (cluster_proxies cl)) /\
  NoDup (flat_map (fun nc => flat_map (fun c => [ck_proxy0 c; ck_proxy1 c]) (cl_chunks (snd nc))) (st_clusters s)) /\
  check_metadata s = true.
Print Assumptions C12_accounting_explicit.

(* restored snapshots that are themselves reachable stores: no invariant in the hypothesis *)
Theorem C12_accounting_closed : forall s, reachable_closed s -> acct_inv s /\ check_metadata s = true.
Proof. exact reachable_closed_accounting. Qed.
Check C12_accounting_closed : forall s, reachable_closed s -> acct_inv s /\ check_metadata s = true.
Print Assumptions C12_accounting_closed.

(* cluster membership and the free pool are exact complements: every chunk position is a registered proxy; a registered proxy
   is untagged iff it occupies no chunk position; a free healthy proxy (free_proxies = get_free_proxies of query.rs) occupies none *)
Theorem C12_complement : forall s, reachable s ->
  (forall a, In a (all_positions (st_clusters s)) -> amem a (st_proxies s) = true) /\
  (forall a r, alookup a (st_proxies s) = Some r -> (pr_cluster r = None <-> ~ In a (all_positions (st_clusters s)))) /\
  (forall e, In e (free_proxies s) -> ~ In (fst e) (all_positions (st_clusters s))).
Proof. exact reachable_complement. Qed.
Check C12_complement : forall s, reachable s ->
  (forall a, In a (all_positions (st_clusters s)) -> amem a (st_proxies s) = true) /\
  (forall a r, alookup a (st_proxies s) = Some r -> (pr_cluster r = None <-> ~ In a (all_positions (st_clusters s)))) /\
  (forall e, In e (free_proxies s) -> ~ In (fst e) (all_positions (st_clusters s))).
Print Assumptions C12_complement.

(* A refused (or panicking) allocation request leaves the whole store unchanged.
   is_allocation o := o is OAddCluster / OAutoAddNodes / OAutoScaleUp.
   Not covered on purpose: OMigrateSlots / OScaleDown bump the global epoch before they fail (the code does the same),
   OAutoChange releases the free chunks of the cluster before the scale-up can be refused. *)
Theorem C12_refusal_atomic : forall s o s' x, is_allocation o -> step s o = (s', x) -> x <> ROk -> s' = s.
Proof. exact refusal_atomic. Qed.
Check C12_refusal_atomic : forall s o s' x, is_allocation o -> step s o = (s', x) -> x <> ROk -> s' = s.
Print Assumptions C12_refusal_atomic.

(* Host-aware allocator (st_ordered = false): for EVERY oracle choice list the model accepts, the chunks appended by a
   successful cluster creation / scale-out have their two halves on different hosts.
   new_chunks_two_hosts s s' name := exists cl' new, alookup name (st_clusters s') = Some cl' /\
      cl_chunks cl' = (chunks of name in s, [] if absent) ++ new /\ (forall c, In c new -> ck_host0 c <> ck_host1 c) /\
      every other cluster is unchanged. *)
Theorem C12_two_hosts : forall s o s', st_ordered s = false -> step s o = (s', ROk) ->
  match o with
  | OAddCluster name _ _ _ | OAutoAddNodes name _ _ | OAutoScaleUp name _ _ => new_chunks_two_hosts s s' name
  | _ => True
  end.
Proof. exact two_hosts. Qed.
Check C12_two_hosts : forall s o s', st_ordered s = false -> step s o = (s', ROk) ->
  match o with
  | OAddCluster name _ _ _ | OAutoAddNodes name _ _ | OAutoScaleUp name _ _ => new_chunks_two_hosts s s' name
  | _ => True
  end.
Print Assumptions C12_two_hosts.

(* scale-out through the node-number API (free chunks are released first, then auto_scale_up_nodes runs) *)
Theorem C12_two_hosts_autochange : forall s name k ch s',
  st_ordered s = false -> step s (OAutoChange name k ch) = (s', RScale ScaleOut) ->
  new_chunks_two_hosts (fst (auto_delete_free_nodes s name)) s' name.
Proof. exact two_hosts_autochange. Qed.
Check C12_two_hosts_autochange : forall s name k ch s',
  st_ordered s = false -> step s (OAutoChange name k ch) = (s', RScale ScaleOut) ->
  new_chunks_two_hosts (fst (auto_delete_free_nodes s name)) s' name.
Print Assumptions C12_two_hosts_autochange.

(* Replacement of a failed proxy (host-aware mode).  If replace_failed_proxy s f choice succeeds with replacement r then r is a
   registered, free, healthy proxy (is_free: untagged, not in st_failed, no failure report) different from f, and:
   whenever the surviving partner of f is on host ph (partner_host = host recorded for the other half of the stored chunk
   holding f, see partner_host_sound) and SOME host h <> ph has a free healthy proxy
   (0 < cnt_of (host_counts (free_proxies s)) h), the replacement is NOT on ph.
   "Has a free healthy proxy" suffices: by link_entry the link table has an entry between any two distinct hosts of which one
   has an untagged proxy, so every such host is a candidate of generate_new_free_proxy; host_rank orders
   other hosts < f's own host < partner's host and the model accepts only a choice of minimal rank. *)
Theorem C12_replacement_host : forall s f choice s' r,
  acct_inv s -> replace_failed_proxy s f choice = (s', Done (Some r)) ->
  exists fr name rr,
    alookup f (st_proxies s) = Some fr /\ pr_cluster fr = Some name /\ st_ordered s = false /\
    alookup r (st_proxies s) = Some rr /\ is_free s (r, rr) = true /\ r <> f /\
    forall ph, partner_host (st_clusters s) f = Some ph ->
               (exists h, h <> ph /\ 0 < cnt_of (host_counts (free_proxies s)) h) ->
               pr_host rr <> ph.
Proof. exact replacement_host. Qed.
Check C12_replacement_host : forall s f choice s' r,
  acct_inv s -> replace_failed_proxy s f choice = (s', Done (Some r)) ->
  exists fr name rr,
    alookup f (st_proxies s) = Some fr /\ pr_cluster fr = Some name /\ st_ordered s = false /\
    alookup r (st_proxies s) = Some rr /\ is_free s (r, rr) = true /\ r <> f /\
    forall ph, partner_host (st_clusters s) f = Some ph ->
               (exists h, h <> ph /\ 0 < cnt_of (host_counts (free_proxies s)) h) ->
               pr_host rr <> ph.
Print Assumptions C12_replacement_host.

(* the same, phrased with the stored chunk c that holds f: ph is the recorded host of c's other half
   (under the invariant f occupies exactly one chunk position, so partner_host finds this chunk) *)
Theorem C12_replacement_host_chunk : forall s f choice s' r n cl c ph,
  acct_inv s -> replace_failed_proxy s f choice = (s', Done (Some r)) ->
  alookup n (st_clusters s) = Some cl -> In c (cl_chunks cl) ->
  ((ck_proxy0 c = f /\ ph = ck_host1 c) \/ (ck_proxy1 c = f /\ ph = ck_host0 c)) ->
  (exists h, h <> ph /\ 0 < cnt_of (host_counts (free_proxies s)) h) ->
  exists rr, alookup r (st_proxies s) = Some rr /\ is_free s (r, rr) = true /\ pr_host rr <> ph.
Proof. exact replacement_host_chunk. Qed.
Check C12_replacement_host_chunk : forall s f choice s' r n cl c ph,
  acct_inv s -> replace_failed_proxy s f choice = (s', Done (Some r)) ->
  alookup n (st_clusters s) = Some cl -> In c (cl_chunks cl) ->
  ((ck_proxy0 c = f /\ ph = ck_host1 c) \/ (ck_proxy1 c = f /\ ph = ck_host0 c)) ->
  (exists h, h <> ph /\ 0 < cnt_of (host_counts (free_proxies s)) h) ->
  exists rr, alookup r (st_proxies s) = Some rr /\ is_free s (r, rr) = true /\ pr_host rr <> ph.
Print Assumptions C12_replacement_host_chunk.

(* meaning of partner_host *)
Theorem C12_partner_host_sound : forall cs f ph, partner_host cs f = Some ph ->
  exists n cl c, In (n, cl) cs /\ In c (cl_chunks cl) /\
                 ((ck_proxy0 c = f /\ ph = ck_host1 c) \/ (ck_proxy1 c = f /\ ph = ck_host0 c)).
Proof. exact partner_host_sound. Qed.
Check C12_partner_host_sound : forall cs f ph, partner_host cs f = Some ph ->
  exists n cl c, In (n, cl) cs /\ In c (cl_chunks cl) /\
                 ((ck_proxy0 c = f /\ ph = ck_host1 c) \/ (ck_proxy1 c = f /\ ph = ck_host0 c)).
Print Assumptions C12_partner_host_sound.

(* the link table has an entry between two distinct registered hosts as soon as one of them has an untagged proxy *)
Theorem C12_link_entry : forall s h1 h2,
  In h1 (all_hosts s) -> In h2 (all_hosts s) -> h1 <> h2 -> (In h1 (free_hosts s) \/ In h2 (free_hosts s)) ->
  lt_get (build_link_table s) h1 h2 <> None.
Proof. exact link_entry. Qed.
Check C12_link_entry : forall s h1 h2,
  In h1 (all_hosts s) -> In h2 (all_hosts s) -> h1 <> h2 -> (In h1 (free_hosts s) \/ In h2 (free_hosts s)) ->
  lt_get (build_link_table s) h1 h2 <> None.
Print Assumptions C12_link_entry.

(* No allocation request panics: for every store (no invariant needed), every request and EVERY oracle choice list, none of
   the `expect`s of allocate_chunk / generate_free_chunks (model outcome Panic) is reached by cluster creation or scale-out. *)
Theorem C12_no_panic : forall s o, is_allocation o -> snd (step s o) <> RPanic.
Proof. exact allocation_no_panic. Qed.
Check C12_no_panic : forall s o, is_allocation o -> snd (step s o) <> RPanic.
Print Assumptions C12_no_panic.

(* the allocator itself, for an even number of requested proxies (proxy_num = node_num / 2 with node_num mod 4 = 0) *)
Theorem C12_allocator_no_panic : forall s proxy_num choices,
  proxy_num mod 2 = 0 -> generate_free_chunks s proxy_num choices <> Panic.
Proof. exact generate_free_chunks_no_panic. Qed.
Check C12_allocator_no_panic : forall s proxy_num choices,
  proxy_num mod 2 = 0 -> generate_free_chunks s proxy_num choices <> Panic.
Print Assumptions C12_allocator_no_panic.

(* the progress invariant of the allocation loop (r + 1 pairs still to allocate):
   alloc_inv cnts links r := keys_sorted cnts /\ (any two distinct hosts of cnts have a link-table entry) /\
                             2 * counts_max cnts <= counts_sum cnts + 1 /\ 2 * r <= counts_sum cnts.
   It excludes every panic of one iteration, it is preserved by every accepted iteration, and the loop cannot be stuck. *)
Theorem C12_alloc_progress : forall s cnts links r,
  alloc_inv cnts links (S r) ->
  alloc_stuck cnts links = false /\
  forall taken a b,
    alloc_one s cnts links taken a b <> Panic /\
    forall cnts' links', alloc_one s cnts links taken a b = Done (cnts', links') -> alloc_inv cnts' links' r.
Proof. exact alloc_progress. Qed.
Check C12_alloc_progress : forall s cnts links r,
  alloc_inv cnts links (S r) ->
  alloc_stuck cnts links = false /\
  forall taken a b,
    alloc_one s cnts links taken a b <> Panic /\
    forall cnts' links', alloc_one s cnts links taken a b = Done (cnts', links') -> alloc_inv cnts' links' r.
Print Assumptions C12_alloc_progress.

(* what both allocators return: pairwise distinct, registered, untagged proxies
   (pairs_ok ps pairs := NoDup (flat_pairs pairs) /\ forall a, In a (flat_pairs pairs) -> exists r, alookup a ps = Some r /\ pr_cluster r = None).
   Hence the `expect("consume_proxy: get proxy resource")` / `expect("add_cluster: failed to get back proxy")` of update.rs, which the
   model represents by res_or_default and by the None branch of tag_proxies, are never reached. *)
Theorem C12_allocated_registered : forall s proxy_num first_index choices pairs,
  keys_sorted (st_proxies s) -> gen_chunks s proxy_num first_index choices = Done pairs -> pairs_ok (st_proxies s) pairs.
Proof. exact gen_chunks_ok. Qed.
Check C12_allocated_registered : forall s proxy_num first_index choices pairs,
  keys_sorted (st_proxies s) -> gen_chunks s proxy_num first_index choices = Done pairs -> pairs_ok (st_proxies s) pairs.
Print Assumptions C12_allocated_registered.

(* replacement of a failed proxy never panics on a store satisfying the accounting invariant *)
Theorem C12_replace_no_panic : forall s f choice, acct_inv s -> snd (replace_failed_proxy s f choice) <> Panic.
Proof. exact replace_failed_proxy_no_panic. Qed.
Check C12_replace_no_panic : forall s f choice, acct_inv s -> snd (replace_failed_proxy s f choice) <> Panic.
Print Assumptions C12_replace_no_panic.

(* ---------- examples: the hypotheses are satisfiable by concrete non-trivial stores ---------- *)

Example C12_accounting_example :
  reachable ex_store /\ map fst (st_clusters ex_store) = [1] /\
  all_positions (st_clusters ex_store) = [1; 3; 5; 2] /\
  map (fun e => (fst e, pr_cluster (snd e))) (st_proxies ex_store) =
    [(1, Some 1); (2, Some 1); (3, Some 1); (4, None); (5, Some 1); (6, None)].
Proof.
  split; [exists false, ex_ops; split; [repeat constructor|reflexivity]|]. vm_compute. repeat split.
Qed.


(* a refusal (not enough resources; unknown cluster) and a success on the same store *)
Example C12_refusal_example :
  snd (step ex_free (OAddCluster 1 16 1 [])) = RErr E_NoAvailableResource /\
  snd (step ex_free (OAutoAddNodes 7 4 [])) = RErr E_ClusterNotFound /\
  snd (step ex_store (OAutoScaleUp 1 16 [])) = RErr E_MigrationRunning.
Proof. vm_compute. repeat split. Qed.

Example C12_two_hosts_example :
  st_ordered ex_free = false /\ snd (step ex_free (OAddCluster 1 8 1 [(1, 3); (5, 2)])) = ROk /\
  match alookup 1 (st_clusters (fst (step ex_free (OAddCluster 1 8 1 [(1, 3); (5, 2)])))) with
  | Some cl => map (fun c => (ck_host0 c, ck_host1 c)) (cl_chunks cl) = [(10, 11); (12, 10)]
  | None => False
  end /\
  (* a same-host pair is not a choice the algorithm can make: the model rejects it *)
  snd (step ex_free (OAddCluster 1 4 1 [(1, 2)])) = RErr E_BadChoice.
Proof. vm_compute. repeat split. Qed.

(* proxy 1 (host 10) of the chunk (1 on host 10, 3 on host 11) fails; hosts 10, 11, 12 all have a free proxy;
   the replacement must be on host 12: the partner's host 11 and (second choice) the own host 10 are rejected *)
Example C12_replacement_example :
  reachable ex_one /\ partner_host (st_clusters ex_one) 1 = Some 11 /\
  host_counts (free_proxies ex_one) = [(10, 1); (11, 1); (12, 2)] /\
  snd (replace_failed_proxy ex_one 1 (Some 5)) = Done (Some 5) /\
  snd (replace_failed_proxy ex_one 1 (Some 4)) = Fail E_BadChoice /\
  snd (replace_failed_proxy ex_one 1 (Some 2)) = Fail E_BadChoice.
Proof.
  split; [exists false, ex_one_ops; split; [repeat constructor|reflexivity]|].
  vm_compute. repeat split.
Qed.

(* the allocator on 3 hosts x 2 free proxies: the invariant holds initially (S = 6, M = 2, 3 pairs), all six proxies are used;
   the evenness hypothesis of C12_allocator_no_panic is necessary: with ONE proxy on each of three hosts a request for 3
   proxies (which add_cluster / auto_add_nodes can never issue) gets stuck in the second iteration *)
Example C12_no_panic_example :
  trim_counts (host_counts (free_proxies ex_free)) = [(10, 2); (11, 2); (12, 2)] /\
  generate_free_chunks ex_free 6 [(1, 3); (5, 2); (4, 6)] = Done [(1, 3); (5, 2); (4, 6)] /\
  generate_free_chunks ex_three 2 [(1, 2)] = Done [(1, 2)] /\
  generate_free_chunks ex_three 3 [(1, 2)] = Panic.
Proof. vm_compute. repeat split. Qed.
Example C12_alloc_progress_example :
  alloc_inv (trim_counts (host_counts (free_proxies ex_free))) (build_link_table ex_free) 3.
Proof.
  split; [apply trim_counts_sorted, host_counts_sorted|]. split; [apply initial_covered|]. vm_compute. split; discriminate.
Qed.

Example C12_accounting_closed_example :
  reachable_closed ex_closed /\ map fst (free_proxies ex_closed) = [4] /\
  map (fun nc => cluster_proxies (snd nc)) (st_clusters ex_closed) = [[6; 3; 5; 2]].
Proof.
  split; [|vm_compute; split; reflexivity].
  assert (H : forall ops, forallb not_restore ops = true -> reachable_closed (run (init_store false) ops)).
  { intros ops Hn. apply reachable_closed_run; [apply rc_init|apply no_restore_closed; exact Hn]. }
  unfold ex_closed. apply (reachable_closed_run ex_closed_ops (init_store false) (rc_init false)).
  unfold ex_closed_ops.
  do 7 (apply Forall_cons; [intros snap E; discriminate E|]).
  apply Forall_cons; [intros snap E; apply restore_inj in E; subst snap; unfold ex_store; exact (H ex_ops eq_refl)|].
  exact (no_restore_closed [OReplaceFailed 1 (Some 6)] eq_refl).
Qed.
