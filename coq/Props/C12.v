(* C12 Proxy resources are accounted consistently and chunks span two hosts.
   Statements only; proofs live in Proofs/BrokerAcct*.v.  Model: Model/Broker.v (step / run). *)
From UM Require Import Base.BytesDef Model.Ranges Model.Broker Proofs.BrokerBase Proofs.BrokerAcctBase Proofs.BrokerAcctAlloc
     Proofs.BrokerAcctInv Proofs.BrokerAcctOps.

(* reachable s := exists ordered ops, Forall restore_ok ops /\ s = run (init_store ordered) ops
   restore_ok (ORestore snap) := acct_inv snap   (any other operation: True)
   acct_inv s := keys of st_proxies / st_clusters strictly increasing
                 /\ every chunk of every stored cluster n has both proxies registered with pr_cluster = Some n and the chunk's
                    host / node addresses equal to the resource's, and the proxies of one cluster are pairwise distinct positions
                 /\ every proxy tagged Some n occurs in the chunks of the stored cluster n *)
Theorem C12_accounting : forall s, reachable s ->
  acct_inv s /\ NoDup (all_positions (st_clusters s)) /\ check_metadata s = true.
Proof. exact reachable_accounting. Qed.
Check C12_accounting : forall s, reachable s ->
  acct_inv s /\ NoDup (all_positions (st_clusters s)) /\ check_metadata s = true.
Print Assumptions C12_accounting.

(* the same with the invariant spelled out on the fields of the store *)
Theorem C12_accounting_explicit : forall ordered ops, Forall restore_ok ops ->
  let s := run (init_store ordered) ops in
  (forall name cl c, alookup name (st_clusters s) = Some cl -> In c (cl_chunks cl) ->
     (exists r, alookup (ck_proxy0 c) (st_proxies s) = Some r /\ pr_cluster r = Some name /\
                pr_host r = ck_host0 c /\ pr_n0 r = ck_n0 c /\ pr_n1 r = ck_n1 c) /\
     (exists r, alookup (ck_proxy1 c) (st_proxies s) = Some r /\ pr_cluster r = Some name /\
                pr_host r = ck_host1 c /\ pr_n0 r = ck_n2 c /\ pr_n1 r = ck_n3 c)) /\
  (forall a r name, alookup a (st_proxies s) = Some r -> pr_cluster r = Some name ->
     exists cl, alookup name (st_clusters s) = Some cl /\ In a (cluster_proxies cl)) /\
  NoDup (flat_map (fun nc => flat_map (fun c => [ck_proxy0 c; ck_proxy1 c]) (cl_chunks (snd nc))) (st_clusters s)) /\
  check_metadata s = true.
Proof. exact accounting_explicit. Qed.
Check C12_accounting_explicit : forall ordered ops, Forall restore_ok ops ->
  let s := run (init_store ordered) ops in
  (forall name cl c, alookup name (st_clusters s) = Some cl -> In c (cl_chunks cl) ->
     (exists r, alookup (ck_proxy0 c) (st_proxies s) = Some r /\ pr_cluster r = Some name /\
                pr_host r = ck_host0 c /\ pr_n0 r = ck_n0 c /\ pr_n1 r = ck_n1 c) /\
     (exists r, alookup (ck_proxy1 c) (st_proxies s) = Some r /\ pr_cluster r = Some name /\
                pr_host r = ck_host1 c /\ pr_n0 r = ck_n2 c /\ pr_n1 r = ck_n3 c)) /\
  (forall a r name, alookup a (st_proxies s) = Some r -> pr_cluster r = Some name ->
     exists cl, alookup name (st_clusters s) = Some cl /\ In a (cluster_proxies cl)) /\
  NoDup (flat_map (fun nc => flat_map (fun c => [ck_proxy0 c; ck_proxy1 c]) (cl_chunks (snd nc))) (st_clusters s)) /\
  check_metadata s = true.
Print Assumptions C12_accounting_explicit.

(* restored snapshots that are themselves reachable stores: no invariant in the hypothesis *)
Theorem C12_accounting_closed : forall s, reachable_closed s -> acct_inv s /\ check_metadata s = true.
Proof. exact reachable_closed_accounting. Qed.
Check C12_accounting_closed : forall s, reachable_closed s -> acct_inv s /\ check_metadata s = true.
Print Assumptions C12_accounting_closed.

(* ---------- examples: the hypotheses are satisfiable by concrete non-trivial stores ---------- *)
Definition ex_ops : list op :=
  [OAddProxy 1 (Some 10) None; OAddProxy 2 (Some 10) None; OAddProxy 3 (Some 11) None; OAddProxy 4 (Some 11) None;
   OAddProxy 5 (Some 12) None; OAddProxy 6 (Some 12) None;
   OAddCluster 1 4 1 [(1, 3)]; OAutoAddNodes 1 4 [(5, 2)]; OMigrateSlots 1].
Definition ex_store : store := run (init_store false) ex_ops.

Example C12_accounting_example :
  reachable ex_store /\ map fst (st_clusters ex_store) = [1] /\
  all_positions (st_clusters ex_store) = [1; 3; 5; 2] /\
  map (fun e => (fst e, pr_cluster (snd e))) (st_proxies ex_store) =
    [(1, Some 1); (2, Some 1); (3, Some 1); (4, None); (5, Some 1); (6, None)].
Proof.
  split; [exists false, ex_ops; split; [repeat constructor|reflexivity]|]. vm_compute. repeat split.
Qed.
