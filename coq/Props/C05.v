(* C05 A proxy installs metadata iff it is strictly newer, atomically.  Statements only; proofs live in
   Proofs/EpochProofs.v (sequential, histories) and Proofs/EpochProofsConc.v (thread pools). *)
From UM Require Import Base.BytesDef Model.Epoch Proofs.EpochProofs Proofs.EpochProofsConc.

(* one delivery to a proxy with announce host h, from any state reached by sequential deliveries (seq_inv), of a
   message whose local nodes are all on h: accepted iff forced or strictly newer than the installed epoch of its kind;
   on accept the installed (epoch, content) of that kind are the message's and the other kind is untouched; on reject
   nothing changes and the reply is OLD_EPOCH *)
Theorem C05_seq_spec : forall h s m, seq_inv s -> msg_host_ok h m = true ->
  (accepts h s m <-> msg_force m = true \/ kind_epoch m s < msg_epoch m)
  /\ (accepts h s m -> installed_as s m (fst (apply_msg h s m)) /\ seq_inv (fst (apply_msg h s m)))
  /\ (~ accepts h s m -> fst (apply_msg h s m) = s /\ snd (apply_msg h s m) = OLD_EPOCH).
Proof. exact seq_spec. Qed.
Check C05_seq_spec : forall h s m, seq_inv s -> msg_host_ok h m = true ->
  (accepts h s m <-> msg_force m = true \/ kind_epoch m s < msg_epoch m)
  /\ (accepts h s m -> installed_as s m (fst (apply_msg h s m)) /\ seq_inv (fst (apply_msg h s m)))
  /\ (~ accepts h s m -> fst (apply_msg h s m) = s /\ snd (apply_msg h s m) = OLD_EPOCH).
Print Assumptions C05_seq_spec.

(* metadata naming a local node on another host (or an address without ':'): state unchanged, NOT_MY_META, whatever
   the epoch and flags *)
Theorem C05_host : forall h s m, msg_host_ok h m = false -> apply_msg h s m = (s, NOT_MY_META).
Proof. exact host_bad. Qed.
Check C05_host : forall h s m, msg_host_ok h m = false -> apply_msg h s m = (s, NOT_MY_META).
Print Assumptions C05_host.

(* every message list (any order, duplicates, stale replays, interleaved kinds): at each delivery an installed epoch
   goes down only at an accepted forced message of that kind (step_ok); what is installed at the end is (epoch,
   content) of the last accepted message of each kind, or the initial one; without an accepted forced message the
   epoch of a kind never ends below where it started.  Prefixes of ms are message lists too, so this holds after
   every delivery. *)
Theorem C05_history : forall h ms s0, seq_inv s0 ->
  Forall step_ok (trace h s0 ms)
  /\ cl_matches (last_ok_cluster h s0 ms None) s0 (fst (run_msgs h s0 ms))
  /\ rp_matches (last_ok_repl h s0 ms None) s0 (fst (run_msgs h s0 ms))
  /\ (~ Exists forced_ok_cluster (trace h s0 ms) -> cl_epoch s0 <= cl_epoch (fst (run_msgs h s0 ms)))
  /\ (~ Exists forced_ok_repl (trace h s0 ms) -> rp_epoch s0 <= rp_epoch (fst (run_msgs h s0 ms))).
Proof. exact history. Qed.
Check C05_history : forall h ms s0, seq_inv s0 ->
  Forall step_ok (trace h s0 ms)
  /\ cl_matches (last_ok_cluster h s0 ms None) s0 (fst (run_msgs h s0 ms))
  /\ rp_matches (last_ok_repl h s0 ms None) s0 (fst (run_msgs h s0 ms))
  /\ (~ Exists forced_ok_cluster (trace h s0 ms) -> cl_epoch s0 <= cl_epoch (fst (run_msgs h s0 ms)))
  /\ (~ Exists forced_ok_repl (trace h s0 ms) -> rp_epoch s0 <= rp_epoch (fst (run_msgs h s0 ms))).
Print Assumptions C05_history.

(* the replication roles installed by an accepted message are a function of the message alone, for every message
   outside the class "some (cluster, node address) is listed both as master and as replica" *)
Theorem C05_roles_of_message : forall old m, rp_wf m = true -> new_roles old m = roles_of m.
Proof. exact new_roles_wf. Qed.
Check C05_roles_of_message : forall old m, rp_wf m = true -> new_roles old m = roles_of m.
Print Assumptions C05_roles_of_message.

(* ... and inside that class they are not (witness, replayed on the real proxy by the check's corpus) *)
Theorem C05_roles_ill_formed_witness :
  rp_wf ill_msg = false /\
  new_roles [((ill_k, ill_a), (RMaster, 1))] ill_msg = [((ill_k, ill_a), (RMaster, 1))] /\
  roles_of ill_msg = [((ill_k, ill_a), (RReplica, 2))].
Proof. exact roles_depend_on_history_when_ill_formed. Qed.
Check C05_roles_ill_formed_witness :
  rp_wf ill_msg = false /\
  new_roles [((ill_k, ill_a), (RMaster, 1))] ill_msg = [((ill_k, ill_a), (RMaster, 1))] /\
  roles_of ill_msg = [((ill_k, ill_a), (RReplica, 2))].
Print Assumptions C05_roles_ill_formed_witness.

(* update_replicators called from any number of threads, any schedule (steps = reflexive-transitive closure of one
   atomic action of one thread of the pool): (1) an action changes the installed (epoch, roles) only by installing
   the message of a caller that is answered OK, and then the message is forced or its epoch is strictly above the
   installed one; (2) a caller rejected by the optimistic check is not forced and there is an epoch >= its own that
   was installed at some earlier time (or is the initial epoch), or a caller with an epoch >= its own that has stored
   its epoch and not returned yet.  (With a forced message in flight this is all that holds: see
   C05_forced_not_linearizable.) *)
Theorem C05_concurrent_repl : forall h e0 r ms g pool,
  steps h (g_init e0 r, start_pool ms) (g, pool) ->
  (forall g' pool', step h (g, pool) (g', pool') ->
     (g_epoch g' = g_epoch g /\ g_roles g' = g_roles g /\ g_hist g' = g_hist g)
     \/ (exists l1 t t' l2 snap, pool = l1 ++ t :: l2 /\ pool' = l1 ++ t' :: l2 /\
           t_pc t = PLock snap /\ t_pc t' = PDone R_OK /\ t_msg t' = t_msg t /\
           (t_force t = true \/ g_epoch g < t_epoch t) /\
           g_epoch g' = t_epoch t /\ g_roles g' = new_roles snap (t_msg t) /\
           (rp_wf (t_msg t) = true -> g_roles g' = roles_of (t_msg t)) /\
           g_hist g' = t_epoch t :: g_hist g))
  /\ (forall t g' t', In t pool -> tstep h g t = Some (g', t') -> t_pc t' = PDone R_OLD_EARLY ->
       t_pc t = PLoad /\ g' = g /\ t_force t = false /\ t_epoch t <= g_updating g /\
       ((exists e, In e (g_hist g) /\ t_epoch t <= e /\
                   (e = e0 \/ exists t1, In t1 pool /\ t_pc t1 = PDone R_OK /\ t_epoch t1 = e)) \/
        (exists t2, In t2 pool /\ stored t2 /\ t_epoch t <= t_epoch t2))).
Proof. exact concurrent_repl. Qed.
Check C05_concurrent_repl : forall h e0 r ms g pool,
  steps h (g_init e0 r, start_pool ms) (g, pool) ->
  (forall g' pool', step h (g, pool) (g', pool') ->
     (g_epoch g' = g_epoch g /\ g_roles g' = g_roles g /\ g_hist g' = g_hist g)
     \/ (exists l1 t t' l2 snap, pool = l1 ++ t :: l2 /\ pool' = l1 ++ t' :: l2 /\
           t_pc t = PLock snap /\ t_pc t' = PDone R_OK /\ t_msg t' = t_msg t /\
           (t_force t = true \/ g_epoch g < t_epoch t) /\
           g_epoch g' = t_epoch t /\ g_roles g' = new_roles snap (t_msg t) /\
           (rp_wf (t_msg t) = true -> g_roles g' = roles_of (t_msg t)) /\
           g_hist g' = t_epoch t :: g_hist g))
  /\ (forall t g' t', In t pool -> tstep h g t = Some (g', t') -> t_pc t' = PDone R_OLD_EARLY ->
       t_pc t = PLoad /\ g' = g /\ t_force t = false /\ t_epoch t <= g_updating g /\
       ((exists e, In e (g_hist g) /\ t_epoch t <= e /\
                   (e = e0 \/ exists t1, In t1 pool /\ t_pc t1 = PDone R_OK /\ t_epoch t1 = e)) \/
        (exists t2, In t2 pool /\ stored t2 /\ t_epoch t <= t_epoch t2))).
Print Assumptions C05_concurrent_repl.

(* pools without forced messages (the coordinator never sends FORCE): the installed epoch never goes below the initial
   one, and once every caller has returned it is an upper bound of the epochs of all callers that passed the host
   check and it is the initial epoch or the epoch of a caller answered OK: the newest message always wins *)
Theorem C05_concurrent_repl_noforce : forall h e0 r ms g pool,
  (forall m, In m ms -> flag_force (rm_flags m) = false) ->
  steps h (g_init e0 r, start_pool ms) (g, pool) ->
  e0 <= g_epoch g /\
  (all_done pool ->
     (forall t rr, In t pool -> t_pc t = PDone rr -> rr <> R_NOT_MY_META -> t_epoch t <= g_epoch g) /\
     (g_epoch g = e0 \/ exists t, In t pool /\ t_pc t = PDone R_OK /\ t_epoch t = g_epoch g)).
Proof. exact nf_quiescent_max. Qed.
Check C05_concurrent_repl_noforce : forall h e0 r ms g pool,
  (forall m, In m ms -> flag_force (rm_flags m) = false) ->
  steps h (g_init e0 r, start_pool ms) (g, pool) ->
  e0 <= g_epoch g /\
  (all_done pool ->
     (forall t rr, In t pool -> t_pc t = PDone rr -> rr <> R_NOT_MY_META -> t_epoch t <= g_epoch g) /\
     (g_epoch g = e0 \/ exists t, In t pool /\ t_pc t = PDone R_OK /\ t_epoch t = g_epoch g)).
Print Assumptions C05_concurrent_repl_noforce.

(* what is NOT true: with a forced lower-epoch message in flight the early OLD_EPOCH is not linearizable.  A (20),
   B (15) not forced, F (3) forced, installed epoch 10: A stores 20, B is rejected early and returns, then F is
   called and installs 3, then A installs 20.  B returned before F was called, so B precedes F in any
   linearization; the three such orders either end with epoch 3 or accept B. *)
Theorem C05_forced_not_linearizable :
  (let (g, pool) := run_sched nl_host (g_init 10 []) (start_pool [nl_A; nl_B; nl_F]) nl_sched in
   map t_pc pool = [PDone R_OK; PDone R_OLD_EARLY; PDone R_OK] /\ g_epoch g = 20 /\ g_hist g = [20; 3; 10])
  /\ seq_outcome [nl_A; nl_B; nl_F] = ([(20, OK); (15, OLD_EPOCH); (3, OK)], 3)
  /\ seq_outcome [nl_B; nl_A; nl_F] = ([(15, OK); (20, OK); (3, OK)], 3)
  /\ seq_outcome [nl_B; nl_F; nl_A] = ([(15, OK); (3, OK); (20, OK)], 20).
Proof. exact forced_in_flight_not_linearizable. Qed.
Check C05_forced_not_linearizable :
  (let (g, pool) := run_sched nl_host (g_init 10 []) (start_pool [nl_A; nl_B; nl_F]) nl_sched in
   map t_pc pool = [PDone R_OK; PDone R_OLD_EARLY; PDone R_OK] /\ g_epoch g = 20 /\ g_hist g = [20; 3; 10])
  /\ seq_outcome [nl_A; nl_B; nl_F] = ([(20, OK); (15, OLD_EPOCH); (3, OK)], 3)
  /\ seq_outcome [nl_B; nl_A; nl_F] = ([(15, OK); (20, OK); (3, OK)], 3)
  /\ seq_outcome [nl_B; nl_F; nl_A] = ([(15, OK); (3, OK); (20, OK)], 20).
Print Assumptions C05_forced_not_linearizable.

(* the small-step model run by one caller alone is the sequential set_repl (ties the thread model to the function the
   correspondence check compares with the real proxy), and every run of the executable scheduler is an execution of
   the step relation the invariants are proved for *)
Theorem C05_solo_refines : forall h s m hist,
  exists g' r,
    run_sched h (g_of s hist) (start_pool [m]) solo_sched = (g', [{| t_msg := m; t_pc := PDone r |}])
    /\ reply_of_rreply r = snd (set_repl h s m)
    /\ g_updating g' = rp_updating (fst (set_repl h s m))
    /\ g_epoch g' = rp_epoch (fst (set_repl h s m))
    /\ g_roles g' = rp_roles (fst (set_repl h s m))
    /\ g_locked g' = false.
Proof. exact solo_is_set_repl. Qed.
Check C05_solo_refines : forall h s m hist,
  exists g' r,
    run_sched h (g_of s hist) (start_pool [m]) solo_sched = (g', [{| t_msg := m; t_pc := PDone r |}])
    /\ reply_of_rreply r = snd (set_repl h s m)
    /\ g_updating g' = rp_updating (fst (set_repl h s m))
    /\ g_epoch g' = rp_epoch (fst (set_repl h s m))
    /\ g_roles g' = rp_roles (fst (set_repl h s m))
    /\ g_locked g' = false.
Print Assumptions C05_solo_refines.

Theorem C05_sched_is_execution : forall h sched g pool, steps h (g, pool) (run_sched h g pool sched).
Proof. exact run_sched_steps. Qed.
Check C05_sched_is_execution : forall h sched g pool, steps h (g, pool) (run_sched h g pool sched).
Print Assumptions C05_sched_is_execution.

(* set_meta from any number of threads, any schedule: the installed (meta, its epoch) is the result of delivering the
   messages one at a time in the order in which they took the mutex; the reported epoch equals the epoch of the
   installed meta whenever the mutex is free; a caller between its two stores holds the mutex, the meta is already
   its own and its epoch is the one about to be stored; at most one caller is in that window (cinv) *)
Theorem C05_cluster_atomic : forall h s0 ms y, csteps h (cg_init s0, cstart_pool ms) y -> cinv h s0 y.
Proof. exact cluster_atomic. Qed.
Check C05_cluster_atomic : forall h s0 ms y, csteps h (cg_init s0, cstart_pool ms) y -> cinv h s0 y.
Print Assumptions C05_cluster_atomic.

(* non-vacuity *)
Example C05_seq_spec_example :
  seq_inv ps_init /\
  msg_host_ok nl_host (MRepl nl_A) = true /\ accepts nl_host ps_init (MRepl nl_A) /\
  rp_roles (fst (apply_msg nl_host ps_init (MRepl nl_A))) = [(([99], [104; 58; 49]), (RMaster, 0))] /\
  ~ accepts nl_host (fst (apply_msg nl_host ps_init (MRepl nl_A))) (MRepl nl_B) /\
  accepts nl_host (fst (apply_msg nl_host ps_init (MRepl nl_A))) (MRepl nl_F).
Proof. unfold accepts. vm_compute. repeat split; try discriminate. Qed.
Example C05_host_example :
  msg_host_ok [120] (MRepl nl_A) = false /\
  msg_host_ok nl_host (MCluster {| cm_epoch := 9; cm_flags := FORCE; cm_locals := [[104; 58; 49]; [110; 111]];
                                   cm_content := 1; cm_route := [104; 58; 49] |}) = false.
Proof. vm_compute. split; reflexivity. Qed.
Example C05_history_example :
  Exists forced_ok_repl (trace nl_host ps_init [MRepl nl_A; MRepl nl_B; MRepl nl_F]) /\
  rp_epoch (fst (run_msgs nl_host ps_init [MRepl nl_A; MRepl nl_B; MRepl nl_F])) = 3 /\
  last_ok_repl nl_host ps_init [MRepl nl_A; MRepl nl_B; MRepl nl_F] None = Some nl_F.
Proof.
  split; [|vm_compute; split; reflexivity].
  right. right. left. exists nl_F. vm_compute. repeat split.
Qed.
Example C05_concurrent_repl_example :
  exists g pool t g' t',
    steps nl_host (g_init 10 [], start_pool [nl_A; nl_B; nl_F]) (g, pool) /\ In t pool /\
    tstep nl_host g t = Some (g', t') /\ t_pc t' = PDone R_OLD_EARLY /\ t_epoch t = 15 /\ g_updating g = 20.
Proof. exact concurrent_repl_example. Qed.
Example C05_concurrent_repl_noforce_example :
  (forall m, In m [nl_A; nl_B] -> flag_force (rm_flags m) = false) /\
  exists g pool, steps nl_host (g_init 10 [], start_pool [nl_A; nl_B]) (g, pool) /\ all_done pool /\ g_epoch g = 20 /\
                 map t_pc pool = [PDone R_OK; PDone R_OLD_LATE].
Proof. exact noforce_example. Qed.
Example C05_cluster_atomic_example :
  exists y, csteps nl_host (cg_init ps_init, cstart_pool [ca_msg]) y /\
            cg_locked (fst y) = true /\ cg_epoch (fst y) = 0 /\ cg_meta (fst y) = Some (3, [104; 58; 49]) /\
            cg_meta_epoch (fst y) = 7.
Proof. exact cluster_atomic_example. Qed.
