(* C19 Migration preserves key expiry.  Statements only; proofs live in Proofs/TtlProofs.v *)
From UM Require Import Base.BytesDef Base.Dec Base.RespT Model.Ttl Proofs.TtlProofs.

(* a persistent key (PTTL -1) is restored with ttl 0 = persistent *)
Theorem C19_persistent : ttl_restore (Z_to_dec (-1)) = to_dec 0.
Proof. exact ttl_persistent. Qed.
Check C19_persistent : ttl_restore (Z_to_dec (-1)) = to_dec 0.
Print Assumptions C19_persistent.

(* every remaining time-to-live Redis can report (0 .. 2^63-1, canonical decimal) yields a RESTORE ttl that
   parses as a strictly positive number no greater than max 1 n: never persistent, never longer *)
Theorem C19_positive : forall n, (0 <= n < 9223372036854775808)%Z ->
  exists t, btoi_i64 (ttl_restore (Z_to_dec n)) = Some t /\ (0 < t)%Z /\ (t <= Z.max 1 n)%Z.
Proof. exact ttl_positive. Qed.
Check C19_positive : forall n, (0 <= n < 9223372036854775808)%Z ->
  exists t, btoi_i64 (ttl_restore (Z_to_dec n)) = Some t /\ (0 < t)%Z /\ (t <= Z.max 1 n)%Z.
Print Assumptions C19_positive.

(* a key that no longer exists (PTTL -2 or nil DUMP) is transferred on no path *)
Theorem C19_not_found_skipped : forall key pr dr,
  (pr = Integer PTTL_KEY_NOT_FOUND \/ dr = BulkNil) ->
  restore_cmd key (scan_entry pr dr) = None /\ restore_cmd key (pull_entry dr pr) = None.
Proof. exact no_transfer_when_missing. Qed.
Check C19_not_found_skipped : forall key pr dr,
  (pr = Integer PTTL_KEY_NOT_FOUND \/ dr = BulkNil) ->
  restore_cmd key (scan_entry pr dr) = None /\ restore_cmd key (pull_entry dr pr) = None.
Print Assumptions C19_not_found_skipped.

(* scan/push (scan_entry) and pull (pull_entry) build RESTORE with ttl_restore of the PTTL they read *)
Theorem C19_paths : forall key pr dr cmd,
  (restore_cmd key (scan_entry pr dr) = Some cmd \/ restore_cmd key (pull_entry dr pr) = Some cmd) ->
  exists p raw, pr = Integer p /\ dr = Bulk raw /\ p <> PTTL_KEY_NOT_FOUND /\
                cmd = [RESTORE; key; ttl_restore p; raw].
Proof. exact paths_use_ttl_restore. Qed.
Check C19_paths : forall key pr dr cmd,
  (restore_cmd key (scan_entry pr dr) = Some cmd \/ restore_cmd key (pull_entry dr pr) = Some cmd) ->
  exists p raw, pr = Integer p /\ dr = Bulk raw /\ p <> PTTL_KEY_NOT_FOUND /\
                cmd = [RESTORE; key; ttl_restore p; raw].
Print Assumptions C19_paths.


(* batches (one SCAN reply, queued push requests): every RESTORE of a batch is built from the PTTL reply and payload of ITS OWN key,
   and the RESTOREs follow the key order *)
Theorem C19_batch_paths : forall l cmds cmd,
  batch_cmds l = Some cmds -> In cmd cmds ->
  exists key p raw, In (key, Integer p, Bulk raw) l /\ p <> PTTL_KEY_NOT_FOUND /\ cmd = [RESTORE; key; ttl_restore p; raw].
Proof. exact batch_uses_own_ttl. Qed.
Check C19_batch_paths : forall l cmds cmd,
  batch_cmds l = Some cmds -> In cmd cmds ->
  exists key p raw, In (key, Integer p, Bulk raw) l /\ p <> PTTL_KEY_NOT_FOUND /\ cmd = [RESTORE; key; ttl_restore p; raw].
Print Assumptions C19_batch_paths.

Example C19_batch_example :
  batch_cmds [([107; 48], Integer [48], BulkNil); ([107; 49], Integer [45; 49], Bulk [98]); ([107; 50], Integer [54; 48], Bulk [99])]
  = Some [[RESTORE; [107; 49]; [48]; [98]]; [RESTORE; [107; 50]; [54; 48]; [99]]].
Proof. vm_compute. reflexivity. Qed.

(* non-vacuity: the hypotheses are inhabited by concrete values *)
Example C19_positive_example :
  btoi_i64 (ttl_restore (Z_to_dec 0)) = Some 1%Z /\ btoi_i64 (ttl_restore (Z_to_dec 1500)) = Some 1500%Z
  /\ btoi_i64 (ttl_restore (Z_to_dec 9223372036854775807)) = Some 9223372036854775807%Z.
Proof. vm_compute. repeat split. Qed.
Example C19_paths_example :
  restore_cmd [107] (scan_entry (Integer [53; 48]) (Bulk [1; 2])) = Some [RESTORE; [107]; [53; 48]; [1; 2]].
Proof. vm_compute. reflexivity. Qed.
