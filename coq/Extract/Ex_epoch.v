(* Extraction of the executable C05 model. ExtrOcamlBasic only; no Extract Constant. *)
From Coq Require Import ExtrOcamlBasic.
From UM Require Import Base.BytesDef Base.Dec Base.RespT Model.Epoch.
Set Extraction Optimize.
Separate Extraction
  Dec.to_dec Dec.Z_to_dec Dec.btou Dec.btoi_i64 RespT.resp BinNat.N.mul BinNat.N.add
  Epoch.extract_host Epoch.has_flags Epoch.flag_force Epoch.hosts_ok Epoch.repl_hosts_ok Epoch.rp_wf
  Epoch.ps_init Epoch.set_cluster Epoch.set_repl Epoch.apply_msg Epoch.run_msgs Epoch.roles_of Epoch.new_roles
  Epoch.g_init Epoch.tstep Epoch.run_sched Epoch.start_pool Epoch.reply_of_rreply.
