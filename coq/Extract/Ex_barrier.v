(* Extraction of the executable barrier model (C11). ExtrOcamlBasic only; no Extract Constant. *)
From Coq Require Import ExtrOcamlBasic.
From UM Require Import Base.BytesDef Base.Dec Base.RespT Model.Barrier.
Set Extraction Optimize.
Separate Extraction
  Dec.to_dec Dec.Z_to_dec Dec.btou Dec.btoi_i64 RespT.resp BinNat.N.mul BinNat.N.add
  Barrier.step Barrier.exec Barrier.final Barrier.init_state Barrier.pc_label Barrier.quiescent
  Barrier.will_release Barrier.is_handoff Barrier.is_finished Barrier.held Barrier.cls Barrier.cnt.
