(* Extraction of the RESP codec model (group resp, property C15). ExtrOcamlBasic only; no Extract Constant. *)
From Coq Require Import ExtrOcamlBasic.
From UM Require Import Base.BytesDef Base.Dec Base.RespT Model.Resp.
Set Extraction Optimize.
Extraction Blacklist List String Bytes Option Int.
Separate Extraction
  Dec.btoi_i64 Dec.to_dec Dec.Z_to_dec Dec.btou RespT.resp
  Resp.encode Resp.decode Resp.decode_indexed Resp.to_resp_vec Resp.encode_packet
  Resp.drain Resp.feed_all Resp.hint_produce Resp.mdecode Resp.mdrain Resp.mdrain_fuel Resp.mfeed_all
  Resp.wf Resp.rdepth Resp.no_lf.
