(* Extraction of the migration model (group `migrate`, property C03). ExtrOcamlBasic only. *)
From Coq Require Import ExtrOcamlBasic.
From UM Require Import Base.BytesDef Base.Dec Base.RespT Model.Ttl Model.Migrate.
Set Extraction Optimize.
Separate Extraction
  Dec.to_dec Dec.Z_to_dec RespT.resp
  Migrate.init Migrate.step Migrate.run Migrate.observe Migrate.history Migrate.register_spec Migrate.bracketed
  Migrate.c11_step Migrate.commit_step Migrate.classified_step Migrate.ensured_step Migrate.ensured_ok Migrate.c11_ok Migrate.commit_ok Migrate.classified_ok
  Migrate.quiescent Migrate.L Migrate.val.
(* the command tables of Model/Migrate.v are Coq strings; extracting them would put a String.ml beside the driver that
   shadows OCaml's; checks/C03.py reads the four lists from the .v text instead and Props/C03.v evaluates them *)
