From Coq Require Import ExtrOcamlBasic.
From UM Require Import Base.BytesDef Base.Dec Base.RespT Model.Ranges Model.Broker.
Set Extraction Optimize.
Separate Extraction
  Dec.to_dec Dec.Z_to_dec RespT.resp
  Broker.init_store Broker.step Broker.view_cluster Broker.view_proxy Broker.check_metadata Broker.nth_out_entry.
