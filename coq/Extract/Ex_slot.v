(* Extraction of the executable models of group `slot` (C09: Model/Slot.v, C14: Model/Topo.v).
   ExtrOcamlBasic only; N, Z, positive, nat stay the extracted inductive types. No Extract Constant. *)
From Coq Require Import ExtrOcamlBasic.
From UM Require Import Base.BytesDef Base.Dec Base.RespT Model.Slot Model.Topo.
Set Extraction Optimize.
(* Coq's List module would be extracted as List.ml and shadow OCaml's List in the driver: inline what the model uses *)
Extraction Inline List.map List.fold_left List.nth_error List.skipn List.firstn List.existsb List.forallb
  List.filter List.flat_map List.seq List.repeat List.rev List.rev_append List.fold_right List.nth List.hd List.tl List.concat List.combine List.find.
Separate Extraction
  Dec.to_dec Dec.Z_to_dec RespT.resp
  Slot.crc16 Slot.get_hash_tag Slot.hash_tag Slot.slot Slot.same_slot
  Slot.slot_map_new Slot.slot_map_get Slot.slot_map_dump Slot.last_owner Slot.owners
  Slot.install Slot.route Slot.cmd_slot Slot.handle_cmd Slot.std_backend
  Topo.gen_cluster_nodes Topo.gen_cluster_slots Topo.get_states Topo.lookup Topo.routing_meta Topo.should_ignore.
