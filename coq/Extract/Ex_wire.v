(* Extraction of the wire-encoding model (group `wire`, property C17). ExtrOcamlBasic only; no Extract Constant. *)
From Coq Require Import ExtrOcamlBasic.
From UM Require Import Base.BytesDef Base.Dec Base.RespT Model.Wire.
Set Extraction Optimize.
(* Coq's List would be extracted to List.ml and shadow OCaml's own List used by ocaml/vio.ml: rename the file only *)
Extraction Blacklist List.
Separate Extraction
  Dec.to_dec Dec.Z_to_dec Dec.btou RespT.resp
  Wire.parse_u64 Wire.flags_to_arg Wire.flags_from_arg
  Wire.rl_to_strings Wire.parse_range_list Wire.compact
  Wire.mm_to_strings Wire.parse_mig_meta
  Wire.sr_to_strings Wire.parse_sr
  Wire.tm_to_strings Wire.parse_task Wire.task_to_string Wire.task_of_string
  Wire.sa_to_strings Wire.parse_switch
  Wire.config_to_args Wire.parse_config Wire.all_cfields
  Wire.nm_to_args Wire.parse_nodemap
  Wire.pcm_to_args Wire.pcm_to_compressed_args Wire.parse_pcm
  Wire.encode_repl Wire.parse_repl
  Wire.normalize Wire.drop_empty_nodes Wire.has_empty_node
  Wire.wf_pcm Wire.wf_pcm_z Wire.wf_repl Wire.wf_task Wire.wf_task_str Wire.wf_sr Wire.is_compact
  Wire.at_group_boundary Wire.at_config_value_cut Wire.at_record_boundary
  Wire.delete_nth Wire.in_language Wire.repl_in_language Wire.flags_token_unrecognized Wire.config_error_tolerated
  Wire.in_language_regrouped Wire.repl_flags_token_unrecognized
  Wire.coord_repl Wire.coord_pcm Wire.compact_idx.
