(* Extraction of the executable pipe model (C08). ExtrOcamlBasic only; N, nat stay the extracted inductive types. *)
From Coq Require Import ExtrOcamlBasic.
From UM Require Import Base.BytesDef Base.Dec Base.RespT Model.Pipe.
Set Extraction Optimize.
Separate Extraction
  Dec.to_dec Dec.Z_to_dec Dec.btoi_i64 Dec.btou RespT.resp
  Pipe.step Pipe.run Pipe.run_diag Pipe.init Pipe.pending Pipe.quiescent Pipe.phases_ok Pipe.is_error
  Pipe.submitted Pipe.count_tid Pipe.reply_ok Pipe.backend_ok
  Pipe.req_set_result Pipe.sess_step Pipe.sess_run Pipe.sess_init Pipe.sess_reqs.
