(* Extraction for the group `route` (C02): the routing model together with the broker model it takes its views from.
   ExtrOcamlBasic only; no Extract Constant. *)
From Coq Require Import ExtrOcamlBasic.
From UM Require Import Base.BytesDef Base.Dec Base.RespT Model.Ranges Model.Broker Model.Route.
Set Extraction Optimize.
Separate Extraction
  Dec.to_dec Dec.Z_to_dec RespT.resp
  Broker.init_store Broker.step Broker.view_cluster Broker.view_proxy Broker.check_metadata
  Route.install Route.install_ns Route.route_step Route.chase_all Route.chase_okb Route.trace_ok
  Route.view_wfb Route.phases_ok Route.designated Route.migrating_slot Route.allowed_nodes Route.migrations.
