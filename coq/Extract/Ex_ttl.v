(* Extraction of the executable models. ExtrOcamlBasic only: bool/option/unit/list/prod/sumbool/sumor map to
   OCaml's own types; N, Z, positive, nat stay the extracted inductive types. No Extract Constant. *)
From Coq Require Import ExtrOcamlBasic.
From UM Require Import Base.BytesDef Base.Dec Base.RespT Model.Ttl.
Set Extraction Optimize.
Separate Extraction
  Dec.btoi_i64 Dec.to_dec Dec.Z_to_dec Dec.btou
  Ttl.ttl_restore Ttl.scan_entry Ttl.pull_entry Ttl.restore_cmd Ttl.batch_cmds.
