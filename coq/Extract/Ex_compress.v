(* Extraction of the executable C20 model. ExtrOcamlBasic only; no Extract Constant.  The section variables
   compress / decompress become function arguments; the OCaml driver passes a framing stand-in. *)
From Coq Require Import ExtrOcamlBasic.
From UM Require Import Base.BytesDef Base.Dec Base.RespT Model.Compress.
Set Extraction Optimize.
Separate Extraction
  Dec.to_dec Dec.Z_to_dec Dec.btou Dec.btoi_i64 RespT.resp BinNat.N.mul BinNat.N.add
  Compress.cmd_type Compress.parse_strategy Compress.compress_cmd Compress.decompress_reply Compress.backend
  Compress.single Compress.exec Compress.exec_all Compress.string_table Compress.restricted_names.
