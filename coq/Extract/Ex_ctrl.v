(* Extraction of the control-plane model. ExtrOcamlBasic only; no Extract Constant. *)
From Coq Require Import ExtrOcamlBasic.
From UM Require Import Base.BytesDef Base.Dec Base.RespT Model.Ctrl Model.Broker Model.CtrlFail.
Set Extraction Optimize.
Separate Extraction
  Dec.to_dec Dec.Z_to_dec Dec.btou Dec.btoi_i64 RespT.resp BinNat.N.mul BinNat.N.add
  Ctrl.init Ctrl.step Ctrl.run Ctrl.installed Ctrl.find_call Ctrl.meta_round Ctrl.mig_round Ctrl.no_faults
  Broker.init_store CtrlFail.finit CtrlFail.fstep CtrlFail.frun CtrlFail.detect_round CtrlFail.handle_round.
