(* Extraction of the cost model (group cost, property C16). ExtrOcamlBasic only; no Extract Constant. *)
From Coq Require Import ExtrOcamlBasic.
From UM Require Import Base.BytesDef Base.Dec Base.RespT Model.Resp Model.Cost.
Set Extraction Optimize.
Extraction Blacklist List String Bytes Option Int.
Separate Extraction
  Dec.btoi_i64 Dec.to_dec Dec.Z_to_dec Dec.btou RespT.resp
  Cost.decode_cost Cost.eval_keys_c Cost.range_map_c Resp.decode.
