"""C09 Key-to-slot routing at a proxy is exact.
Proof: coq/Props/C09.v over Model/Slot.v.  Correspondence: the real get_hash_tag / generate_slot / same_slot / crc16 crate,
the real SlotMapData::new / SlotMap::from_ranges (all 16384 slots per layout) and a real in-process proxy
(SharedForwardHandler + MetaManager, metadata delivered with UMCTL SETCLUSTER, fake Redis / peer-proxy connections that
record what they receive) against the extracted model on the same case lines.  Monitors: an independent Python CRC16 /
hash-tag / range-cover reference evaluated on what the implementation answered and sent."""
import vlib, re

MANIFEST = {
  'text': 'Theorems about Model/Slot.v: C09_hash_tag_spec + C09_hash_tag_no_panic (the tag is the content between the first "{" and the first "}" after it when non-empty, else the whole key; '
          'the expect() is unreachable), C09_slot_range, C09_slot_def, C09_crc16_range, C09_table / C09_table_dump (for every slot number and every iteration order the 16384-entry table built by '
          'SlotMapData::new answers the last entry whose ranges cover the slot - start > end skipped, nothing at or beyond 16384; proved over ranges, not by enumeration), C09_table_wf / C09_table_order '
          '(for pairwise disjoint nodes the lookup is the declarative covers relation and independent of HashMap order), C09_table_overlap (otherwise a member of the owner set), C09_decision '
          '(Local n only if, and for disjoint local nodes iff, slot in a range of local node n; MOVED / forward name the slot and a peer whose ranges contain it and only when no local node covers it; '
          'the error iff nobody covers it; the dropped-request, missing-key and no-cluster outcomes are unreachable for a named cluster and a keyed command), C09_no_cluster, C09_multi_refused + C09_same_slot '
          '(MGET/MSET/MSETNX/multi-DEL/multi-EXISTS with active redirection off, and multi-key EVAL always, are refused and send nothing when the guarded keys are none or hash to two slots), '
          'C09_multi_key (everything a data command causes to be sent is the command itself routed by its own key or a sub command whose keys are keys of the command, all in one slot, routed by that slot), '
          'C09_eval_keys. Key level x slot level: C09_key_slot_in_range_for_routing (slot k < SLOT_NUM is exactly the premise of the route group\'s C02_reachable_route), C09_key_route / C09_key_route_dynamic / C09_key_progress '
          '(for every store reached by ANY broker operation sequence, served cluster view, consistent phases, every KEY and start proxy, every chase for slot k ends at the designated node within the C02 bounds; named propositions of Proofs/SlotProofsBroker.v). The model mirrors utils.rs get_hash_tag/generate_slot/same_slot, slot.rs, the send path of cluster.rs/manager.rs, command.rs get_key and the multi-key handlers of executor.rs, '
          'and is tied to the code by running the same case lines through the real functions and a real in-process proxy.',
  'note': 'Coq kernel; closed under the global context; extraction (ExtrOcamlBasic, List functions inlined) + OCaml driver; CRC16/XMODEM is defined bitwise in the model and the crc16 crate '
          'is compared against it and against an independent Python table implementation. Hook: cfg-guarded re-export proxy::verif_slot of the private slot module. '
          'Not modelled: blocking commands (BLPOP family), running migration tasks (route is the path taken when no migration task contains the slot), compression, passwords, '
          'non-ASCII sub-command tokens. Commands the proxy treats as single-key (RENAME, SINTERSTORE, unsupported EVALSHA with several keys ...) are routed by their first key only, '
          'as the code does and docs/command_table.md documents ("all the keys should be in the same slot" is left to the client); the multi-key clause is about the commands the proxy splits. '
          'Overlapping ranges of different nodes: the winner depends on HashMap order; the model gives the set of allowed owners and the theorems quantify over every order.',
  'technique': 'Coq proof over a hand-written model + differential correspondence check against the real code',
 }

TRUSTED = ['Coq 8.16.1 kernel (coqc; coqchk in the thorough tier); no axioms (Print Assumptions: closed)',
           'extraction with ExtrOcamlBasic only (Coq List functions inlined) + ocaml/vio.ml, d_slot.ml, driver_lib.ml',
           'harness/slot: fake ConnFactory connections standing for Redis nodes and peer proxies (reply = Slot.std_backend), NullClientFactory',
           'cfg-guarded hook proxy::verif_slot (re-export of SlotMap, SlotMapData)',
           'Python reference CRC16/XMODEM (table driven), hash-tag and range-cover functions in checks/C09.py']

SLOT_NUM = 16384

# ---------- independent reference ----------
def _crc_table():
    t = []
    for i in range(256):
        c = i << 8
        for _ in range(8):
            c = ((c << 1) ^ 0x1021) & 0xFFFF if c & 0x8000 else (c << 1) & 0xFFFF
        t.append(c)
    return t
CRC_T = _crc_table()

def crc16(b):
    c = 0
    for x in b:
        c = ((c << 8) & 0xFFFF) ^ CRC_T[((c >> 8) ^ x) & 0xFF]
    return c

def ref_tag(k):
    i = k.find(b'{')
    if i < 0: return k
    j = k.find(b'}', i + 1)
    if j < 0 or j == i + 1: return k
    return k[i + 1:j]

def ref_slot(k):
    return crc16(ref_tag(k)) % SLOT_NUM

_KFS = {}
def key_for_slot(s):
    if not _KFS:
        i = 0
        while len(_KFS) < SLOT_NUM:
            k = b'b%d' % i
            _KFS.setdefault(crc16(k) % SLOT_NUM, k)
            i += 1
    return _KFS[s]

def hx(b): return b.hex() if b else '-'
def unhx(t): return b'' if t == '-' else bytes.fromhex(t)

def parse_layout(tok):
    if tok == '-': return []
    out = []
    for node in tok.split(';'):
        a, rs = node.split('@', 1)
        out.append((a, [tuple(int(x) for x in r.split('-')) for r in rs.split(',')] if rs else []))
    return out

def fmt_layout(l):
    if not l: return '-'
    return ';'.join('%s@%s' % (a, ','.join('%d-%d' % r for r in rs)) for a, rs in l)

def covers(rs, s):
    return s < SLOT_NUM and any(a <= s <= b for a, b in rs)

def expand_runs(txt):
    arr = [None] * SLOT_NUM
    if not txt: return arr
    for run in txt.split(','):
        rng, owner = run.split(':', 1)
        a, b = rng.split('-')
        for s in range(int(a), int(b) + 1):
            arr[s] = owner
    return arr

# ---------- generators ----------
ALPH = [b'{', b'}', b'a', b'b', b'x', b'1', b'\x00', b'\xff', b':', b'user', b'{}', b'}{']

def rand_key(r):
    k = r.random()
    if k < 0.15:
        return bytes(r.getrandbits(8) for _ in range(r.randint(0, 12)))
    if k < 0.55:
        return b''.join(r.choice(ALPH) for _ in range(r.randint(0, 7)))
    if k < 0.8:
        tag = bytes(r.choice(b'abcxyz012') for _ in range(r.randint(1, 4)))
        return bytes(r.choice(b'pqr') for _ in range(r.randint(0, 3))) + b'{' + tag + b'}' + bytes(r.choice(b'stu09') for _ in range(r.randint(0, 4)))
    return b'k%d' % r.randint(0, 10 ** 6)

KEY_CORPUS = [b'', b'a', b'foo', b'bar', b'123456789', b'{}', b'{a', b'a}', b'}{', b'{{a}}', b'{a}{b}', b'{a}', b'x{a}y', b'{', b'}', b'{}{a}',
              b'foo{}{bar}', b'foo{{bar}}', b'foo{bar}{zap}', b'{}xxxxx', b'{user1000}.following', b'{user1000}.followers', b'\x00', b'\xff', b'\x00{\xff}\x00',
              b'{\x00}', b'a{\xff\xfe}b', b'{{}}', b'}{a}', b'{a}}', b'{a{b}c}', b'{{', b'}}', b'{}{}', b'a{}b{c}', b'\x7b\x7d', b'abc{', b'{abc', b'key:{tag}:1',
              b'{' * 20 + b'}' * 20, b'x' * 300, bytes(range(256))]

LOCALS = ['127.0.0.1:%d' % (7000 + i) for i in range(4)]
PEERS = ['127.0.%d.1:%d' % (1 + i // 2, 6000 + i) for i in range(6)]

def compact(rs):
    rs = sorted((min(a, b), max(a, b)) for a, b in rs)
    out = []
    for a, b in rs:
        if out and out[-1][1] + 1 >= a:
            out[-1] = (out[-1][0], max(out[-1][1], b))
        else:
            out.append((a, b))
    return out

def gen_partition(r, nodes, gaps=True, pieces=None):
    """disjoint segments of 0..16383 dealt to nodes (or left as gaps); normal form per node"""
    n = pieces or r.choice([1, 2, 3, 5, 8, 13, 30])
    cuts = sorted(set([0, SLOT_NUM] + [r.choice([1, 2, 100, 5461, 8191, 8192, 10923, 16382, 16383, r.randrange(1, SLOT_NUM)]) for _ in range(n)]))
    segs = [(cuts[i], cuts[i + 1] - 1) for i in range(len(cuts) - 1)]
    owner = {a: [] for a in nodes}
    for s in segs:
        c = r.random()
        if gaps and c < 0.15: continue
        owner[r.choice(nodes)].append(s)
    return [(a, compact(rs)) for a, rs in owner.items()]

def gen_raw_node_ranges(r):
    rs = []
    for _ in range(r.choice([0, 1, 1, 2, 3, 6])):
        c = r.random()
        a = r.choice([0, 1, 16383, 16382, 16384, 8192, r.randrange(0, SLOT_NUM)])
        if c < 0.2: b = a
        elif c < 0.3: b = r.choice([16383, 16384, 16385, 20000, 65535, 2 ** 32, 2 ** 63, 2 ** 64 - 1])
        elif c < 0.4: b = r.randrange(0, a + 1)           # start > end (or equal)
        else: b = min(a + r.choice([0, 1, 7, 100, 2000, 9000]), 70000)
        rs.append((a, b))
    return rs

def split_wf_raw(r, nodes):
    """pairwise disjoint nodes, but each node's own list is raw: unsorted, duplicated, overlapping itself, with skipped/clipped ranges"""
    base = gen_partition(r, nodes, pieces=r.choice([2, 4, 9]))
    out = []
    last = base[-1][0] if base else None
    for a, rs in base:
        raw = []
        for (s, e) in rs:
            raw.append((s, e))
            if r.random() < 0.3: raw.append((s, r.randint(s, e)))            # overlaps itself
            if r.random() < 0.2: raw.append((r.randint(s, e), s - 1 if s > 0 and r.random() < 0.5 else e))
        if r.random() < 0.3: raw.append((r.choice([5, 9000, 16383]), r.choice([0, 4])))   # start > end: skipped
        if r.random() < 0.3: raw.append((r.choice([16384, 20000]), r.choice([16384, 70000])))  # beyond the table
        r.shuffle(raw)
        out.append((a, [x for x in raw if not (x[0] <= x[1] and x[1] < x[0])]))
    return out

def gen_overlap(r, nodes):
    return [(a, gen_raw_node_ranges(r) or [(0, 100)]) for a in nodes]

def wf_layout(l):
    seen = {}
    for a, rs in l:
        for s, e in rs:
            if s > e: continue
            for x in range(s, min(e, SLOT_NUM - 1) + 1):
                if seen.setdefault(x, a) != a: return False
    return len(set(a for a, _ in l)) == len(l)

def same_tag_keys(r, n):
    tag = bytes(r.choice(b'abcxyz012') for _ in range(r.randint(1, 3)))
    return [bytes(r.choice(b'pq') for _ in range(r.randint(0, 2))) + b'{' + tag + b'}' + b'%d' % i for i in range(n)]

def cmdline(elems):
    return ' '.join('N' if e is None else hx(e) for e in elems)

def gen_cmds(r, tier):
    """a list of commands (lists of bytes / None) exercising every modelled handler"""
    cmds = []
    def keys(n, same):
        return same_tag_keys(r, n) if same else [rand_key(r) for _ in range(n)]
    for _ in range(4):
        k = rand_key(r)
        cmds.append([r.choice([b'GET', b'get', b'GeT', b'INCR', b'TTL', b'LLEN']), k])
        cmds.append([r.choice([b'SET', b'set', b'HSET', b'APPEND']), k, b'v'])
    cmds.append([b'CLUSTER', r.choice([b'KEYSLOT', b'keyslot', b'KeySlot']), rand_key(r)])
    cmds.append([r.choice([b'DEL', b'EXISTS', b'del']), rand_key(r)])
    cmds.append([r.choice([b'EVALSHA', b'evalsha']), b'sha', r.choice([b'1', b'2', b'0']), rand_key(r), rand_key(r)])
    for name in (b'MGET', b'DEL', b'EXISTS', r.choice([b'mget', b'Del', b'exists'])):
        n = r.choice([1, 2, 2, 3, 5])
        cmds.append([name] + keys(n, r.random() < 0.6))
    for name in (b'MSET', b'MSETNX', r.choice([b'mset', b'MsetNx'])):
        n = r.choice([1, 2, 3, 4])
        ks = keys(n, r.random() < 0.6)
        el = [name]
        for i, k in enumerate(ks):
            el += [k, b'v%d' % i]
        if r.random() < 0.15: el.pop()            # missing last value
        cmds.append(el)
    n = r.choice([0, 1, 2, 3, 4])
    ks = keys(max(n, 1), r.random() < 0.6)
    nk = r.choice([b'%d' % n, b'%d' % n, b'+%d' % n, b'%d' % (n + 2), b'0', b'-0', b'1'])
    cmds.append([r.choice([b'EVAL', b'eval']), b'return 1', nk] + ks + [b'arg'])
    if r.random() < 0.5:
        inner = r.choice(cmds)
        cmds.append([r.choice([b'UMFORWARD', b'umforward']), r.choice([b'0', b'1', b'2', b'7', b'+3'])] + inner)
    return cmds

ODD_CMDS = [[b'GET'], [None], [], [b'GET', None], [None, b'k'], [b'MGET'], [b'MGET', None, b'k'], [b'MGET', b'k', None, b'j'], [b'MSET'], [b'MSET', b'k'],
            [b'MSET', b'k', None], [b'MSET', b'k', b'v', None, b'w'], [b'MSET', b'{t}a', b'1', b'{t}b'], [b'MSETNX'], [b'MSETNX', b'k'], [b'MSETNX', b'{t}a', b'1', b'{t}b'],
            [b'DEL'], [b'DEL', b'a', None], [b'DEL', None, b'a'], [b'EXISTS', b'{t}1', b'{t}2', None, b'zz'], [b'EVAL'], [b'EVAL', b's'], [b'EVAL', b's', b'x'], [b'EVAL', b's', b''],
            [b'EVAL', b's', b'-'], [b'EVAL', b's', b'-1'], [b'EVAL', b's', b'-00', b'k'], [b'EVAL', b's', b'+'], [b'EVAL', b's', b'1'], [b'EVAL', b's', b'2', b'k'], [b'EVAL', b's', b'0'],
            [b'EVAL', b's', b'0', b'k'], [b'EVAL', b's', b'3', b'{a}1', None, b'{a}2'], [b'EVAL', b's', b'2', b'a', b'b'], [b'EVAL', b's', b'18446744073709551615', b'k'],
            [b'EVAL', b's', b'18446744073709551613', b'k'], [b'EVAL', b's', b'18446744073709551616', b'k'], [b'EVAL', b's', b'1', None],
            [b'EVALSHA', b's', b'2', b'a', b'b'], [b'EVALSHA', b's'], [b'x' * 65, b'k'], [b'm' * 64, b'k'], [b'CLUSTER'], [b'CLUSTER', b'KEYSLOT'], [b'CLUSTER', b'KEYSLOT', None],
            [b'CLUSTER', b'FOO'], [b'cluster', b'keyslot', b'{a}b'], [b'UMFORWARD'], [b'UMFORWARD', b'x', b'GET', b'k'], [b'UMFORWARD', b'', b'GET', b'k'], [b'UMFORWARD', b'3'],
            [b'UMFORWARD', b'+', b'GET', b'k'], [b'UMFORWARD', b'-1', b'GET', b'k'], [b'UMFORWARD', b'1', b'MGET', b'a', b'b'], [b'UMFORWARD', b'0', b'DEL', b'a', b'b'],
            [b'UMFORWARD', b'18446744073709551616', b'GET', b'k'], [b'UMFORWARD', b'2', b'PING'], [b'UMFORWARD', b'1', b'UMFORWARD', b'1', b'GET', b'k'],
            [b'RENAME', b'a', b'b'], [b'BITOP', b'AND', b'd', b'a', b'b']]

def gen_cases(chk):
    r = chk.rng
    quick = chk.tier == 'quick'
    cases = []
    keys = list(KEY_CORPUS) + [rand_key(r) for _ in range(600 if quick else 30000)]
    for k in keys:
        cases.append('tag ' + hx(k)); cases.append('slot ' + hx(k)); cases.append('crc ' + hx(k))
    for _ in range(60 if quick else 2000):
        n = r.choice([0, 1, 2, 3, 6])
        ks = same_tag_keys(r, n) if r.random() < 0.5 else [rand_key(r) for _ in range(n)]
        cases.append('same ' + ' '.join(hx(k) for k in ks))
    # slot tables, all 16384 slots each
    tabs = [[('a', [(0, 16383)])], [('a', [])], [], [('a', [(0, 0)]), ('b', [(16383, 16383)])], [('a', [(16383, 16384)]), ('b', [(16384, 16384)])],
            [('a', [(5, 4)]), ('b', [(0, 2 ** 64 - 1)])], [('a', [(0, 8191)]), ('b', [(8192, 16383)])], [('a', [(3, 3), (5, 5), (4, 4)])],
            [('a', [(0, 100), (50, 60), (100, 200)]), ('b', [(201, 201)])], [('a', [(16000, 70000)]), ('b', [(0, 15999)])]]
    for _ in range(40 if quick else 600):
        c = r.random()
        nodes = r.sample(LOCALS + PEERS, r.choice([1, 2, 3, 5]))
        if c < 0.5: tabs.append(gen_partition(r, nodes))
        else: tabs.append(split_wf_raw(r, nodes))
    for t in tabs:
        if not wf_layout(t): raise Exception('generator produced a non-wf table ' + fmt_layout(t))
        cases.append('table ' + fmt_layout(t)); cases.append('fromranges ' + fmt_layout(t))
    otabs = [[('a', [(0, 10)]), ('b', [(5, 20)])], [('a', [(0, 16383)]), ('b', [(0, 16383)]), ('c', [(100, 200)])]]
    for _ in range(10 if quick else 200):
        otabs.append(gen_overlap(r, r.sample(LOCALS + PEERS, r.choice([2, 3, 4]))))
    for t in otabs:
        cases.append('otable ' + fmt_layout(t))
    # routing through a real proxy
    nlay = 24 if quick else 400
    first = True
    for li in range(nlay):
        ar = r.random() < 0.5
        mr = r.choice(['-', '-', '1', '2', '5'])
        dr = '-'
        name = '1'
        enc = 'p' if r.random() < 0.6 else 'c'
        if li == 1: name, dr = '0', '-'
        if li == 2: name, dr = '0', '127.0.9.9:6999'
        nloc = r.choice([1, 1, 2, 3]); npeer = r.choice([0, 1, 2, 4])
        nodes = LOCALS[:nloc] + r.sample(PEERS, npeer)
        if enc == 'p': lay = gen_partition(r, nodes, gaps=(li % 3 != 0))
        else: lay = split_wf_raw(r, nodes)
        local = [(a, rs) for a, rs in lay if a in LOCALS]
        peer = [(a, rs) for a, rs in lay if a not in LOCALS]
        if name == '0': local, peer = [], []
        head = 'route ar=%d,dr=%s,mr=%s,enc=%s,name=%s %s %s ' % (ar, dr, mr, enc, name, fmt_layout(local), fmt_layout(peer))
        cmds = []
        for _ in range(2 if quick else 4):
            cmds += gen_cmds(r, chk.tier)
        if first or li % 8 == 0:
            cmds += ODD_CMDS
            first = False
        # boundary probes: a key for each range edge of the layout (and its neighbours)
        edges = set()
        for _, rs in local + peer:
            for a, b in rs:
                for x in (a - 1, a, b, b + 1):
                    if 0 <= x < SLOT_NUM: edges.add(x)
        edges = sorted(edges)
        if len(edges) > (12 if quick else 40): edges = r.sample(edges, 12 if quick else 40)
        for x in edges:
            cmds.append([r.choice([b'GET', b'DEL', b'SET']), key_for_slot(x)])
        for c in cmds:
            cases.append(head + cmdline(c))
    return cases

# ---------- monitors ----------
E_MULTI = b'ERR_MULTI_SLOTS slots of the keys are not the same'

def parse_route(case, out):
    toks = case.split()
    cfg = dict(p.split('=', 1) for p in toks[1].split(','))
    local = parse_layout(toks[2]); peer = parse_layout(toks[3])
    elems = [None if t == 'N' else unhx(t) for t in toks[4:]]
    m = re.match(r'^(reply (.*?)|canceled) \| sent ?(.*)$', out)
    if not m: return cfg, local, peer, elems, None, None
    reply = m.group(2)
    sent = []
    if m.group(3).strip():
        for item in m.group(3).split(' ; '):
            p = item.split()
            sent.append((p[0], [None if t == 'N' else unhx(t) for t in p[1:]]))
    return cfg, local, peer, elems, reply, sent

def upper(b): return b.upper() if b is not None else None

def key_of(cmd):
    if not cmd or cmd[0] is None: return None
    n = cmd[0].upper()
    idx = 3 if n in (b'EVAL', b'EVALSHA') else 1
    return cmd[idx] if idx < len(cmd) else None

def strip_fwd(cmd):
    if len(cmd) >= 2 and cmd[0] is not None and cmd[0].upper() == b'UMFORWARD': return cmd[2:]
    return cmd

def monitor(case, out):
    """the property evaluated on an implementation observation; None = fine"""
    toks = case.split()
    kind = toks[0]
    if kind == 'tag':
        k = unhx(toks[1]); return None if out == 'tag ' + hx(ref_tag(k)) else 'hash tag of %r: expected %r' % (k, ref_tag(k))
    if kind == 'crc':
        k = unhx(toks[1]); return None if out == 'crc %d' % crc16(k) else 'CRC16/XMODEM of %r: expected %d' % (k, crc16(k))
    if kind == 'slot':
        k = unhx(toks[1]); return None if out == 'slot %d' % ref_slot(k) else 'slot of %r: expected %d' % (k, ref_slot(k))
    if kind == 'same':
        ks = [unhx(t) for t in toks[1:]]
        exp = 1 if ks and len(set(ref_slot(k) for k in ks)) == 1 else 0
        return None if out == 'same %d' % exp else 'same_slot: expected %d' % exp
    if kind in ('table', 'fromranges', 'otable'):
        lay = parse_layout(toks[1]) if len(toks) > 1 else []
        if not out.startswith(kind + ' ') or 'beyond' in out: return 'malformed table output %r' % out[:80]
        arr = expand_runs(out[len(kind) + 1:])
        for s in range(SLOT_NUM):
            own = [a for a, rs in lay if covers(rs, s)]
            got = None if arr[s] == '-' else arr[s]
            if (got is None) != (not own) or (got is not None and got not in own):
                return 'slot %d: table says %r, ranges say %r' % (s, got, own)
        return None
    if kind != 'route': return None
    cfg, local, peer, elems, reply, sent = parse_route(case, out)
    if out in ('panic', 'notmodelled') or sent is None: return None
    if cfg['name'] == '0':
        return 'a proxy without metadata executed a command' if sent else None
    allnodes = dict(local); allnodes.update(dict(peer))
    # never executed on a wrong node: whatever reached a backend/peer carries a key whose slot that address covers
    for a, c in sent:
        inner = strip_fwd(c) if a in dict(peer) else c      # only a forwarded command carries the UMFORWARD prefix
        k = key_of(inner)
        if k is None: return 'command without key sent to %s' % a
        if a not in allnodes or not covers(allnodes[a], ref_slot(k)):
            return 'command with key %r (slot %d) executed on %s which does not cover it' % (k, ref_slot(k), a)
        if a in dict(peer) and cfg['ar'] != '1': return 'command forwarded to peer %s although active redirection is off' % a
        if a in dict(peer) and any(covers(rs, ref_slot(k)) for _, rs in local):
            return 'command forwarded to peer %s although a local node covers slot %d' % (a, ref_slot(k))
    name = upper(elems[0]) if elems else None
    if name == b'CLUSTER' and len(elems) >= 3 and upper(elems[1]) == b'KEYSLOT' and elems[2] is not None:
        exp = 'I ' + hx(b'%d' % ref_slot(elems[2]))
        return None if reply == exp else 'CLUSTER KEYSLOT %r: expected %d' % (elems[2], ref_slot(elems[2]))
    multi = {b'MGET': 'all', b'DEL': 'all', b'EXISTS': 'all', b'MSET': 'pairs', b'MSETNX': 'pairs'}
    if name in multi and not all(e is not None for e in elems):
        return None          # commands with non-bulk elements: only the wrong-node rule above applies
    if name in multi:
        ks = elems[1:] if multi[name] == 'all' else elems[1::2]
        if name in (b'DEL', b'EXISTS') and len(ks) < 2: ks = []
        if len(set(ref_slot(k) for k in ks)) >= 2 and cfg['ar'] != '1':
            if reply != 'E ' + hx(E_MULTI): return 'cross-slot %s not refused with active redirection off' % name.decode()
            if sent: return 'refused cross-slot %s was partially executed' % name.decode()
        return None
    if name == b'EVAL' and not (all(e is not None for e in elems) and len(elems) >= 4 and re.fullmatch(rb'[0-9]+', elems[2]) and int(elems[2]) < 100):
        return None
    if name == b'EVAL':
        ks = elems[3:3 + int(elems[2])]
        if len(set(ref_slot(k) for k in ks)) >= 2:
            if reply != 'E ' + hx(E_MULTI): return 'cross-slot EVAL not refused'
            if sent: return 'refused cross-slot EVAL was executed'
        return None
    # single-key data commands
    proxy_names = (b'PING', b'INFO', b'AUTH', b'QUIT', b'ECHO', b'SELECT', b'UMCTL', b'UMFORWARD', b'UMSYNC', b'CLUSTER', b'CONFIG', b'COMMAND', b'ASKING', b'HELLO',
                   b'BLPOP', b'BRPOP', b'BRPOPLPUSH', b'BZPOPMIN', b'BZPOPMAX', b'MGET', b'MSET', b'MSETNX', b'EVAL')
    if name is None or name in proxy_names or len(elems[0]) > 64: return None
    k = key_of(elems)
    if k is None or any(e is None for e in elems): return None
    s = ref_slot(k)
    lown = [a for a, rs in local if covers(rs, s)]
    pown = [a for a, rs in peer if covers(rs, s)]
    if lown:
        if [a for a, _ in sent] != lown[:1] and not (len(lown) > 1 and len(sent) == 1 and sent[0][0] in lown):
            return 'slot %d is local (%s) but the command was not executed there: sent=%r reply=%s' % (s, lown, sent, reply)
    elif pown:
        if cfg['ar'] == '1':
            if not (len(sent) == 1 and sent[0][0] in pown) and reply != 'E ' + hx(b'ERR_TOO_MANY_REDIRECTIONS'):
                return 'slot %d belongs to peer %s but the command was not forwarded there' % (s, pown)
        else:
            ok = any(reply == 'E ' + hx(b'MOVED %d %s' % (s, a.encode())) for a in pown)
            if not ok or sent: return 'slot %d belongs to peer %s: expected MOVED %d <peer>, got %s sent=%r' % (s, pown, s, reply, sent)
    else:
        if reply != 'E ' + hx(b'slot not covered %d' % s) or sent:
            return 'slot %d is covered by nobody: expected an error, got %s sent=%r' % (s, reply, sent)
    return None

def agree(case, o, m):
    if o == m: return True
    if case.startswith('otable '):
        if not (o.startswith('otable ') and m.startswith('otable ')): return False
        a = expand_runs(o[7:]); b = expand_runs(m[7:])
        return all((x == y) or (x != '-' and x in y.split('|')) for x, y in zip(a, b))
    if case.startswith('route ') and ' | sent ' in o and ' | sent ' in m:
        # MSETNX under active redirection with several failing slot groups: the sub commands are sent in HashMap order,
        # so WHICH group's error is reported is not determined; both sides must report a routing error and send the same
        toks = case.split()
        names = [unhx(t).upper() for t in toks[4:7:2] if t not in ('N',)]
        if names and (names[0] == b'MSETNX' or (names[0] == b'UMFORWARD' and len(names) > 1 and names[1] == b'MSETNX')):
            pres = ('reply E ' + hx(b'slot not covered '), 'reply E ' + hx(b'ERR_TOO_MANY_REDIRECTIONS'), 'reply E ' + hx(b'MOVED '))
            return o.startswith(pres) and m.startswith(pres) and o.split(' | sent ')[1].strip() == m.split(' | sent ')[1].strip()
    return False

def run(chk):
    ok = vlib.standard_proof_phase(chk, TRUSTED, 'slot')
    chk.cov['rule'] = ('cases = keys (every brace-placement class, binary bytes, CRC vectors, random) through get_hash_tag / generate_slot / crc16; key lists through same_slot; '
                       'range layouts (disjoint nodes with raw per-node lists incl. start>end, ranges beyond 16383, single slots, gaps; overlapping nodes as owner sets) through '
                       'SlotMapData::new and SlotMap::from_ranges, all 16384 slots each; (config, local layout, peer layout, command) through a real proxy. '
                       'non-trivial = distinct case; routed cases count when the command reaches the routing code (has a key or is a multi-key shape)')
    if not ok:
        return
    cases = gen_cases(chk)
    rc1, impl = chk.run_impl('slot', cases, jobs=8)
    rc2, model = chk.run_model('slot', cases, jobs=8)
    hist, dec = {}, {}
    nfail = 0
    disagreements = []
    for i, c in enumerate(cases):
        kind = c.split()[0]
        o = impl[i] if i < len(impl) else '<no output>'
        m = model[i] if i < len(model) else '<no output>'
        if kind == 'route':
            toks = c.split()
            nm = unhx(toks[4]).upper()[:12].decode('latin1') if len(toks) > 4 and toks[4] != 'N' else '<none>'
            if not re.fullmatch(r'[A-Z]+', nm): nm = '<other>'
            hist['route:' + nm] = hist.get('route:' + nm, 0) + 1
            cls = ('moved' if o.startswith('reply E ' + hx(b'MOVED')) else 'notcovered' if o.startswith('reply E ' + hx(b'slot not covered')) else
                   'refused' if o.startswith('reply E ' + hx(b'ERR_MULTI_SLOTS')) else 'error' if o.startswith('reply E') else
                   'executed' if o.startswith('reply') and not o.endswith('| sent ') else 'panic' if o == 'panic' else 'answered-by-proxy')
            dec[cls] = dec.get(cls, 0) + 1
        else:
            hist[kind] = hist.get(kind, 0) + 1
        chk.count(c, True)
        bad = monitor(c, o)
        if bad:
            nfail += 1
            chk.violation({'kind': 'monitor', 'case': c, 'impl': o, 'model': m, 'what': bad})
        elif not agree(c, o, m):
            disagreements.append({'case': c, 'impl': o, 'model': m})
        if i % 401 == 0: chk.sample({'case': c[:300], 'impl': o[:300], 'model': m[:300]})
    chk.cov['traces_validated_against_impl'] = len(cases) - len(disagreements)
    chk.sub('distribution', kinds=hist, route_outcomes=dec, monitor_failures=nfail, disagreements=len(disagreements))
    chk.sub('slot_tables', exhaustive=True, slots_per_layout=SLOT_NUM, layouts=hist.get('table', 0) + hist.get('fromranges', 0) + hist.get('otable', 0))
    if disagreements and not nfail:
        chk.violation({'kind': 'correspondence', 'correspondence': 'Model/Slot.v vs utils.rs / slot.rs / cluster.rs / manager.rs / executor.rs',
                       'first': disagreements[0], 'count': len(disagreements),
                       'search': 'monitors evaluated on all %d implementation outputs incl. the disagreeing ones: no property failure' % len(cases)},
                      no_input=True)


def replay(data):
    chk = vlib.Check('C09', 'quick', 0)
    c = data.get('case') or (data.get('first') or {}).get('case')
    if not c:
        print(data); return 0
    chk.build_impl('slot')
    _, impl = chk.run_impl('slot', [c]); _, model = chk.run_model('slot', [c])
    print('case :', c); print('impl :', impl); print('model:', model); print('monitor:', monitor(c, impl[0]) if impl else None)
    return 1 if (impl and monitor(c, impl[0])) else 0
