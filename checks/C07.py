"""C07 Control plane converges despite message faults and coordinator crashes (+ C13_reconverge, model level).
Proof: coq/Props/C07.v over Model/Ctrl.v.  Correspondence: harness/ctrl wires the REAL coordinator components
(ProxyMetaRespSynchronizer, ParMigrationStateSynchronizer, BrokerOrderedProxiesRetriever, BrokerProxiesRetriever, BrokerMetaRetriever,
ProxyMetaRespSender, MigrationStateRespChecker, BrokerMigrationCommitter; hook undermoon::coordinator::verif) to a real MetaStore
(hook undermoon::broker::verif) and real proxies (SharedForwardHandler) through fake MetaDataBroker / MetaManipulationBroker /
RedisClientFactory implementations that inject a scripted fault at a chosen call boundary; the extracted model runs the same script
(its `served` function, the listing order of each round and the INFOMGR reports are read from the implementation run: they are exactly the
parts the model abstracts).  Monitors evaluate the property on what the real code did."""
import vlib, re, subprocess

MANIFEST = {
  'text': 'Theorems about the executable model coq/Model/Ctrl.v (an event system with any number of stateless coordinators, a multiset network with '
          'drop / duplicate / arbitrary-order delivery, coordinator crash between two outgoing calls, proxy restart, broker changes, INFOMGR reports and '
          'commits; plus the coordinator code - ProxyMetaRespSynchronizer::run_impl, send_meta_impl, ParMigrationStateSynchronizer::check_and_sync / '
          'sync_migration_state - compiled to events of that system under a scripted fault per call boundary): '
          'C07_never_older (every event sequence: between restarts the installed epoch of either kind never decreases and the installed content is '
          'exactly what the broker served at that epoch), C07_converge (any reachable state, any broker-quiet restart-free tail whatever else '
          'happens in it: once a call carrying the current view arrived the proxy holds exactly the current view), C07_converge_one_round (ONE complete '
          'fault-free meta-sync round of the compiled code from any reachable state, anything still in flight), C07_commit_at_most_once, '
          'C07_duplicate_commit_rejected, C07_commit_exactly_once, C07_dst_before_src (sync_migration_state under ANY scripted call faults: the source is '
          'contacted only after the commit request was sent and the destination installed cluster metadata at least as new as the post-commit view), C07_two_rounds (bound TWO: one migration-sync round then one meta-sync round => every '
          'reported pending migration committed exactly once and every listed proxy holds the post-commit view), C13_reconverge (no assumption on the '
          'history; served epochs above installed ones => one round adopts the recovered view).  In these theorems the broker is abstracted to `served : '
          'time -> addr -> option (epoch * content)` with the two hypotheses served_mono_prop / served_same_prop (also tested on every implementation run).  '
          'BROKER INSTANCE (Proofs/CtrlProofsBroker*.v): the hypotheses are discharged on Model/Broker.v with C04 - served_of s0 ops lim t a = (vp_epoch v, '
          'content_id v) for view_proxy lim (Broker.run s0 (firstn t ops)) a = Some (Some v), any store s0 with epoch_inv, any operation list without accepted '
          'Restore (ok_ops), any migration limit; C07_served_of_broker_facts proves both hypotheses from history_views / same_epoch_same_content_lemma; content_id '
          'is an injective identifier of everything but the epoch (C07_content_id_injective; std++ Countable encode of the flattened view; Ctrl.v keeps content '
          'type N).  C07_never_older_broker, C07_converge_one_round_broker, C07_two_rounds_broker and C13_reconverge_broker (store restored from any snapshot with '
          'epoch_inv, recover_service with m >= every installed epoch of the listed proxies, then any ok_ops history; premise obtained from stays_above_general) are '
          'therefore theorems about broker-model histories with no hypothesis on `served` left.  FAILURE DETECTION / HANDLING (Model/CtrlFail.v, '
          'Proofs/CtrlProofsFail.v): an event system over the REAL broker model (Broker.add_failure / get_failures / replace_failed_proxy / add_proxy / step) in which any '
          'coordinator reports any address at any time and as often as it likes, replace_proxy calls issued after a get_failures answer are delayed / dropped / duplicated, '
          'proxies go down and come back, the clock ticks, proxies re-register, any other broker operation happens; plus ParFailureDetector / PingFailureDetector (three '
          'PING attempts) / BrokerFailureReporter and ParFailureHandler / ReplaceNodeHandler compiled to those events under a scripted fault per call boundary.  '
          'C07_fail_needs_quorum (every failover carried out was licensed by a get_failures answer on a store where the address was registered and at least quorum '
          'pairwise DISTINCT reporters had each made an add_failure call for it less than ttl earlier; composes C18_quorum_distinct / C18_expired_discarded / '
          'C18_failures_wf_step), C07_fail_single_reporter (reporters of an address fitting in a set smaller than quorum => never failed over, however often they report), '
          'C07_fail_reregister_clears (after add_proxy, no new report and no replace call already in flight => not listed, not failed over; composes C18_reregister_clears; '
          'the side condition is necessary: C07_example_fail_stale_replace).  Clause "the handler pushes metadata to the replacement" is NOT what the code does: '
          'ReplaceNodeHandler only calls replace_proxy; the replacement is brought up to date by the meta-sync loop, i.e. by C07_converge_one_round(_broker); the check '
          'monitors that a handling round sends nothing to proxies and that the next meta-sync round repairs a crash after replace.  The model is tied to '
          'the code by running the real coordinator rounds, a real MetaStore and real proxies under the same fault scripts and comparing, per round, the '
          'observable event trace (views fetched, calls reaching proxies with epoch and reply, commits reaching the broker with result, reports, restarts), '
          'the number of call boundaries consumed, every proxy\'s GETEPOCH and the hashes of its cluster / replication state (UMCTL INFO, INFOREPL), the '
          'broker\'s pending migrations and the number of successful commits.',
  'note': 'Proof at model level; closed under the global context. The *_broker theorems instantiate time as "number of broker operations applied" (a successful commit is one operation of ops); the pending-migration set of Ctrl.v stays abstract (its link to the Broker model\'s migrating entries is exercised by the correspondence check, not proved). PARTIAL for real concurrency: the four coordinator loops, their 1-second timers and the '
          'join_all over a batch of ten proxies are replaced by explicit interleaving of whole calls (with the harness fakes no call is ever pending, so a '
          'batch runs in list order); the HTTP layer between coordinator and broker is replaced by a fake that mirrors its status mapping (200 and 404 => Ok; '
          'pinned textually); in C07 cases a failover is a plain broker operation; in C07F cases the real detector / handler rounds run (virtual clock: the harness rewrites the stored report timestamps before each get_failures so that real age = virtual age; ages are multiples of 10 s, ttl 30 s, quorum 2; a delayed call is treated as lost in these rounds; a down proxy only stops answering PING).  "Destination before source" is proved and monitored '
          'for the migration-sync path only (dst_before_src): when a coordinator dies between the commit and the pushes, the next meta-sync round updates '
          'the two proxies in listing order - the code gives no ordering guarantee there (observed, harmless: the importing proxy already serves the slots '
          'after the switch).  Convergence needs a served epoch > 0 (an epoch-0 view is never accepted by a fresh proxy; the broker never serves one for a '
          'registered proxy).  Broker allocation is hash-order dependent, so the same case line may exercise a different layout on another run; the model '
          'is always fed the oracle of the same run.',
  'technique': 'Coq proof (invariants of a small-step event system, refinement of the compiled coordinator rounds) + differential correspondence check '
               'against the real coordinator/broker/proxy code under scripted faults + property monitors on the implementation',
 }

TRUSTED = ['Coq 8.16.1 kernel (coqc; coqchk in the thorough tier); no axioms (Print Assumptions: closed)',
           'abstract theorems: hypotheses served_mono_prop, served_same_prop; discharged for the Broker model in the *_broker theorems (C04 + C13 lemmas of Proofs/BrokerEpoch*.v) and tested here on every implementation run',
           'std++ (countable: encode / encode_inj) in Proofs/CtrlProofsBrokerEnc.v only, axiom-free',
           'extraction with ExtrOcamlBasic only + ocaml/vio.ml, d_ctrl.ml, driver_lib.ml',
           'harness/ctrl/src/dom.rs: fake MetaDataBroker / MetaManipulationBroker / RedisClientFactory (fault injection), fake Redis, canonical forms of a view and of UMCTL INFO / INFOREPL',
           'hooks: undermoon::coordinator::verif (H2), undermoon::broker::verif (H1)',
           'Model/CtrlFail.v runs on the broker model of Model/Broker.v (its correspondence with broker/update.rs is the C18 / C06 checks\'); replacement choices and cluster allocation pairs are read from the real store',
           'textual pins (only for the HTTP layer, which the harness replaces by a fake and therefore never executes): http_mani_broker.rs treats 404 as Ok; service.rs maps MigrationTaskNotFound to 404. Every other formerly pinned fact is observed by execution (PROBED_FACTS in this file), incl. the production CoordinatorService wiring through the `service` probe cases']

KINDS = ['drop', 'dup', 'delay', 'noreply', 'crash']

SETUP4 = 'addproxy 1 ; addproxy 2 ; addproxy 3 ; addproxy 4'
# shape A: 4-proxy cluster scaled out 4 -> 8 nodes with two real migrations whose handshake finished; faults hit the commit / push phase
SHAPE_A_PRE = SETUP4 + ' ; addcluster 4 ; meta 1 ; addnodes 4 ; migrate ; meta 1 ; finishmig'
SHAPE_A_FAULTY = ['mig 1', 'meta 2']
# shape B: 5 proxies (one spare), broker changes between faulty meta-sync rounds (config change, failover)
SHAPE_B_PRE = SETUP4 + ' ; addproxy 5 ; addcluster 8'
TAIL = ['quiet', 'mig 8', 'meta 9']


def case_line(nproxy, faults, injects, steps):
    f = ','.join('%d:%s' % x for x in sorted(faults.items())) or '-'
    i = ','.join('%d:%s:%d' % x for x in injects) or '-'
    return 'C07 %d %s %s ; %s' % (nproxy, f, i, ' ; '.join(steps))


def shape_a(faults, injects, mid=(), tail_extra=()):
    steps = [SHAPE_A_PRE] + SHAPE_A_FAULTY + list(mid) + TAIL[:2] + list(tail_extra[:1]) + TAIL[2:] + list(tail_extra[1:])
    return case_line(4, faults, injects, [x for x in steps if x])


def shape_b(faults, injects, fo, mid=(), tail_extra=()):
    steps = [SHAPE_B_PRE, 'meta 1', 'config 7', 'meta 2', 'failover %d' % fo, 'meta 3'] + list(mid) + TAIL[:2] + list(tail_extra[:1]) + TAIL[2:] + list(tail_extra[1:])
    return case_line(5, faults, injects, [x for x in steps if x])


# failure detection / handling (C07F cases: the model side also runs Model/CtrlFail.v over the real broker model).
# 5 proxies, a cluster on 4 of them, ttl 30 s, quorum 2; coordinators 1..3 detect, coordinator 9 handles
FAIL_PRE = SETUP4 + ' ; addproxy 5 ; addcluster 8 ; meta 1'
FAIL_TTL, FAIL_QUORUM = 30, 2
F_LO, F_HI = 16, 52


def fail_case(faults, steps, tail=True):
    f = ','.join('%d:%s' % x for x in sorted(faults.items())) or '-'
    st = [FAIL_PRE] + [x for x in steps if x] + (TAIL if tail else [])
    return 'C07F 5 %s - ; %s' % (f, ' ; '.join(st))


def fail_window(x):
    return ['down %d' % x, 'detect 1', 'tick 10', 'detect 2', 'handle 9', 'meta 3']


# "delayed duplicate commit across a later migration": the commit call M<k> (k-th commit_migration call of the case) of a finished
# migration is HELD while the round's other calls (and a duplicate) go through and the migration is committed normally; then a LATER
# migration over exactly the same ranges is started under a newer epoch (scale back in) - or a failover re-issues the epoch of the still
# uncommitted migration - and the held stale commit is delivered.  It must be answered MIGRATION_TASK_NOT_FOUND and change nothing.
def stale_scale_in(held, other_faults):
    f = dict(other_faults)
    f['M%d' % held] = 'delay'
    fs = ','.join('%s:%s' % (k, f[k]) for k in sorted(f, key=str))
    steps = [SHAPE_A_PRE, 'mig 1', 'mig 2', 'meta 2', 'scaledown 4', 'replay M%d' % held] + TAIL + ['replay M%d' % held]
    return 'C07 4 %s - ; %s' % (fs, ' ; '.join(steps))


def stale_failover(side, dup_tail):
    # every commit call of the round fails (the first is held), so the migrations stay pending; then the source / destination proxy of
    # the held migration is failed over (its migration is re-issued under a new epoch) and the stale commit is delivered
    fs = 'M1:delay,M2:drop,M3:drop,M4:drop'
    steps = [SETUP4 + ' ; addproxy 5 ; addcluster 4 ; meta 1 ; addnodes 4 ; migrate ; meta 1 ; finishmig', 'mig 1',
             'failoverheld M1 %s' % side, 'replay M1'] + TAIL + (['replay M1'] if dup_tail else [])
    return 'C07 5 %s - ; %s' % (fs, ' ; '.join(steps))


# Membership recovery (C13_reconverge on the real proxies): the broker restarts from a snapshot that disagrees with the proxies about
# cluster MEMBERSHIP, not only about epochs; epoch recovery is run as the service composes it (max proxy epoch + 2), then fault-free rounds.
# `addclusterx c n` / `rmclusterx c` create / remove cluster c<c>; 8 nodes = all four proxies, 4 nodes = two of them.
def membership_recovery_cases():
    pre = SETUP4
    tail = ['quiet', 'mig 8', 'meta 9', 'meta 9']
    fam = []
    for na in (4, 8):
        # (1) P in cluster A in the snapshot, P serving cluster B at a higher epoch (lost suffix: remove A, create B on P)
        fam.append([pre, 'addclusterx 1 %d' % na, 'meta 1', 'snapshot', 'rmclusterx 1', 'meta 1', 'addclusterx 2 8', 'meta 2', 'restore', 'recover'] + tail)
        # the same with the release and the allocation falling between two sync rounds before the loss
        fam.append([pre, 'addclusterx 1 %d' % na, 'meta 1', 'snapshot', 'rmclusterx 1', 'addclusterx 2 8', 'meta 2', 'restore', 'recover'] + tail)
        # (1') the other way round: the snapshot has B (on every proxy), the proxies serve A
        fam.append([pre, 'addclusterx 2 8', 'meta 1', 'snapshot', 'rmclusterx 2', 'meta 1', 'addclusterx 1 %d' % na, 'meta 2', 'restore', 'recover'] + tail)
        # (2) P free in the snapshot but serving a cluster
        fam.append([pre, 'meta 1', 'snapshot', 'addclusterx 1 %d' % na, 'meta 2', 'restore', 'recover'] + tail)
        # (3) P in a cluster in the snapshot but free (at a higher epoch) on the proxy
        fam.append([pre, 'addclusterx 1 %d' % na, 'meta 1', 'snapshot', 'rmclusterx 1', 'meta 2', 'restore', 'recover'] + tail)
        # (4) no recovery: release from A and allocation to B between two sync rounds, the proxy sees A -> B directly
        fam.append([pre, 'addclusterx 1 %d' % na, 'meta 1', 'rmclusterx 1', 'addclusterx 2 8'] + tail)
    # a lost suffix that also changed the layout inside the same cluster, and a proxy restarted after the loss
    fam.append([pre, 'addclusterx 1 4', 'meta 1', 'snapshot', 'addnodes 4', 'meta 2', 'restore', 'recover', 'restart 2'] + tail)
    return ['C07 4 - - ; ' + ' ; '.join(st) for st in fam]


def run_membership_recovery(chk):
    """Entry point for checks/C13.py: the membership-recovery scenarios through the ctrl harness (real coordinator rounds, real MetaStore,
    real proxies) against Model/Ctrl.v, with C13_reconverge's conclusion evaluated on the real proxies."""
    probs = chk.build_models('ctrl') + chk.build_impl('ctrl')
    for p_ in probs:
        chk.violation({'kind': 'correspondence-build', 'correspondence': 'harness/ctrl (membership recovery scenarios)', 'detail': p_}, no_input=True)
    if probs:
        return
    lines = membership_recovery_cases()
    impl, parsed, model = run_both(chk, lines, jobs=4)
    nbad, ndis = 0, 0
    for i, c in enumerate(lines):
        p_ = parsed[i] if i < len(parsed) else None
        chk.count(c, True)
        if p_ is None:
            nbad += 1
            chk.violation({'kind': 'monitor', 'harness': 'ctrl', 'case': c, 'impl': (impl[i] if i < len(impl) else '')[:2000],
                           'what': 'the ctrl harness produced no observation', 'replay_with': './check C07 --replay <this file>'})
            continue
        prog, segs, z = p_
        bad = monitor(c, prog, segs, z)
        m = model[i] if i < len(model) else ''
        if bad:
            nbad += 1
            chk.violation({'kind': 'monitor', 'harness': 'ctrl', 'case': c, 'impl': impl[i][:6000], 'model': m[:3000], 'what': bad[:5],
                           'replay_with': './check C07 --replay <this file>'})
        elif m != 'O ' + ' ; '.join(segs):
            ndis += 1
            chk.violation({'kind': 'correspondence', 'correspondence': 'Model/Ctrl.v vs coordinator + proxies (membership recovery)', 'first': {'case': c}},
                          no_input=True)
    chk.sub('membership_recovery_via_ctrl_harness', cases=len(lines), monitor_failures=nbad, disagreements=ndis)


# boundaries: shape A: set-up rounds use 0..25, the faulty window (mig + meta) is 26..57 in a fault-free run
A_LO, A_HI = 26, 58
B_LO, B_HI = 0, 48


def gen_cases(chk):
    r = chk.rng
    cases = []
    # corpus: fault-free runs and hand-written multi-fault scripts
    cases.append(('corpus', shape_a({}, [])))
    cases.append(('corpus', shape_b({}, [], 2)))
    cases.append(('corpus', shape_a({33: 'delay', 36: 'crash'}, [(45, 'replay', 33), (40, 'restart', 2)], mid=['restart 3'])))
    cases.append(('corpus', shape_a({27: 'delay'}, [], tail_extra=['replay 27'])))          # commit held, replayed inside the fault-free tail
    cases.append(('corpus', shape_a({27: 'dup', 35: 'dup'}, [])))                           # duplicate commits
    cases.append(('corpus', shape_a({27: 'crash'}, [])))                                    # crash right after the commit: no dst/src push
    cases.append(('corpus', shape_a({27: 'noreply'}, [])))
    cases.append(('corpus', shape_a({30: 'delay', 31: 'delay'}, [], tail_extra=['replay 30', 'replay 31'])))
    cases.append(('corpus', shape_b({14: 'noreply', 20: 'delay', 23: 'crash'}, [(30, 'replay', 20)], 2)))
    # wiring probes: the production CoordinatorService (service.rs gen_* + loops) runs over the fakes
    cases.append(('service-probe', 'C07 4 - - ; ' + SHAPE_A_PRE + ' ; service 2400'))
    cases.append(('service-probe', 'C07F 5 - - ; ' + FAIL_PRE + ' ; down %d ; detect 1 ; service 2600' % (1 + r.randrange(5))))
    for line in membership_recovery_cases():
        cases.append(('membership-recovery', line))
    for held in (1, 2):
        cases.append(('stale-commit', stale_scale_in(held, {})))
        cases.append(('stale-commit', stale_scale_in(held, {'M%d' % (3 - held): 'dup'})))
        cases.append(('stale-commit', stale_scale_in(held, {'M3': 'dup'})))
    for side in ('src', 'dst'):
        cases.append(('stale-commit', stale_failover(side, False)))
        cases.append(('stale-commit', stale_failover(side, True)))
    if chk.tier == 'thorough':
        for held in (1, 2, 3):
            for k in KINDS:
                cases.append(('stale-commit', stale_scale_in(held, {'M%d' % (1 + held % 3): k})))
    # exhaustive: every single-fault position of the 2-round window (mig-sync + meta-sync) of the 4-proxy cluster, every fault kind
    for pos in range(A_LO, A_HI):
        for k in KINDS:
            inj, te = [], []
            if k == 'delay':
                if pos % 3 == 0:
                    inj = [(pos + 1 + (pos % 7), 'replay', pos)]       # replayed later inside the faulty window
                elif pos % 3 == 1:
                    te = ['replay %d' % pos]                           # replayed between the two rounds of the fault-free tail
                else:
                    te = ['', 'replay %d' % pos]                       # replayed after the tail
            cases.append(('single', shape_a({pos: k}, inj, tail_extra=te)))
    # every restart position of the window
    for pos in range(A_LO, A_HI):
        cases.append(('restart', shape_a({}, [(pos, 'restart', 1 + pos % 4)])))
    # single faults over the whole of shape B (no migration: faults may hit the very first rounds)
    for pos in range(B_LO, B_HI, 1 if chk.tier == 'thorough' else 2):
        k = KINDS[pos % 5] if chk.tier == 'quick' else None
        for kk in ([k] if k else KINDS):
            cases.append(('singleB', shape_b({pos: kk}, [(pos + 5, 'replay', pos)] if kk == 'delay' else [], 1 + pos % 5)))
    # ---- failure detection / handling ----
    for x in (1, 2, 3, 4, 5):
        cases.append(('fail-one-reporter', fail_case({}, ['down %d' % x, 'detect 1', 'detect 1', 'tick 10', 'detect 1', 'handle 9'])))
        cases.append(('fail-quorum', fail_case({}, fail_window(x))))
        cases.append(('fail-expired', fail_case({}, ['down %d' % x, 'detect 1', 'tick 40', 'detect 2', 'handle 9', 'tick 10', 'detect 3', 'handle 9', 'meta 3'])))
        cases.append(('fail-reregister', fail_case({}, ['down %d' % x, 'detect 1', 'detect 2', 'up %d' % x, 'addproxy %d' % x, 'handle 9', 'meta 3'])))
        cases.append(('fail-crash-after-replace', fail_case({36: 'crash'}, fail_window(x))))
        cases.append(('fail-boundary-ttl', fail_case({}, ['down %d' % x, 'detect 1', 'tick 20', 'detect 2', 'tick 10', 'handle 9', 'handle 9'])))
    # every single-fault position of the window detect, detect, handle, meta-sync (false reports by message loss included)
    for pos in range(F_LO, F_HI):
        for k in (KINDS if chk.tier == 'thorough' else [KINDS[pos % 5], KINDS[(pos + 2) % 5]]):
            cases.append(('fail-single', fail_case({pos: k}, fail_window(1 + pos % 5))))
    nfr = 120 if chk.tier == 'quick' else 1500
    for _ in range(nfr):
        steps, faults = [], {}
        for _ in range(r.randint(3, 9)):
            w = r.random()
            if w < 0.2:
                steps.append('%s %d' % (r.choice(['down', 'down', 'up']), r.randint(1, 5)))
            elif w < 0.55:
                steps.append('detect %d' % r.randint(1, 3))
            elif w < 0.75:
                steps.append('handle 9')
            elif w < 0.9:
                steps.append('tick %d' % r.choice([10, 10, 20, 30, 40]))
            else:
                steps.append('addproxy %d' % r.randint(1, 5))
        steps += ['up %d' % i for i in range(1, 6)]
        for _ in range(r.choice([0, 1, 2, 3, 5, 8])):
            faults[r.randrange(F_LO, F_HI + 30)] = r.choice(KINDS)
        cases.append(('fail-random', fail_case(faults, steps)))
    # random multi-fault scripts
    nrand = 400 if chk.tier == 'quick' else 4000
    for _ in range(nrand):
        a = r.random() < 0.6
        lo, hi = (A_LO, A_HI) if a else (B_LO, B_HI)
        nf = r.choice([2, 2, 3, 3, 4, 6])
        faults, injects, te = {}, [], []
        for _ in range(nf):
            p = r.randrange(lo, hi)
            k = r.choice(KINDS)
            faults[p] = k
            if k == 'delay':
                w = r.random()
                if w < 0.5:
                    injects.append((r.randrange(p + 1, hi + 4), 'replay', p))
                elif w < 0.8:
                    te.append('replay %d' % p)
        for _ in range(r.choice([0, 0, 1, 1, 2])):
            injects.append((r.randrange(lo, hi), 'restart', r.randint(1, 4 if a else 5)))
        mid = []
        if r.random() < 0.3:
            mid.append('restart %d' % r.randint(1, 4))
        if r.random() < 0.3:
            mid += ['mig 5'] if r.random() < 0.5 else ['meta 5']
        te = te[:2]
        cases.append(('random', shape_a(faults, injects, mid, te) if a else shape_b(faults, injects, r.randint(1, 5), mid, te)))
    if chk.tier == 'thorough':
        # all pairs of fault positions of the window, kinds drawn at random
        for p1 in range(A_LO, A_HI):
            for p2 in range(p1 + 1, A_HI):
                k1, k2 = r.choice(KINDS), r.choice(KINDS)
                inj = [(r.randrange(p + 1, A_HI + 3), 'replay', p) for p, k in ((p1, k1), (p2, k2)) if k == 'delay' and r.random() < 0.6]
                cases.append(('pair', shape_a({p1: k1, p2: k2}, inj)))
    return cases


def parse_impl(line):
    """-> (model program, [observation segments], Z dict) or None"""
    if not line.startswith('M ') or ' ## O ' not in line:
        return None
    m, o = line.split(' ## O ', 1)
    segs = [s.strip() for s in o.split(' ; ')]
    z = {}
    if segs and segs[-1].startswith('Z '):
        for kv in segs[-1][2:].split(' '):
            if '=' in kv:
                k, v = kv.split('=', 1)
                z[k] = v
        segs = segs[:-1]
    return m[2:], segs, z


def kv(seg):
    d = {}
    for t in seg.split(' ')[1:]:
        if '=' in t:
            k, v = t.split('=', 1)
            d[k] = v
    return d


def served_table(prog):
    m = re.search(r'(?:^| ; )V (\S+)', prog)
    rows = []
    if m and m.group(1) != '-':
        for e in m.group(1).split(','):
            t, a, ep, vid, ch, rh = e.split('.')
            rows.append((int(t), int(a), int(ep), vid, ch, rh))
    return rows


def monitor(case, prog, segs, z):
    """The property on what the implementation did. Returns a list of failure descriptions."""
    bad = []
    if 'svcst' in z:
        # what the production CoordinatorService did in a `service` step is judged like one more round
        segs = segs + ['S tr=%s st=%s pend=%s nc=%s' % (z.get('svctr', '-'), z['svcst'], z.get('svcpend', '-'), z.get('svcnc', '0'))]
    rows = served_table(prog)
    # hypotheses of the theorems, tested on the real broker history
    by_a = {}
    for t, a, ep, vid, ch, rh in rows:
        by_a.setdefault(a, []).append((t, ep, vid))
    # a restart from a snapshot (C13) ends the history the two hypotheses speak about: they are tested per segment
    restores = sorted(int(x) for x in z.get('restores', '-').split(',') if x.isdigit())
    seg_of = lambda t: sum(1 for r_ in restores if r_ <= t)
    for a, l in by_a.items():
        l.sort()
        for (t1, e1, v1), (t2, e2, v2) in zip(l, l[1:]):
            if e2 < e1 and seg_of(t1) == seg_of(t2):
                bad.append('hypothesis served_mono fails on the real broker: proxy %d epoch %d at time %d after %d at time %d' % (a, e2, t2, e1, t1))
        seen = {}
        for t, e, v in l:
            if seen.setdefault((seg_of(t), e), v) != v:
                bad.append('hypothesis served_same_epoch_same_content fails on the real broker: proxy %d epoch %d served with two contents' % (a, e))
    # never older: a proxy's epoch only decreases at a restart
    prev = {}
    commits_ok = {}
    for s in segs:
        d = kv(s)
        tr = d.get('tr', '-')
        toks = [] if tr == '-' else tr.split(',')
        restarted = set(int(t.split('.')[1]) for t in toks if t.startswith('r.'))
        for t in toks:
            if t.startswith('c.') and t.endswith('.ok'):
                commits_ok[t.split('.')[1]] = commits_ok.get(t.split('.')[1], 0) + 1
            if t.startswith('d.') and t.split('.')[-1] not in ('ok', 'old'):
                bad.append('a proxy answered a metadata call with %s' % t)
        if 'st' in d:
            for e in d['st'].split(','):
                i, ep, ch, rh = e.split(':')
                i = int(i)
                if ep.isdigit():
                    if i in prev and int(ep) < prev[i] and i not in restarted:
                        bad.append('proxy %d went from epoch %d back to %s without a restart' % (i, prev[i], ep))
                    prev[i] = int(ep)
                else:
                    bad.append('proxy %d: GETEPOCH unreadable' % i)
    for k, n in commits_ok.items():
        if n > 1:
            bad.append('migration %s committed %d times' % (k, n))
    # after the fault-free tail: every non-failed proxy the broker knows holds exactly the current view
    last = None
    for s in segs:
        if 'st=' in s:
            last = kv(s)
    tmax = max([r[0] for r in rows] or [0])
    cur = {a: (ep, ch, rh) for t, a, ep, vid, ch, rh in rows if t == tmax}
    failed = set(int(x) for x in z.get('failed', '-').split(',') if x.isdigit())
    if last is None:
        bad.append('no observation')
    else:
        for e in last['st'].split(','):
            i, ep, ch, rh = e.split(':')
            i = int(i)
            if i in failed or i not in cur:
                continue
            want = cur[i]
            if (ep, ch, rh) != (str(want[0]), want[1], want[2]):
                bad.append('after the fault-free tail proxy %d holds epoch %s cluster %s repl %s, broker serves epoch %d cluster %s repl %s'
                           % (i, ep, ch, rh, want[0], want[1], want[2]))
    # every migration a proxy reported finished during the fault-free tail is committed: exactly one successful commit over the
    # whole run and not pending at the end (the theorem's statement; a restarted proxy forgets a finished hand-over and, with the
    # harness gate closed, never reports it again - such a migration legitimately stays pending)
    tail = False
    reported_in_tail = set()
    for s in segs:
        if s == 'F' and tail is False and 'quiet' in case:
            # the k-th F segment belongs to quiet iff it is the last F of the run
            pass
    qpos = [j for j, st_ in enumerate([x.strip().split(' ')[0] for x in prog.split(' ; P ')[1].split(' | ')]) if st_ == 'quiet']
    if qpos and last is not None:
        for s in segs[qpos[-1]:]:
            tr = kv(s).get('tr', '-')
            for t in ([] if tr == '-' else tr.split(',')):
                if t.startswith('p.'):
                    reported_in_tail.add(t.split('.')[2])
        pend = set(last.get('pend', '-').split(',')) - {'-'}
        pend_at_quiet = set()
        for sq in reversed(segs[:qpos[-1]]):
            if 'pend=' in sq:
                pend_at_quiet = set(kv(sq).get('pend', '-').split(',')) - {'-'}
                break
        for k in sorted(reported_in_tail & pend_at_quiet):
            if k in pend:
                bad.append('migration %s was reported finished during the fault-free tail and is still pending after it' % k)
            if commits_ok.get(k, 0) != 1:
                bad.append('migration %s reported finished during the fault-free tail: %d successful commits' % (k, commits_ok.get(k, 0)))
    if z.get('fm', '-') not in ('-', 'done'):
        bad.append('set-up: the real migration handshake did not finish (%s)' % z.get('fm'))
    if 'svcst' in z:
        if 'finishmig' in case and (z.get('svcpend') != '-' or z.get('svcnc') != '2'):
            bad.append('the production coordinator service left finished migrations uncommitted (pending %s, %s commits)' % (z.get('svcpend'), z.get('svcnc')))
        if case.startswith('C07F'):
            dn = re.findall(r'; down (\d+)', case)
            for a_ in dn:
                if 'a.7.%s.' % a_ not in z.get('svctr', ''):
                    bad.append('the production detector did not report the down proxy %s under its reporter id' % a_)
                if a_ not in z.get('failed', '').split(','):
                    bad.append('the production failure handler did not fail over proxy %s although two coordinators reported it' % a_)
    # a round in which no call was faulted and every proxy is reachable ends without error (OLD_EPOCH replies are not errors)
    if 'quiet' in case:
        stp_ = [x.strip().split(' ')[0] for x in prog.split(' ; P ')[1].split(' | ')]
        rw = [x for x in z.get('rounds', '-').split(',') if x in ('0', '1')]
        rsteps = [j for j, x in enumerate(stp_) if x in ('meta', 'mig', 'detect', 'handle')]
        q = max(j for j, x in enumerate(stp_) if x == 'quiet')
        for j, w_ in zip(rsteps, rw):
            if j > q and w_ != '1':
                bad.append('the fault-free round at step %d ended with an error' % j)
    if z.get('cmis', 'ok') != 'ok':
        bad.append('the broker accepted a commit for a (ranges, epoch) that was not the pending entry it removed, or a rejected commit changed the '
                   'pending set: %s' % z.get('cmis'))
    if z.get('order', 'ok') != 'ok':
        bad.append('migration-sync path pushed post-commit metadata to the source before the destination: %s' % z.get('order'))
    # ---- failure detection / handling clauses (C07F cases) ----
    if case.startswith('C07F'):
        steps = [x.strip() for x in prog.split(' ; P ')[1].split(' | ')]
        reports = []            # (time, reporter, address)
        rereg = {}              # address -> no get_failures may list it until it is reported again
        registered = set()
        for j, sg in enumerate(segs):
            d = kv(sg)
            stp = steps[j].split(' ') if j < len(steps) else ['?']
            T = int(d['T']) if 'T' in d and d['T'].lstrip('-').isdigit() else (reports[-1][0] if reports else 0)
            if stp[0] == 'adv' and 'reg' in stp:
                a = int(stp[stp.index('reg') + 1])
                if a in registered:
                    rereg[a] = True
                registered.add(a)
            tr = d.get('tr', '-')
            toks = [] if tr == '-' else tr.split(',')
            listed = set()
            is_handle = stp[0] == 'handle'
            for t in toks:
                p = t.split('.')
                if p[0] == 'a':
                    reports.append((T, int(p[1]), int(p[2])))
                    rereg.pop(int(p[2]), None)
                elif p[0] == 'g':
                    for a in ([] if p[1] == '-' else [int(z_) for z_ in p[1].split('+')]):
                        listed.add(a)
                        fresh = set(c for (t0, c, a0) in reports if a0 == a and t0 is not None and T is not None and 0 <= T - t0 < FAIL_TTL)
                        if len(fresh) < FAIL_QUORUM:
                            bad.append('get_failures listed proxy %d at time %s with %d distinct reporters within ttl (quorum %d)' % (a, T, len(fresh), FAIL_QUORUM))
                        if rereg.get(a):
                            bad.append('proxy %d was listed as failed after it re-registered and before any new report' % a)
                elif p[0] == 'x':
                    if int(p[1]) not in listed:
                        bad.append('replace_proxy called for proxy %s which the get_failures answer of this round did not list' % p[1])
                elif is_handle and p[0] in ('d', 'f'):
                    bad.append('the handling round sent a call to a proxy (%s)' % t)
    # routing of the probe key once nothing migrates
    for e in z.get('fin', '').split(','):
        p = e.split('|')
        if len(p) == 4 and p[0].isdigit() and int(p[0]) not in failed:
            if p[3] != '-' and p[2] != p[3]:
                bad.append('proxy %s routes the probe key to %s, broker says %s' % (p[0], p[2], p[3]))
    return bad


# Textual pins are kept ONLY for facts the harness cannot observe by running the code: the HTTP layer between coordinator and broker is
# replaced by a fake (FakeBroker::commit_migration / http_class in harness/ctrl) that mirrors the status mapping below, so that mapping is
# never executed here.  Every other fact that used to be pinned is now observed behaviourally (see PROBED_FACTS).
PINS = [
    ('/repo/src/coordinator/http_mani_broker.rs', r'status\.is_success\(\)\s*\|\|\s*status\.as_u16\(\)\s*==\s*404', 'commit_migration: 200 and 404 are Ok'),
    ('/repo/src/broker/service.rs', r'MetaStoreError::MigrationTaskNotFound\s*=>\s*http::StatusCode::NOT_FOUND', 'MigrationTaskNotFound -> 404'),
]

# fact -> the executed cases whose observable outcome (trace / boundary count compared with the model, or a monitor) changes when it is false
PROBED_FACTS = {
    'sync_migration_state pushes dst then src and aborts on the first error':
        'every mig round runs the real function; `order` monitor; single-fault sweep on the dst / src call boundaries (the model predicts which calls follow)',
    'send_meta_impl sends SETREPL, aborts on error, then SETCLUSTER':
        'single-fault sweep: a fault on a SETREPL boundary must leave the SETCLUSTER boundary unconsumed (nb and trace compared with the model)',
    'send_meta treats OLD_EPOCH as success':
        'single-fault sweep, fault on the source push of the mig round: in the tail mig round the source reports again, the commit answers NotFound, the '
        'destination answers OLD_EPOCH and the source must still be pushed in the same round (trace + nb compared with the model); also every meta round '
        'over up-to-date proxies must end Ok (monitor on rounds= of fault-free rounds)',
    'PingFailureDetector::check_impl tries three times':
        'every C07F detect round: number of q tokens per proxy and the report after exactly three failures are compared with Model/CtrlFail.v',
    'ReplaceNodeHandler only calls replace_proxy':
        'every C07F handle round: the recording FakeBroker / CoordNet see every call the real handler makes; monitor "the handling round sent a call to a proxy"; nb compared with the model',
    'service.rs assembles detector / synchronizers / handler from the parts the harness assembles':
        'wiring probes (`service` step): the production CoordinatorService::run drives its own four loops over the fakes; monitors on the resulting state',
}


def check_pins(chk):
    broken = []
    for path, rx, what in PINS:
        try:
            src = open(path).read()
        except OSError:
            src = ''
        if not re.search(rx, src):
            broken.append({'file': path, 'what': what})
    chk.sub('pins', checked=len(PINS), broken=len(broken))
    for b in broken:
        chk.violation({'kind': 'correspondence', 'correspondence': 'textual pin of code the harness fakes / the model mirrors', 'detail': b}, no_input=True)


def run_both(chk, lines, jobs=8):
    rc, impl = chk.run_impl('ctrl', lines, timeout=2400, jobs=jobs)
    progs, parsed = [], []
    for o in impl:
        p = parse_impl(o)
        parsed.append(p)
        progs.append(p[0] if p else 'N 0 ; E - - ; V - ; S - ; I - ; Q - ; P nop')
    rc2, model = chk.run_model('ctrl', progs, timeout=2400, jobs=jobs)
    return impl, parsed, model


def run(chk):
    ok = vlib.standard_proof_phase(chk, TRUSTED, 'ctrl')
    chk.cov['rule'] = ('a case = fault script (fault kind per call boundary, restarts / replays injected at boundaries) + a broker history + coordinator rounds, ending '
                       'in a fault-free tail of one migration-sync and one meta-sync round; non-trivial = distinct case with at least one fault or injection that '
                       'was actually reached (the boundary exists in the run) or a corpus case')
    if not ok:
        return
    check_pins(chk)
    cases = gen_cases(chk)
    lines = [c for _, c in cases]
    impl, parsed, model = run_both(chk, lines)
    hist, nfail, disagreements = {}, 0, []
    stats = {'faults_reached': 0, 'crashed_rounds': 0, 'old_epoch_replies': 0, 'commit_notfound': 0, 'commit_ok': 0, 'restarts': 0,
             'cases_with_migration_commit': 0}
    for i, (kind, c) in enumerate(cases):
        hist[kind] = hist.get(kind, 0) + 1
        o = impl[i] if i < len(impl) else '<no output>'
        p = parsed[i] if i < len(parsed) else None
        m = model[i] if i < len(model) else '<no output>'
        if p is None:
            nfail += 1
            chk.violation({'kind': 'monitor', 'case': c, 'impl': o[:2000], 'what': 'the harness produced no observation (panic / timeout inside the real code)'})
            continue
        prog, segs, z = p
        # was any scripted fault reached?
        nb = 0
        for s in segs:
            d = kv(s)
            if 'nb' in d:
                nb = max(nb, int(d['nb']))
            tr = d.get('tr', '-')
            stats['old_epoch_replies'] += tr.count('.old')
            stats['commit_notfound'] += len(re.findall(r'c\.\d+\.nf', tr))
            stats['commit_ok'] += len(re.findall(r'c\.\d+\.ok', tr))
            stats['restarts'] += len(re.findall(r'(?:^|,)r\.\d+', tr))
            stats['crashed_rounds'] += 1 if d.get('cr') == '1' else 0
        if re.search(r'c\.\d+\.ok', o):
            stats['cases_with_migration_commit'] += 1
        reached = [int(x.split(':')[0]) for x in re.findall(r'(?<![M\d])(\d+:[a-z]+)', c.split(';')[0])]
        nontrivial = kind in ('corpus', 'stale-commit', 'membership-recovery', 'service-probe') or any(x < nb for x in reached)
        if nontrivial and kind != 'corpus':
            stats['faults_reached'] += 1
        chk.count(c, nontrivial)
        bad = monitor(c, prog, segs, z)
        want = 'O ' + ' ; '.join(segs)
        if bad:
            nfail += 1
            chk.violation({'kind': 'monitor', 'case': c, 'impl': o[:6000], 'model': m[:3000], 'what': bad[:5]})
        elif m != want:
            ms = m[2:].split(' ; ') if m.startswith('O ') else [m]
            first = next((j for j in range(min(len(ms), len(segs))) if ms[j].strip() != segs[j]), min(len(ms), len(segs)))
            disagreements.append({'case': c, 'step': first, 'impl': segs[first] if first < len(segs) else '<end>',
                                  'model': ms[first].strip() if first < len(ms) else '<end>'})
        if i % 131 == 0:
            chk.sample({'case': c, 'impl_tail': ' ; '.join(segs[-3:])[:600], 'monitor': 'ok' if not bad else bad[:2]})
    chk.cov['traces_validated_against_impl'] = len(cases) - len(disagreements) - nfail
    chk.sub('distribution', kinds=hist, monitor_failures=nfail, disagreements=len(disagreements), **stats)
    chk.sub('single_fault_window', exhaustive=True, boundaries='%d..%d' % (A_LO, A_HI - 1), fault_kinds=KINDS,
            note='every call boundary of the migration-sync + meta-sync rounds of the 4-proxy scale-out, every fault kind, plus a restart at every boundary')
    if disagreements and not nfail:
        chk.violation({'kind': 'correspondence', 'correspondence': 'Model/Ctrl.v (meta_round / mig_round / step) vs coordinator/{core,sync,migration}.rs + proxy set_meta + broker commit_migration',
                       'first': disagreements[0], 'count': len(disagreements),
                       'search': 'monitors evaluated on all %d implementation runs incl. the disagreeing ones: no property failure' % len(cases)},
                      no_input=True)


def replay(data):
    chk = vlib.Check('C07', 'quick', 0)
    c = data.get('case') or (data.get('first') or {}).get('case')
    if not c:
        print(data)
        return 0
    chk.build_impl('ctrl')
    impl, parsed, model = run_both(chk, [c], jobs=1)
    print('case :', c)
    print('impl :', impl[0] if impl else None)
    print('model:', model[0] if model else None)
    if not parsed or parsed[0] is None:
        return 1
    bad = monitor(c, *parsed[0])
    print('monitor:', bad or 'ok')
    agree = bool(model) and model[0] == 'O ' + ' ; '.join(parsed[0][1])
    print('model agrees with implementation:', agree,
          '(broker allocation is hash-order dependent: another run of the same case line may exercise another layout)')
    return 1 if bad else 0
