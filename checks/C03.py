"""C03 Live slot migration neither loses, duplicates nor resurrects data.
Proof: coq/Props/C03.v over Model/Migrate.v (per-key small-step model of both proxies, the scanner and any number of
in-flight client operations).  Correspondence: harness/migrate runs two REAL proxies with storing Redis stand-ins, the real
handshake and the real scan under concurrent random client traffic; the extracted model is used as an ACCEPTOR of the
per-key projection of every recorded Redis-level / client-level event sequence.  Monitors on the implementation: per-key
register linearizability of the client history, final placement, and the deterministic replay of the model's witness
(stale scanner copy vs. a deleting command) on the real code.  Finite obligation: requires_blocking_migration against the
hand-curated table may_delete_its_key over the supported-command table."""
import vlib, json, os, re, sys

MANIFEST = {
  'text': 'Theorems (Props/C03.v, all closed under the global context) about the executable per-key model Model/Migrate.v, which mirrors '
          'RedisScanMigratingTask/RedisScanImportingTask (phases, send per phase, handshake), ScanMigrationTask (scan batch under the slot lock, '
          'UMSYNC fast path under the slot lock and slow-path queue between batches, RESTORE without REPLACE, DEL) and RestoreDataCmdTaskHandler '
          '(EXISTS / key lock / DUMP+PTTL / RESTORE+command / DEL pull path; UMSYNC push path with the 10 lock retries) with an ARBITRARY list of '
          'in-flight operations: C03_step_simulation (every step either keeps the logical register L = dst-else-src and is nobody\'s linearization '
          'point, or is the linearization point of exactly one in-flight operation, applies its register semantics to L and stores L-before as its reply), '
          'C03_linearizable (FULL, not the _partial fallback: slow-path queue and retry exhaustion included; forward simulation to a one-register '
          'spec over all runs), C03_final (scan passed + committed + quiescent => src empty, dst = value of the last linearized write / nothing after a delete), '
          'C03_ttl_preserved (every transfer copies (val, ttl_restore pttl): C19), plus witness theorems showing each run premise is necessary '
          '(C03_unclassified_delete_refuted, C03_commit_race_witness, C03_barrier_needed_witness, C03_ensured_delete_witness), C03_ensured_needs_import '
          '(the effect of a multi-key command on a key it is not routed by - event EvEnsured, modelling ensure_keys_imported - is never enabled while the key is only on the source) and the finite classification table '
          '(C03_unclassified_on_pinned_tree = SDIFFSTORE, SINTERSTORE, ZINTERSTORE, ZUNIONSTORE; C03_classification_complete with work/fix_C03.diff). '
          'Tie to the code: real proxies + real handshake + real scan in one process under random traffic; the extracted model must ACCEPT the per-key '
          'projection of every trace (exact value of the key on the touched Redis node before every command, every invocation and reply); '
          'monitors on the implementation: per-key linearizability (search), final placement, witness replay with a held scanner RESTORE.',
  'note': 'Level: proof at model level; PARTIAL for the implementation. Visible run premises of the theorems: c11_ok (imported from C11: no client command executes on the '
          'source Redis after blocking-done), classified_ok (every deleting command is in requires_blocking_migration: discharged for the 137 supported commands by the '
          'finite table ONLY with work/fix_C03.diff applied; on the pinned tree 4 supported commands violate it and the witness replays on the real code), commit_ok '
          '(the destination\'s metadata commit does not overtake a transfer that still holds a dumped value: a theoretical race of the real code - a pull-path command '
          'stalled between DUMP and RESTORE across the whole final switch - shown necessary by C03_commit_race_witness, NOT replayed on the real code). '
          'ensured_ok (a multi-key script that DELETES a key other than its first - pushed for the first key only - is covered only when the source copy is gone and no transfer holds a dump of it; '
          'necessity: C03_ensured_delete_witness; observed outside-premise on the real code in the directed multi-key runs, without client-visible effect). '
          'Known finding multikey-eval-active-redirect-precheck-race (reported as KNOWN-FINDING by the directed `race` cases, active=1 only). Not modelled: real time (key expiry during migration, max_blocking_time / max_migration_time force-ahead, reconnects), Redis errors other than BUSYKEY, '
          'MAX_REDIRECTIONS, multi-key commands (only the first key is pulled by the importing proxy: the *STORE source keys may still be on the source - seen by the harness '
          'with sets=1, outside this per-key model). Real schedules are sampled, not enumerated; the acceptor searches hidden (lock / routing / handshake) events. '
          'Trusted: Coq kernel, extraction + ocaml/d_migrate.ml (acceptor search), harness/migrate stand-ins (Redis semantics: atomic commands, RESTORE without REPLACE = BUSYKEY, '
          'bucket-cursor SCAN), hand-curated may_delete_its_key, this file.',
  'technique': 'Coq proof (inductive invariant over program counters, forward simulation) + model-as-acceptor trace validation against the real code + implementation monitors',
 }

TRUSTED = ['Coq 8.16.1 kernel (coqc; coqchk in the thorough tier); no axioms (Print Assumptions: closed under the global context)',
           'extraction with ExtrOcamlBasic only + ocaml/vio.ml, d_migrate.ml (acceptor: depth-first search over hidden model events), driver_lib.ml',
           'harness/migrate: storing Redis stand-ins (GET/SET/APPEND/DEL/EXISTS/PTTL/DUMP/RESTORE-without-REPLACE/SCAN with bucket cursor/set commands), fake connection and client factories',
           'Redis semantics assumed: each command atomic; RESTORE of an existing key answers BUSYKEY and changes nothing; SCAN returns every key present throughout the iteration',
           'C11 (barrier) imported as the run premise c11_ok; hand-curated table may_delete_its_key (Redis command reference)',
           'textual pins: the four command lists in coq/Model/Migrate.v; get_non_blocking_name in src/proxy/executor.rs (blocking pops are translated before classification)']

MAY_DELETE = ['BLPOP', 'BRPOP', 'BRPOPLPUSH', 'BZPOPMAX', 'BZPOPMIN', 'DEL', 'EVAL', 'EVALSHA', 'EXPIRE', 'EXPIREAT', 'HDEL',
              'LPOP', 'LREM', 'LTRIM', 'MOVE', 'PEXPIRE', 'PEXPIREAT', 'RENAME', 'RENAMENX', 'RPOP', 'RPOPLPUSH', 'SDIFFSTORE',
              'SINTERSTORE', 'SMOVE', 'SPOP', 'SREM', 'SUNIONSTORE', 'UNLINK', 'ZINTERSTORE', 'ZPOPMAX', 'ZPOPMIN', 'ZREM',
              'ZREMRANGEBYLEX', 'ZREMRANGEBYRANK', 'ZREMRANGEBYSCORE', 'ZUNIONSTORE']
BLOCKING_TRANSLATION = {'BLPOP': 'LPOP', 'BRPOP': 'RPOP', 'BRPOPLPUSH': 'RPOPLPUSH', 'BZPOPMIN': 'ZPOPMIN', 'BZPOPMAX': 'ZPOPMAX'}
KNOWN_ID = 'unclassified-store-commands-resurrect-deleted-key'
RACE_ID = 'multikey-eval-active-redirect-precheck-race'
ENSURE_ROUNDS = 3
CLIENT_CMDS = ('GET', 'SET', 'DEL', 'APPEND', 'EVAL', 'EXISTS', 'MGET', 'MSET')


# ---------------------------------------------------------------- finite obligation
def coq_list(name):
    src = vlib.strip_comments(open(vlib.COQ + '/Model/Migrate.v').read())
    m = re.search(r'Definition\s+%s\s*:\s*list string\s*:=\s*\[(.*?)\]\.' % name, src, re.S)
    return re.findall(r'"([A-Z_]+)"', m.group(1)) if m else None


def finite_obligation(chk):
    table = json.load(open('/repo/docs/command_table.json'))
    supported = sorted(k.upper() for k, v in table.items() if v.get('supported'))
    allnames = sorted(set(k.upper() for k in table if re.fullmatch(r'[A-Za-z_-]+', k)) | set(MAY_DELETE))
    m_sup, m_orig, m_fix, m_may = coq_list('supported_cmds'), coq_list('code_deleting_orig'), coq_list('code_deleting_fix'), coq_list('may_delete_its_key')
    problems = []
    if sorted(m_sup or []) != supported:
        problems.append({'what': 'supported_cmds of Model/Migrate.v differs from docs/command_table.json',
                         'only_model': sorted(set(m_sup or []) - set(supported)), 'only_table': sorted(set(supported) - set(m_sup or []))})
    if sorted(m_may or []) != sorted(MAY_DELETE):
        problems.append({'what': 'may_delete_its_key of Model/Migrate.v differs from the table in checks/C03.py'})
    ex = open('/repo/src/proxy/executor.rs').read()
    for b, nb in BLOCKING_TRANSLATION.items():
        if not re.search(r'DataCmdType::%s\s*=>\s*Ok\("%s"\)' % (b.capitalize(), nb), ex):
            problems.append({'what': 'executor.rs no longer translates %s to %s before dispatch' % (b, nb)})
    cases = ['classify ' + n for n in allnames]
    rc, impl = chk.run_impl('migrate', cases)
    code = {}
    for c, o in zip(cases, impl):
        t = o.split()
        if len(t) >= 3 and t[0] == 'classify':
            code[t[1]] = t[2] == '1'
    model_cls = set((m_orig or []) + (m_fix or []))
    disagree = [n for n in allnames if code.get(n) != (n in model_cls)]
    uncls = [n for n in supported if n in MAY_DELETE and not code.get(BLOCKING_TRANSLATION.get(n, n), False)]
    for n in allnames:
        chk.count('classify ' + n, True)
    chk.sub('finite_obligation', exhaustive=True, names=len(allnames), supported=len(supported), may_delete=len(MAY_DELETE),
            code_deleting=sorted(n for n in allnames if code.get(n)), unclassified_supported=uncls, model_code_disagreements=disagree)
    for p in problems:
        chk.violation({'kind': 'correspondence', 'correspondence': 'command tables', 'detail': p}, no_input=True)
    return uncls, disagree


# ---------------------------------------------------------------- trace processing
def unhex(h):
    return b'' if h == '-' else bytes.fromhex(h)


def hx(b):
    return b.hex() if b else '-'


def load_trace(path):
    evs = [json.loads(l) for l in open(path) if l.strip()]
    meta = [e for e in evs if e['t'] == 'meta'][0]
    evs = sorted([e for e in evs if e['t'] != 'meta'], key=lambda e: e['seq'])
    return meta, evs


class Store:
    """python replica of one stand-in (string values only); used to give the acceptor the exact value of a key before every command"""
    def __init__(self):
        self.d = {}
        self.bad = []

    def apply(self, e):
        cmd = [unhex(x) for x in e['cmd']]
        name = cmd[0].upper()
        pre = {}
        rep = e['reply']
        def chk(cond, what):
            if not cond and len(self.bad) < 5:
                self.bad.append({'seq': e['seq'], 'what': what, 'cmd': [c.decode('latin1') for c in cmd][:4], 'reply': rep})
        if name == b'EVAL':
            verb, inline, keys, argv = parse_script(cmd)
            for k in keys:
                pre.setdefault(k, self.d.get(k))
            if verb == b'DELALL':
                n = 0
                for k in keys:
                    if k in self.d:
                        n += 1; del self.d[k]
                chk(rep == 'I ' + hx(str(n).encode()), 'EVAL DELALL reply')
            elif verb == b'GETALL':
                exp = 'A %d' % len(keys) + ''.join(' BN' if pre[k] is None else ' B ' + hx(pre[k]) for k in keys)
                chk(rep == exp, 'EVAL GETALL reply')
            elif verb == b'SETALL':
                v = argv[0] if argv else inline
                for k in keys:
                    self.d[k] = v
            return name, cmd, pre
        if name == b'EXISTS' and len(cmd) > 2:
            for k in cmd[1:]:
                pre[k] = self.d.get(k)
            return name, cmd, pre
        if name in (b'GET', b'SET', b'APPEND', b'EXISTS', b'PTTL', b'DUMP', b'RESTORE'):
            k = cmd[1]
            old = self.d.get(k)
            pre[k] = old
            if name == b'GET':
                chk(rep == ('BN' if old is None else 'B ' + hx(old)), 'GET reply')
            elif name == b'SET':
                self.d[k] = cmd[2]
            elif name == b'APPEND':
                self.d[k] = (old or b'') + cmd[2]
                chk(rep == 'I ' + hx(str(len(self.d[k])).encode()), 'APPEND reply')
            elif name == b'EXISTS':
                chk(rep == 'I ' + hx(b'0' if old is None else b'1'), 'EXISTS reply')
            elif name == b'PTTL':
                chk((rep == 'I ' + hx(b'-2')) == (old is None), 'PTTL reply')
            elif name == b'DUMP':
                chk(rep == ('BN' if old is None else 'B ' + hx(b'S' + old)), 'DUMP reply')
            elif name == b'RESTORE':
                if old is None:
                    chk(rep.startswith('S '), 'RESTORE reply (key absent)')
                    self.d[k] = cmd[3][1:]
                else:
                    chk(rep.startswith('E ') and unhex(rep.split()[1]).startswith(b'BUSYKEY'), 'RESTORE reply (key present)')
        elif name == b'DEL':
            n = 0
            for k in cmd[1:]:
                pre[k] = self.d.get(k)
                if k in self.d:
                    n += 1
                    del self.d[k]
            chk(rep == 'I ' + hx(str(n).encode()), 'DEL reply')
        return name, cmd, pre


def parse_script(cmd):
    """EVAL <text> <n> keys.. argv..  with text = VERB[=value][:unique]  (the stand-in's fake script vocabulary)"""
    text = cmd[1]
    n = int(cmd[2])
    keys, argv = cmd[3:3 + n], cmd[3 + n:]
    head = text.split(b':')[0]
    verb, _, inline = head.partition(b'=')
    return verb.upper(), inline, keys, argv


def split_cmd(cmd):
    """per-key view of a client command: list of sub-operations
    {key, kind r|w|d|a|e, wval, push: None (by command name) | 2 (non-first key of a multi-key script), internal, pos}
    a multi-key command is ONE operation on each of its keys; MGET / MSET / multi-key DEL / EXISTS are split by the proxy into
    single-key commands; a multi-key EVAL first runs `EXISTS key` for every key (ensure_keys_imported: internal reads) and is then
    routed by its first key only"""
    name = cmd[0].upper()
    subs = []
    def sub(key, kind, wval=None, push=None, internal=False, pos=0, cname=None):
        subs.append({'key': key, 'kind': kind, 'wval': wval, 'push': push, 'internal': internal, 'pos': pos, 'cname': (cname or name).decode()})
    if name == b'GET' and len(cmd) == 2: sub(cmd[1], 'r')
    elif name == b'SET' and len(cmd) >= 3: sub(cmd[1], 'w', cmd[2])
    elif name == b'APPEND' and len(cmd) == 3: sub(cmd[1], 'a', cmd[2])
    elif name == b'DEL':
        for i, k in enumerate(cmd[1:]): sub(k, 'd', pos=i)
    elif name == b'EXISTS':
        for i, k in enumerate(cmd[1:]): sub(k, 'e', pos=i)
    elif name == b'MGET':
        for i, k in enumerate(cmd[1:]): sub(k, 'r', pos=i, cname=b'GET')
    elif name == b'MSET':
        for i in range(1, len(cmd) - 1, 2): sub(cmd[i], 'w', cmd[i + 1], pos=(i - 1) // 2, cname=b'SET')
    elif name == b'EVAL' and len(cmd) >= 4:
        verb, inline, keys, argv = parse_script(cmd)
        kind = {b'DELALL': 'd', b'GETALL': 'r', b'SETALL': 'w'}.get(verb, '?')
        wval = (argv[0] if argv else inline) if kind == 'w' else None
        for i, k in enumerate(keys):
            if len(keys) >= 2:
                for _ in range(ENSURE_ROUNDS):     # a redirected multi-key command runs ensure_keys_imported again on the next proxy
                    sub(k, 'e', internal=True, pos=i, cname=b'EXISTS')
            sub(k, kind, wval, push=(2 if i > 0 else None), pos=i)
    elif len(cmd) > 1:
        sub(cmd[1], '?')
    return subs


def sub_reply(o, sb):
    """(acceptor constraint, per-key reply in single-key notation or None = unconstrained) of sub-operation sb of client operation o"""
    r = o['reply']
    if r is None: return 'any', None
    if r.startswith('E '): return 'err', r
    name = o['cmd'][0].upper()
    n = len([x for x in o['subs'] if not x['internal']])
    toks = r.split()
    def elem(i):
        # i-th element of an array reply of bulk strings in token notation
        j, out = 2, []
        while j < len(toks):
            if toks[j] == 'BN': out.append('BN'); j += 1
            else: out.append('B ' + toks[j + 1]); j += 2
        return out[i] if i < len(out) else None
    if sb['kind'] == 'r':
        pr = r if name == b'GET' else elem(sb['pos'])
        if pr is None: return 'any', None
        return ('nil' if pr == 'BN' else 'val:' + (pr.split()[1] if len(pr.split()) > 1 else '-')), pr
    if sb['kind'] in ('d', 'e'):
        if name in (b'DEL', b'EXISTS') and n == 1:
            return ('nil' if r == 'I ' + hx(b'0') else 'some'), r
        return 'any', None
    if sb['kind'] == 'w': return 'any', 'S 4f4b'
    if sb['kind'] == 'a': return 'any', r
    return 'any', None


def analyse(meta, evs, pushes):
    """returns dict: per-key acceptor lines, client ops, finals, overlap counts, stand-in sanity problems"""
    inkeys = set(unhex(k) for k in meta['inkeys'])
    # destination (proxy, node) of every range key: one migration (P2/R2) or, in the `multi` runs, the key's part
    parts = meta.get('parts')
    dest = {}
    for i, hk in enumerate(meta['inkeys']):
        if parts and 'inkeys_part' in meta and i < len(meta['inkeys_part']):
            pt = parts[meta['inkeys_part'][i]]
            dest[unhex(hk)] = (pt['dst_proxy'], pt['dst_node'])
        else:
            dest[unhex(hk)] = ('P2', 'R2')
    stores = {'R1': Store(), 'R2': Store(), 'R3': Store()}
    ops = {}            # opid -> dict
    keyev = {}          # key -> list of (seq, kind, payload)
    writers = {}        # (key, value or suffix) -> sub-operation
    scripts = {}        # script text -> client operation
    has_exists = set()  # keys on which an EXISTS command (client or ensure_keys_imported) may execute
    pending_ident = []  # single-key GET / DEL executions whose client operation is found afterwards (interval + reply)
    init = {}
    finals = {}
    phases = []
    unexpected = []
    # ensure_keys_imported only acts while an importing task exists: from the first delivery of the migration metadata to the last commit
    w0 = min([e['seq'] for e in evs if e['t'] == 'epoch' and e.get('epoch') == 2] or [0])
    w1 = max([e['seq'] for e in evs if e['t'] == 'commit'] or [float('inf')])
    for e in evs:
        t = e['t']
        if t == 'inv':
            cmd = [unhex(x) for x in e['cmd']]
            subs = split_cmd(cmd)
            if e['seq'] > w1:
                subs = [sb for sb in subs if not sb['internal']]
            o = {'op': e['op'], 'cmd': cmd, 'key': subs[0]['key'] if subs else b'', 'kind': subs[0]['kind'] if len(subs) == 1 else 'm',
                 'inv': e['seq'], 'rep': None, 'reply': None, 'proxy': e['proxy'], 'subs': subs}
            ops[e['op']] = o
            if cmd[0].upper() == b'EVAL' and len(cmd) > 1:
                scripts[cmd[1]] = o
            for j, sb in enumerate(subs):
                sb['op'] = o; sb['id'] = (e['op'], j)
                if sb['kind'] in ('w', 'a') and sb['wval'] is not None:
                    writers[(sb['key'], sb['wval'])] = sb
                if sb['kind'] == 'e':
                    has_exists.add(sb['key'])
                keyev.setdefault(sb['key'], []).append((e['seq'], 'inv', sb))
        elif t == 'rep':
            o = ops.get(e['op'])
            if o is not None:
                o['rep'] = e['seq']; o['reply'] = e['reply']
                if e['seq'] < w0:
                    o['subs'] = [sb for sb in o['subs'] if not sb['internal']]
                    for k2 in set(sb['key'] for sb in o['subs']):
                        keyev[k2] = [x for x in keyev.get(k2, []) if not (x[1] == 'inv' and x[2]['internal'] and x[2]['op'] is o)]
                for sb in o['subs']:
                    keyev.setdefault(sb['key'], []).append((e['seq'], 'kill' if sb['internal'] else 'rep', sb))
        elif t == 'redis':
            st = stores[e['node']]
            name, cmd, pre = st.apply(e)
            if e.get('owner') == 'H':
                for k in pre:
                    init[k] = st.d.get(k)
                continue
            if name == b'SCAN':
                continue
            lname = name.decode().lower()
            for k, old in pre.items():
                dp, dn = dest.get(k, ('P2', 'R2'))
                who = {('R1', 'P1', 'conn'): 'c', ('R1', dp, 'conn'): 'p', ('R1', 'P1', 'client'): 'x',
                       (dn, dp, 'conn'): 'p', (dn, 'P1', 'client'): 'x'}.get((e['node'], e['owner'], e['via']))
                side = 's' if e['node'] == 'R1' else 'd'
                if k not in dest:
                    continue              # a key outside the moving ranges: only the client-history monitors look at it
                if who is None:
                    unexpected.append({'seq': e['seq'], 'node': e['node'], 'owner': e['owner'], 'via': e['via'], 'cmd': name.decode()})
                    continue
                pv = 'nil' if old is None else 'val:' + hx(old)
                client_side = (side, who) in (('s', 'c'), ('d', 'p'))
                if client_side and lname in ('get', 'set', 'del', 'append'):
                    kd = {'get': 'r', 'set': 'w', 'del': 'd', 'append': 'a'}[lname]
                    sbid, val = None, '-'
                    if kd in ('w', 'a'):
                        sb = writers.get((k, cmd[2]))
                        newv = cmd[2] if kd == 'w' else (old or b'') + cmd[2]
                        val = hx(newv)
                        if sb is not None:
                            sb['xval'] = newv; sbid = sb['id']
                        kd = 'w'
                    entry = [e['seq'], 'redis', (side, who, 'cmd', pv, sbid, kd, val)]
                    if sbid is None:
                        pending_ident.append((e['seq'], k, kd, e['reply'], entry))
                    keyev.setdefault(k, []).append(entry)
                elif client_side and lname == 'eval':
                    verb, inline, keys, argv = parse_script(cmd)
                    kd = {b'DELALL': 'd', b'GETALL': 'r', b'SETALL': 'w'}.get(verb, 'r')
                    val = hx(argv[0] if argv else inline) if kd == 'w' else '-'
                    o = scripts.get(cmd[1])
                    sbid = None
                    if o is not None:
                        for sb in o['subs']:
                            if sb['key'] == k and not sb['internal']:
                                sbid = sb['id']
                                if kd == 'w': sb['xval'] = argv[0] if argv else inline
                    keyev.setdefault(k, []).append((e['seq'], 'redis', (side, who, 'cmd', pv, sbid, kd, val)))
                elif client_side and lname == 'exists' and k in has_exists:
                    keyev.setdefault(k, []).append((e['seq'], 'redis', (side, who, 'existsq', pv)))
                elif lname in ('pttl', 'dump', 'del', 'exists', 'restore'):
                    keyev.setdefault(k, []).append((e['seq'], 'redis', (side, who, lname, pv)))
                else:
                    unexpected.append({'seq': e['seq'], 'node': e['node'], 'who': who, 'cmd': name.decode()})
        elif t == 'commit0':
            for k, (dp, dn) in dest.items():
                if dp == e['proxy']:
                    keyev.setdefault(k, []).append([e['seq'], 'cmt0', None])
        elif t == 'phase':
            phases.append((e['seq'], e['src'], e['dst']))
        elif t == 'final':
            finals[e['node']] = {unhex(k): unhex(v)[1:] for k, v in e['keys'].items()}
    # a GET / DEL execution belongs to the only client operation on that key of that kind whose interval contains it and whose reply is the stand-in's
    for seq, k, kd, reply, entry in pending_ident:
        cands = []
        for x in keyev.get(k, []):
            if x[1] != 'inv': continue
            sb = x[2]; o = sb['op']
            if sb['internal'] or sb['kind'] != kd or sb['cname'] not in ('GET', 'DEL'): continue
            _, pr = sub_reply(o, sb)
            if o['inv'] < seq and (o['rep'] is None or o['rep'] > seq) and (pr is None or pr == reply or pr.startswith('E ')):
                cands.append(sb)
        if len(cands) == 1:
            entry[2] = entry[2][:4] + (cands[0]['id'],) + entry[2][5:]
    # acceptor lines for the in-range keys
    lines = {}
    for k in sorted(inkeys):
        seqd = sorted(keyev.get(k, []), key=lambda x: x[0])
        idx = {}
        toks = []
        for _, kind, x in seqd:
            if kind == 'inv':
                idx[x['id']] = len(idx)
                kd = {'w': 'w', 'a': 'w', 'd': 'd', 'e': 'e'}.get(x['kind'], 'r')
                wv = x.get('xval', x['wval'] if x['kind'] == 'w' else None)
                v = hx(wv) if wv is not None else ('-' if kd != 'w' else hx(b'?unexecuted'))
                push = '3' if x['internal'] else '2' if x['push'] == 2 else ('1' if pushes.get(x['op']['cmd'][0].upper().decode() if not x['internal'] else 'EXISTS', False) else '0')
                if x['cname'] in ('GET', 'SET', 'EXISTS') and x['push'] != 2 and x['op']['cmd'][0].upper() in (b'MGET', b'MSET'):
                    push = '1' if pushes.get(x['cname'], False) else '0'
                toks.append('inv %d %s %s %s %s' % (idx[x['id']], kd, v, push, '1' if x['op']['proxy'] == 'P1' else '0'))
            elif kind == 'kill':
                toks.append('kill %d' % idx[x['id']])
            elif kind == 'cmt0':
                toks.append('cmt0')
            elif kind == 'rep':
                c, _ = sub_reply(x['op'], x)
                toks.append('rep %d %s' % (idx[x['id']], c))
            else:
                if len(x) == 4:
                    toks.append('%s %s %s %s' % x)
                else:
                    side, who, nm, pv, sbid, kd, val = x
                    toks.append('%s %s %s %s %d %s %s' % (side, who, nm, pv, idx.get(sbid, -1), kd, val))
        dn = dest[k][1]
        if 'R1' in finals:
            v = finals['R1'].get(k); toks.append('fin s ' + ('nil' if v is None else 'val:' + hx(v)))
        if dn in finals:
            v = finals[dn].get(k); toks.append('fin d ' + ('nil' if v is None else 'val:' + hx(v)))
        i0 = init.get(k)
        lines[k] = 'accept %s | %s' % ('nil' if i0 is None else 'val:' + hx(i0), ' | '.join(toks))
    # how many client operations overlapped each source phase
    overlap = {}
    spans = []
    for i, (seq, s, d) in enumerate(phases):
        end = phases[i + 1][0] if i + 1 < len(phases) else float('inf')
        spans.append((s, seq, end))
    for o in ops.values():
        if o['rep'] is None: continue
        seen = set()
        for s, a, b in spans:
            if o['inv'] < b and o['rep'] > a and o['key'] in inkeys:
                seen.add(s)
        for s in seen:
            overlap[s] = overlap.get(s, 0) + 1
    return {'lines': lines, 'ops': ops, 'finals': finals, 'init': init, 'overlap': overlap, 'inkeys': inkeys, 'dest': dest,
            'standin_problems': stores['R1'].bad + stores['R2'].bad + stores['R3'].bad, 'unexpected': unexpected}


# ---------------------------------------------------------------- monitors on the implementation
def linearizable(ops, init, final):
    """ops: list of dicts (kind, cmd, inv, rep, reply) on ONE key, string register. Wing-Gong search with memoisation.
    final: (present, value) a read at the end of time, or None. Returns None if linearizable, else a description."""
    todo = []
    for o in ops:
        if o['rep'] is None:
            continue                      # never answered: may or may not have taken effect; harness waits for all, so none
        if o['reply'].startswith('E '):
            continue                      # error reply: the model says no effect; counted separately
        todo.append(o)
    if final is not None:
        todo.append({'kind': 'f', 'inv': float('inf'), 'rep': float('inf'), 'reply': final, 'cmd': None, 'op': -1})
    todo.sort(key=lambda o: o['inv'])
    n = len(todo)
    if n > 400:
        return None
    sys.setrecursionlimit(10000)
    seen = set()

    def effect(o, v):
        k = o['kind']
        if k == 'r':
            exp = 'BN' if v is None else 'B ' + hx(v)
            return (o['reply'] == exp), v
        if k == 'w':
            return o['reply'].startswith('S '), o['cmd'][2]
        if k == 'a':
            nv = (v or b'') + o['cmd'][2]
            return o['reply'] == 'I ' + hx(str(len(nv)).encode()), nv
        if k == 'd':
            return o['reply'] == 'I ' + hx(b'1' if v is not None else b'0'), None
        if k == 'D':
            return True, None             # a delete whose per-key result is not visible in the reply (multi-key DEL / DELALL)
        if k == 'e':
            return o['reply'] == 'I ' + hx(b'1' if v is not None else b'0'), v
        if k == 'f':
            return o['reply'] == v, v
        return True, v

    def go(done, v):
        if len(done) == n:
            return True
        key = (done, v)
        if key in seen:
            return False
        seen.add(key)
        if len(seen) > 300000:
            return True                   # budget: give up silently (counted by caller through len(seen))
        pending = [i for i in range(n) if i not in done]
        minrep = min(todo[i]['rep'] for i in pending)
        for i in pending:
            if todo[i]['inv'] > minrep:
                break
            ok, nv = effect(todo[i], v)
            if ok and go(done | frozenset([i]), nv):
                return True
        return False

    if go(frozenset(), init):
        return None
    return 'client history of the key is not linearizable as one register (%d operations)' % n


def monitors(an):
    bad = []
    byk = {}
    for o in an['ops'].values():
        for sb in o['subs']:
            if sb['internal'] or sb['kind'] == '?':
                continue
            _, pr = sub_reply(o, sb)
            kind = sb['kind']
            if o['reply'] is not None and o['reply'].startswith('E '):
                pr = o['reply']
            elif pr is None:
                if kind in ('d',): kind = 'D'
                elif kind in ('e', 'r'): continue      # a read whose per-key result is not visible: no constraint
            byk.setdefault(sb['key'], []).append({'op': o['op'], 'kind': kind, 'cmd': [sb['cname'].encode(), sb['key'], sb['wval']],
                                                  'inv': o['inv'], 'rep': o['rep'], 'reply': (pr if pr is not None else 'any')})
    finals = an['finals']
    nerr = sum(1 for o in an['ops'].values() if o['reply'] and o['reply'].startswith('E '))
    for k, os_ in byk.items():
        inr = k in an['inkeys']
        home = an['dest'].get(k, ('P2', 'R2'))[1] if inr else 'R1'
        fin = None
        if home in finals:
            fin = finals[home].get(k)
            for other in finals:
                if other != home and k in finals[other]:
                    bad.append({'key': k.decode('latin1'), 'what': 'key still present on %s after the commit (value %r)' % (other, finals[other][k])})
        r = linearizable(os_, an['init'].get(k), fin) if home in finals else linearizable(os_, an['init'].get(k), None)
        if r:
            bad.append({'key': k.decode('latin1'), 'what': r,
                        'ops': [{'op': o['op'], 'cmd': [(c or b'').decode('latin1') for c in o['cmd']], 'inv': o['inv'], 'rep': o['rep'], 'reply': o['reply']}
                                for o in sorted(os_, key=lambda o: o['inv'])][:40],
                        'final_on_' + home: None if fin is None else fin.decode('latin1')})
    return bad, nerr


# ---------------------------------------------------------------- cases
def mig_cases(chk):
    r = chk.rng
    cases = []
    if chk.tier == 'quick':
        cfgs = [(1, 0), (2, 0), (2, 1), (3, 0), (3, 1)]
        for i, (conns, active) in enumerate(cfgs):
            cases.append(dict(seed=r.randrange(1, 10**6), conns=conns, active=active, nkeys=70, nout=20, clients=6, ops=330, lat=2000, mk=1 if (i in (1, 3) and active == 0) else 0))
    else:
        for i in range(96):
            cases.append(dict(seed=r.randrange(1, 10**6), conns=1 + i % 3, active=(i // 3) % 2, nkeys=r.choice([40, 70, 120]), nout=20,
                              clients=r.choice([4, 6, 8]), ops=r.choice([300, 400]), lat=r.choice([1000, 2000, 3000]),
                              scan_count=r.choice([2, 10, 50]), mk=1 if (i % 3 == 2 and (i // 3) % 2 == 0) else 0))
    return cases


def case_line(c, path):
    extra = ''.join(' %s=%s' % (k, c[k]) for k in ('scan_count', 'mk') if k in c)
    return 'mig seed=%d conns=%d active=%d nkeys=%d nout=%d clients=%d ops=%d lat=%d sets=0 out=%s timeout_ms=90000%s' % (
        c['seed'], c['conns'], c['active'], c['nkeys'], c['nout'], c['clients'], c['ops'], c['lat'], path, extra)


def run_one_trace(chk, line, path, pushes, stats):
    """analyse one trace file: acceptor + monitors; returns list of violation dicts"""
    out = []
    meta, evs = load_trace(path)
    an = analyse(meta, evs, pushes)
    for p in an['standin_problems'][:3]:
        out.append({'kind': 'harness-sanity', 'case': line, 'what': 'stand-in reply disagrees with the python replica', 'detail': p, 'no_input': True})
    for p in an['unexpected'][:3]:
        out.append({'kind': 'correspondence', 'case': line, 'what': 'a Redis command from an unexpected origin (no model event)', 'detail': p, 'no_input': True})
    bad, nerr = monitors(an)
    stats['client_ops'] += len(an['ops']); stats['error_replies'] += nerr
    for s, n in an['overlap'].items():
        stats['overlap'][s] = stats['overlap'].get(s, 0) + n
    for b in bad[:3]:
        out.append(dict(b, kind='monitor', case=line, trace=path))
    keys = sorted(an['lines'])
    lines = [an['lines'][k] for k in keys]
    rc, res = chk.run_model('migrate', lines, jobs=8, timeout=900)
    for k, l, r in zip(keys, lines, res):
        stats['keys'] += 1
        stats['key_events'] += l.count('|')
        chk.count(l, l.count(' s ') + l.count(' d ') > 3)
        if r.startswith('accept ok'):
            stats['accepted'] += 1
            m = re.search(r'hidden=(\d+)', r)
            if m: stats['hidden_steps'] += int(m.group(1))
        elif r.startswith('accept outside-premise'):
            stats['outside_premise'].append({'case': line, 'key': k.decode('latin1'), 'result': r})
        elif r.startswith('accept budget'):
            stats['budget'] += 1
        else:
            out.append({'kind': 'correspondence', 'case': line, 'key': k.decode('latin1'), 'model': r, 'accept_line': l[:6000], 'trace': path,
                        'correspondence': 'Model/Migrate.v as acceptor of the per-key projection', 'no_input': not bad})
    if len(res) != len(lines):
        out.append({'kind': 'correspondence', 'case': line, 'what': 'model driver returned %d lines for %d keys' % (len(res), len(lines)), 'no_input': True})
    return out


def witness_check(chk, stats):
    """replay of the model witness C03_unclassified_delete_refuted on the real code: the scanner's RESTORE of key D is held
    while a command that empties D goes through the destination proxy"""
    cases = []
    for kind in ('sdiffstore', 'sinterstore', 'del'):
        for conns, active in ((2, 0), (1, 1)) if chk.tier == 'quick' else ((1, 0), (2, 0), (3, 0), (1, 1), (2, 1), (3, 1)):
            path = '%s/c03_w_%s_%d_%d.jsonl' % (vlib.WORK, kind, conns, active)
            cases.append('witness kind=%s conns=%d active=%d hold_ms=300 out=%s' % (kind, conns, active, path))
    rc, res = chk.run_impl('migrate', cases, timeout=900)
    out = []
    for c, r in zip(cases, res):
        chk.count(c, True)
        m = dict(t.split('=', 1) for t in r.split() if '=' in t)
        stats['witness'].append(r)
        if not r.startswith('witness kind='):
            out.append({'kind': 'correspondence', 'case': c, 'impl': r, 'what': 'witness scenario did not complete', 'no_input': True})
            continue
        fr = r.split('final_read=')[1].split(' dst_has_key=')[0]
        if m.get('dst_has_key') != '0' or m.get('src_has_key') != '0' or fr not in ('A 0', 'BN'):
            out.append({'kind': 'monitor', 'case': c, 'impl': r, 'known_id': KNOWN_ID,
                        'model': 'Props/C03.v C03_unclassified_delete_refuted: the run `run_unclassified` (a Delete that takes the pull path while the scanner holds a dump) ends with the deleted value readable',
                        'what': 'a key deleted by an acknowledged command (reply 0 = empty result) is readable again after the migration: final_read=%s dst_has_key=%s' % (fr, m.get('dst_has_key'))})
    return out


def collide_cases(chk):
    cases = []
    combos = [(n, t) for n in (2, 3) for t in range(n)]
    if chk.tier == 'quick':
        i = 0
        for kind in ('del', 'sdiffstore'):
            for n, t in combos:
                cases.append((kind, n, t, 1 + i % 3, (i // 3) % 2)); i += 1
    else:
        for kind in ('del', 'sdiffstore'):
            for n, t in combos:
                for conns in (1, 2, 3):
                    for active in (0, 1):
                        cases.append((kind, n, t, conns, active))
    return cases


def collide_monitor(r):
    """summary-line monitor of one collide run; returns description or None"""
    if not r.startswith('collide kind='):
        return 'scenario did not complete: ' + r[:200]
    m = dict(t.split('=', 1) for t in r.split() if '=' in t)
    fr = r.split('final_read=')[1].split(' dst_has_key=')[0]
    if m.get('gates', '000')[:2] != '11':
        return None if (m.get('dst_has_key') == '0' and fr in ('A 0', 'BN')) else 'key present after an acknowledged delete (gates not reached): ' + r[:200]
    if m.get('dst_has_key') != '0' or m.get('src_has_key') != '0' or fr not in ('A 0', 'BN'):
        return ('a key deleted by an acknowledged command is readable again after the migration: final_read=%s dst_has_key=%s; the scan batch touched the key while '
                'the push path (UMSYNC) for it owned the lock slot (gates=%s: scanner RESTORE in flight before the UMSYNC finished)' % (fr, m.get('dst_has_key'), m.get('gates')))
    return None


def collide_check(chk, pushes, stats):
    """directed schedule: n range keys with the SAME migration lock slot in ONE scan batch while the UMSYNC (push-before-delete) of
    one of them owns that lock slot on the source proxy; the scanner must not touch any of them until the push path is done"""
    out = []
    lines = []
    for i, (kind, n, t, conns, active) in enumerate(collide_cases(chk)):
        path = '%s/c03_col_%s_%d.jsonl' % (vlib.WORK, chk.tier, i)
        if os.path.exists(path): os.remove(path)
        lines.append(('collide kind=%s n=%d target=%d conns=%d active=%d out=%s' % (kind, n, t, conns, active, path), path, kind))
    rc, res = chk.run_impl('migrate', [l for l, _, _ in lines], timeout=900)
    reached = 0
    for (line, path, kind), r in zip(lines, res + ['<no output>'] * (len(lines) - len(res))):
        chk.count(line, True)
        stats['collide'].append(r)
        if ' gates=11' in r: reached += 1
        bad = collide_monitor(r)
        if bad:
            out.append({'kind': 'monitor', 'case': line, 'impl': r, 'what': bad,
                        'model': 'Model/Migrate.v: EvScanLock needs slock = None and the fast push path holds slock from EvSyncLock to EvFastDel/EvFastDump-skip; '
                                 'a scanner PTTL/DUMP of the key between the push path\'s PTTL and DEL is not a run'})
        if kind == 'del' and os.path.exists(path):
            out += run_one_trace(chk, line, path, pushes, stats)
    stats['collide_schedule_reached'] = reached
    if reached < len(lines):
        out.append({'kind': 'correspondence', 'what': 'directed collide schedule not reached in %d of %d runs (scan gate / UMSYNC gate)' % (len(lines) - reached, len(lines)),
                    'runs': [r for r in res if ' gates=11' not in r][:4], 'no_input': True})
    return out


def multi_cases(chk):
    r = chk.rng
    directed, traffic = [], []
    if chk.tier == 'quick':
        directed = [(2, 2, 'del', 2, 0), (2, 1, 'del', 1, 1), (2, 2, 'sdiffstore', 3, 0), (3, 2, 'del', 1, 0)]
        traffic = [(2, 2, 2, 0), (2, 1, 3, 1)]
    else:
        for parts in (2, 3):
            for ndst in (1, 2):
                for kind in ('del', 'sdiffstore'):
                    for conns in (1, 2, 3):
                        directed.append((parts, ndst, kind, conns, (parts + conns) % 2))
        for i in range(12):
            traffic.append((2 + i % 2, 1 + (i // 2) % 2, 1 + i % 3, (i // 4) % 2))
    return directed, [(p, d, c, a, r.randrange(1, 10**6)) for p, d, c, a in traffic]


def multi_monitor(r):
    if not r.startswith('multi ok'):
        return 'scenario did not complete: ' + r[:240]
    m = dict(t.split('=', 1) for t in r.split() if '=' in t)
    if m.get('mode') != 'directed':
        return None
    dels, reads, fins = m['del_replies'].split(';'), m['reads'].split(';'), m['final_reads'].split(';')
    if any(x not in ('I_31', 'I_30') for x in dels):
        return 'a deleting command was not answered normally: ' + m['del_replies']
    if any(x not in ('BN', 'A_0') for x in reads + fins):
        return ('a key deleted through its importing proxy (replies %s) is readable again: reads right after the delete %s, reads after the commit %s '
                '(the source proxy runs %s migrating tasks at once; the key was still on the source)' % (m['del_replies'], m['reads'], m['final_reads'], m['parts']))
    return None


def multi_check(chk, pushes, stats):
    """the SOURCE proxy runs 2 (3) migrating tasks at once (different ranges, to one or two destination proxies): directed runs
    (every scanner held at its first SCAN, a deleting command for a key of EVERY task through its importing proxy, read back)
    and random traffic on every range through every proxy; acceptor + monitors on every trace"""
    out = []
    directed, traffic = multi_cases(chk)
    lines = []
    for i, (parts, ndst, kind, conns, active) in enumerate(directed):
        path = '%s/c03_multi_%s_d%d.jsonl' % (vlib.WORK, chk.tier, i)
        lines.append(('multi mode=directed parts=%d ndst=%d kind=%s conns=%d active=%d out=%s' % (parts, ndst, kind, conns, active, path), path, kind == 'del'))
    for i, (parts, ndst, conns, active, seed) in enumerate(traffic):
        path = '%s/c03_multi_%s_t%d.jsonl' % (vlib.WORK, chk.tier, i)
        lines.append(('multi mode=traffic parts=%d ndst=%d conns=%d active=%d seed=%d nkeys=60 nout=16 clients=6 ops=250 lat=2000 out=%s timeout_ms=90000'
                      % (parts, ndst, conns, active, seed, path), path, True))
    for line, path, analyse_trace in lines:
        if os.path.exists(path): os.remove(path)
        rc, res = chk.run_impl('migrate', [line], timeout=150)
        r = res[0] if res else '<no output>'
        chk.count(line, True)
        stats['multi'].append(r)
        bad = multi_monitor(r)
        if bad:
            if 'did not complete' in bad and 'mode=traffic' in line:
                stats['timeouts'] += 1
            else:
                out.append({'kind': 'monitor', 'case': line, 'impl': r, 'what': bad,
                            'model': 'Model/Migrate.v: a pushing command reaches PFwd only after its UMSYNC transfer (fast or slow path), after the scan passed the key, '
                                     'or (EvSyncNotFound) after the commit - never while the source copy exists and its task is running'})
        if analyse_trace and os.path.exists(path):
            out += run_one_trace(chk, line, path, pushes, stats)
    return out


def mkey_check(chk, pushes, stats):
    """directed: MULTI-KEY commands through the importing proxy while the scanner is held (every key still on the source): EVAL with 1, 2, 3
    keys with and without trailing ARGV (deleting / reading / writing script), multi-key DEL, EXISTS, MGET, MSET; every key is read back
    right after the command, after the scan and after the commit.  Per key a multi-key command is one operation (Model/Migrate.v EvEnsured
    for the keys a multi-key script is not routed by); acceptor + linearizability + final placement on every trace"""
    out = []
    cfgs = [(1, 0, 0), (2, 0, 1), (3, 1, 0)] if chk.tier == 'quick' else [(c, a, b) for c in (1, 2, 3) for a in (0, 1) for b in (0, 1)]
    for i, (conns, active, absent) in enumerate(cfgs):
        path = '%s/c03_mkey_%s_%d.jsonl' % (vlib.WORK, chk.tier, i)
        line = 'mkey conns=%d active=%d absent=%d out=%s' % (conns, active, absent, path)
        if os.path.exists(path): os.remove(path)
        rc, res = chk.run_impl('migrate', [line], timeout=150)
        r = res[0] if res else '<no output>'
        chk.count(line, True)
        stats['mkey'].append(r[:300])
        m = dict(t.split('=', 1) for t in r.split() if '=' in t)
        if not r.startswith('mkey ok') or m.get('gate') != '1':
            out.append({'kind': 'correspondence', 'case': line, 'impl': r[:400], 'what': 'directed multi-key scenario did not complete / scanner gate not reached', 'no_input': True})
        elif m.get('bad_reads') != '0':
            out.append({'kind': 'monitor', 'case': line, 'impl': r[:600], 'trace': path,
                        'what': '%s key(s) deleted by an acknowledged multi-key command were readable right afterwards' % m.get('bad_reads')})
        if os.path.exists(path):
            out += run_one_trace(chk, line, path, pushes, stats)
    return out


def race_check(chk, pushes, stats):
    """directed witness of the KNOWN FINDING multikey-eval-active-redirect-precheck-race (DESIGN.md section 12): a 2-key EVAL through the importing
    proxy whose ensure_keys_imported EXISTS of the last key is answered by the SOURCE (active redirection, both sides in PreCheck) and whose own
    dispatch meets the importing task in PreSwitch.  With active=1 a reproduction (stale read / surviving key, acceptor rejection and linearizability
    failure ON THE LAST KEY ONLY) is reported under the known id; anything else in these runs, and the same symptom with active=0, is a violation"""
    out = []
    cfgs = [('getall', 1, 1), ('delall', 2, 1), ('getall', 2, 0), ('delall', 1, 0)]
    if chk.tier != 'quick':
        cfgs += [(k, c, a) for k in ('getall', 'delall') for c in (1, 2, 3) for a in (0, 1)]
    for i, (kind, conns, active) in enumerate(cfgs):
        path = '%s/c03_race_%s_%d.jsonl' % (vlib.WORK, chk.tier, i)
        line = 'race kind=%s conns=%d active=%d out=%s' % (kind, conns, active, path)
        if os.path.exists(path): os.remove(path)
        rc, res = chk.run_impl('migrate', [line], timeout=150)
        r = res[0] if res else '<no output>'
        chk.count(line, True)
        stats['race'].append(r[:300])
        m = dict(t.split('=', 1) for t in r.split() if '=' in t)
        if not r.startswith('race ok') or m.get('gates', '000')[0] != '1' or m.get('gates', '000')[2] != '1':
            out.append({'kind': 'correspondence', 'case': line, 'impl': r[:400], 'what': 'race scenario did not complete / PRECHECK or SCAN gate not reached', 'no_input': True})
            continue
        if kind == 'getall':
            stale = m.get('eval_reply', '').endswith('_BN')
        else:
            stale = m.get('read_last') != 'BN' or m.get('final_last') != 'BN'
        redirected = m.get('gates')[1] == '1'
        lastkey = None
        try:
            meta, _ = load_trace(path)
            lastkey = unhex(meta['inkeys'][1]).decode('latin1')
        except Exception:
            pass
        vs = run_one_trace(chk, line, path, pushes, stats) if os.path.exists(path) else []
        if stale:
            vs.append({'kind': 'monitor', 'case': line, 'impl': r[:400], 'key': lastkey,
                       'what': 'multi-key EVAL ran on the destination without its last key (eval_reply=%s read_last=%s final_last=%s)' % (m.get('eval_reply'), m.get('read_last'), m.get('final_last'))})
        for v in vs:
            if active == 1 and redirected and v.get('key') == lastkey and v.get('kind') in ('monitor', 'correspondence'):
                v['known_id'] = RACE_ID
                v.pop('no_input', None)
                stats['race_known'] += 1
            out.append(v)
    return out


def run(chk):
    ok = vlib.standard_proof_phase(chk, TRUSTED, 'migrate')
    chk.cov['rule'] = ('cases = (i) every command name of docs/command_table.json through the real requires_blocking_migration (exhaustive), '
                       '(ii) complete live migrations of a 8192-slot range between two real proxies under seeded random client traffic (GET/SET/DEL/APPEND on keys in and out of the range, '
                       'backend connections 1..3, active redirection on/off, 0-2 ms stand-in latency), each yielding one acceptor case per in-range key, '
                       '(iii) deterministic witness replays (held scanner RESTORE vs SDIFFSTORE/SINTERSTORE/DEL), (iv) directed lock-collision schedules '
                       '(2 or 3 range keys with the same migration lock slot in one scan batch while the UMSYNC of one of them - first / later in the batch, DEL or SDIFFSTORE - '
                       'holds the slot lock: held SCAN, held UMSYNC PTTL, held scanner RESTORE), each DEL run also through acceptor + monitors, (v) runs in which the source proxy has 2 or 3 migrating '
                       'tasks at once towards one or two destination proxies (P2, P3): directed (scanners held, a deleting command for a key of every task through its importing proxy, read back) '
                       'and random traffic on every range through every proxy, all through acceptor + monitors, (vi) multi-key commands through the importing proxy: directed (scanner held; EVAL with 1-3 keys '
                       'with/without ARGV deleting / reading / writing, multi-key DEL / EXISTS / MGET / MSET, keys read back before / after the scan / after the commit) and mixed into the random traffic (mk=1). evaluations = acceptor cases + classify cases + witness cases; '
                       'non-trivial = distinct per-key trace with more than 3 Redis-level events on the key (it was pulled, pushed or scanned while clients used it)')
    if not ok:
        return
    uncls, disagree = finite_obligation(chk)
    if disagree:
        chk.violation({'kind': 'correspondence', 'correspondence': 'requires_blocking_migration vs code_deleting of Model/Migrate.v', 'names': disagree,
                       'search': 'monitor (may_delete_its_key and not classified) evaluated on all supported commands: %s' % (uncls or 'none')}, no_input=not uncls)
    if uncls:
        chk.violation({'kind': 'monitor', 'known_id': KNOWN_ID, 'case': 'classify ' + ' '.join(uncls),
                       'what': 'supported commands that may delete their key are not in requires_blocking_migration: %s (premise classified_ok of C03_linearizable fails; '
                               'model witness C03_unclassified_delete_refuted; replay: witness kind=sdiffstore conns=2 active=0 hold_ms=300 out=/tmp/w.jsonl)' % ', '.join(uncls)})
    _, cls = chk.run_impl('migrate', ['classify ' + n for n in CLIENT_CMDS])
    pushes = {o.split()[1]: o.split()[2] == '1' for o in cls if o.startswith('classify')}
    stats = {'client_ops': 0, 'error_replies': 0, 'overlap': {}, 'keys': 0, 'key_events': 0, 'accepted': 0, 'hidden_steps': 0, 'budget': 0,
             'outside_premise': [], 'witness': [], 'runs': [], 'timeouts': 0, 'collide': [], 'multi': [], 'mkey': [], 'race': [], 'race_known': 0}
    viol = witness_check(chk, stats)
    viol += collide_check(chk, pushes, stats)
    viol += multi_check(chk, pushes, stats)
    viol += mkey_check(chk, pushes, stats)
    viol += race_check(chk, pushes, stats)
    for i, c in enumerate(mig_cases(chk)):
        path = '%s/c03_%s_%d.jsonl' % (vlib.WORK, chk.tier, i)
        line = case_line(c, path)
        if os.path.exists(path): os.remove(path)
        rc, res = chk.run_impl('migrate', [line], timeout=150)
        summ = res[0] if res else '<no output>'
        stats['runs'].append(summ)
        if not summ.startswith('mig ok') or 'committed=1' not in summ:
            stats['timeouts'] += 1        # claimed PARTIAL: a run that does not complete in time is not a verdict
            if not os.path.exists(path):
                continue
        viol += run_one_trace(chk, line, path, pushes, stats)
        if i == 0:
            chk.sample({'case': line, 'impl': summ})
    chk.cov['traces_validated_against_impl'] = stats['accepted']
    chk.sub('distribution', migrations=len(stats['runs']), incomplete_runs=stats['timeouts'], client_ops=stats['client_ops'], error_replies=stats['error_replies'],
            client_ops_on_range_keys_overlapping_source_phase=stats['overlap'], keys=stats['keys'], observed_events_on_keys=stats['key_events'],
            accepted=stats['accepted'], hidden_model_steps=stats['hidden_steps'], acceptor_budget_exceeded=stats['budget'],
            accepted_only_outside_premise=stats['outside_premise'][:10], witness=stats['witness'], run_summaries=stats['runs'][:12],
            collide=stats['collide'][:20], collide_schedule_reached=stats.get('collide_schedule_reached'), multi_task_runs=stats['multi'][:24], multi_key_runs=stats['mkey'][:12], race_witness_runs=stats['race'][:16], race_known_finding_observations=stats['race_known'])
    for v in viol:
        ni = v.pop('no_input', False)
        chk.violation(v, no_input=ni)


def replay(data):
    chk = vlib.Check('C03', 'quick', 0)
    c = data.get('case')
    if not c:
        print(json.dumps(data, indent=1)[:3000]); return 0
    chk.build_impl('migrate')
    if c.startswith('classify'):
        names = c.split()[1:]
        _, impl = chk.run_impl('migrate', ['classify ' + n for n in names])
        print('\n'.join(impl)); print('may_delete_its_key:', [n for n in names if n in MAY_DELETE])
        return 1 if any(o.split()[2] == '0' for o in impl if o.startswith('classify')) else 0
    if c.startswith('witness'):
        _, impl = chk.run_impl('migrate', [c], timeout=300)
        print('case :', c); print('impl :', impl)
        r = impl[0] if impl else ''
        badr = ('dst_has_key=1' in r) or ('final_read=A 0' not in r and 'final_read=BN' not in r)
        print('model: C03_unclassified_delete_refuted predicts resurrection iff the command is not classified deleting')
        return 1 if badr else 0
    if c.startswith('collide') or c.startswith('multi') or c.startswith('mkey') or c.startswith('race'):
        _, impl = chk.run_impl('migrate', [c], timeout=300)
        print('case :', c); print('impl :', [x[:400] for x in impl])
        r = impl[0] if impl else ''
        if c.startswith('race'):
            bad = None if (r.startswith('race ok') and ((' kind=getall' in r and 'eval_reply=' in r and not r.split('eval_reply=')[1].split()[0].endswith('_BN')) or (' kind=delall' in r and ' read_last=BN ' in r))) else 'multi-key EVAL ran on the destination without its last key (known finding %s when active=1)' % RACE_ID
        elif c.startswith('mkey'):
            bad = None if (r.startswith('mkey ok') and ' bad_reads=0 ' in r) else 'read-backs contradict an acknowledged multi-key delete, or the run did not complete'
        else:
            bad = collide_monitor(r) if c.startswith('collide') else multi_monitor(r)
        print('monitor:', bad)
        v = []
        path = re.search(r'out=(\S+)', c).group(1)
        if ('kind=del' in c or 'mode=traffic' in c or c.startswith('mkey') or c.startswith('race')) and os.path.exists(path):
            _, cls = chk.run_impl('migrate', ['classify ' + n for n in CLIENT_CMDS])
            pushes = {o.split()[1]: o.split()[2] == '1' for o in cls if o.startswith('classify')}
            stats = {'client_ops': 0, 'error_replies': 0, 'overlap': {}, 'keys': 0, 'key_events': 0, 'accepted': 0, 'hidden_steps': 0, 'budget': 0,
                     'outside_premise': [], 'witness': [], 'runs': [], 'timeouts': 0, 'collide': [], 'multi': [], 'mkey': [], 'race': [], 'race_known': 0}
            v = run_one_trace(chk, c, path, pushes, stats)
            print('keys=%d accepted=%d' % (stats['keys'], stats['accepted']))
            for x in v[:4]:
                print(json.dumps(x)[:1200])
        return 1 if (bad or v) else 0
    if c.startswith('mig'):
        _, cls = chk.run_impl('migrate', ['classify ' + n for n in CLIENT_CMDS])
        pushes = {o.split()[1]: o.split()[2] == '1' for o in cls if o.startswith('classify')}
        path = data.get('trace') or re.search(r'out=(\S+)', c).group(1)
        rerun = not os.path.exists(path) or '--rerun' in sys.argv
        if rerun:
            _, res = chk.run_impl('migrate', [c], timeout=150); print('impl :', res)
        stats = {'client_ops': 0, 'error_replies': 0, 'overlap': {}, 'keys': 0, 'key_events': 0, 'accepted': 0, 'hidden_steps': 0, 'budget': 0,
                 'outside_premise': [], 'witness': [], 'runs': [], 'timeouts': 0, 'collide': []}
        v = run_one_trace(chk, c, path, pushes, stats)
        print('trace:', path, '(recorded schedule; a fresh run samples a new schedule)' if not rerun else '(fresh run)')
        print('keys=%d accepted=%d violations=%d' % (stats['keys'], stats['accepted'], len(v)))
        for x in v[:5]:
            print(json.dumps(x)[:1500])
        return 1 if v else 0
    print(data); return 0
