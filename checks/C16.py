"""C16 No client input can crash, abort or wedge a proxy.
Proof: coq/Props/C16.v over Model/Cost.v (the RESP parser with an explicit allocation / step / depth semantics and panic
outcomes; EVAL key collection; RangeMap::from).  Correspondence: harness/cost runs the real decode under a counting
global allocator (bytes requested, largest request) and runs hostile inputs - buffers, commands through a real proxy
handler, slot ranges - in CHILD processes (2 MiB stack, RLIMIT_AS 2 GiB or the proved bound + 1 GiB for MB-sized buffers, 15 s + 1 s per 10 KB timeout), against the extracted model's
predicted outcome and allocation.  Monitors: no panic / abort / signal / timeout; allocation within the proved bound."""
import vlib, re

MANIFEST = {
  'text': 'Theorems about Model/Cost.v: C16_no_panic (decode on any buffer < 2^58 bytes: no capacity-overflow / add-overflow / split_to panic, '
          'result = the C15 parser result), C16_alloc_linear (bytes requested <= 4128*len + 40; <= 32*consumed + 8 for an accepted packet), '
          'C16_steps_linear (<= 392*len + 393 incl. the advance() re-walks), C16_depth_bounded (<= 129 frames), C16_eval_bounded (EVAL key '
          'collection: no overflow panic, iterations <= command length whatever numkeys says), C16_range_map_bounded (RangeMap::from: <= 16384 '
          'iterations per range, map <= 16384 entries). Tied to the code by a counting allocator around the real decode call (equality of bytes '
          'requested with the model on every generated buffer) and by running hostile buffers / commands / ranges on the real code in child '
          'processes with a small stack, an address-space limit and a timeout. In addition (monitor only, not modelled) two-connection sequences run through the real '
          'Session/handle_session path over loopback TCP: an extreme but well-formed CONFIG/UMCTL/CLUSTER/AUTH/admin command (names enumerated from the sources x boundary '
          'values, with and without metadata installed) on connection A, after which A, B and a new connection C must still get replies and the proxy must not panic.',
  'note': 'PARTIAL. The model mirrors the tree WITH work/fix_C16_1..4.diff (and fix_C15.diff); on the unpatched tree the statements are false: '
          '"*1000000000000\\r\\n" aborts the process, "*9223372036854775807\\r\\n" panics (capacity overflow), ~2500 nested "*1\\r\\n" overflow a 2 MiB stack, '
          '"EVAL s 1000000000000000000 k" spins, "EVAL s 18446744073709551615 k" panics (add overflow, dev profile), a slot range '
          '0-9223372036854775807 spins in RangeMap::from; found by the session sweep: "CONFIG SET slowlog_log_slower_than 9223372036854775807" (+OK) makes every later '
          'command on every connection panic in SlowRequestLogger::add_slow_log (threshold * 1000 overflows, dev profile; work/fix_C16_5.diff). Modelled: the parser, EVAL key collection, RangeMap::from. NOT modelled (only searched by '
          'the child-process cases): Command::new/get_key, MGET/MSET/DEL splitting, blocking commands, UMFORWARD, RangeList::parse/compact '
          '(`end + 1` can overflow in the dev profile), SETCLUSTER/SETREPL token parsers, SlotMapData::new. Measured, not proved: wall time, real '
          'stack frame sizes (dev profile only), RSS; per decode CALL the cost is linear, re-parsing an incomplete packet on every read is '
          'quadratic in the number of reads and outside the statement. usize arithmetic modelled for the dev profile (checked); the release '
          'profile does not build here. The other-connections clause is not exercised.',
  'technique': 'Coq proof over a hand-written cost model + differential correspondence (counting allocator, child processes) against the real code',
 }

TRUSTED = ['Coq 8.16.1 kernel (coqc; coqchk in the thorough tier); no axioms (Print Assumptions: closed)',
           'extraction with ExtrOcamlBasic only (+ Extraction Blacklist for file names) + ocaml/vio.ml, d_cost.ml, driver_lib.ml',
           'harness/cost: counting #[global_allocator] (requests of the measuring thread), child processes with RLIMIT_AS max(2 GiB, proved bound 4128*len + 1 GiB) / 2 MiB stack / 15 s + 1 s per 10 KB timeout, '
           'a real SharedForwardHandler over stand-in backends',
           'cost semantics of Model/Cost.v: size_of::<RespIndex>() = 32 (printed by the harness and compared), shared header of BytesMut::split_to = 40 bytes (bytes 1.2.1), '
           'Vec::with_capacity(n) requests exactly n * 32 bytes and panics above isize::MAX',
           'dev profile only (overflow checks on); timing thresholds are coarse (2 s for inputs <= 1 KiB)']

def hx(b): return vlib.hexs(b)

def enc_cmd(args): return 'cmd ' + ' '.join(hx(a) for a in args)

def gen_buffers(chk):
    r = chk.rng
    quick = chk.tier == 'quick'
    bufs = [b'', b'+OK\r\n', b'$5\r\nhello\r\n', b'*3\r\n$1\r\na\r\n+b\r\n:1\r\n', b'*2\r\n*2\r\n+a\r\n+b\r\n*1\r\n+c\r\n', b'*1000000\r\n', b'*0\r\n', b'*-1\r\n',
            b'*1000000000000\r\n', b'*9223372036854775807\r\n', b'*9223372036854775808\r\n', b'$9223372036854775807\r\n', b'$9223372036854775807\r\nab',
            b'*5\r\n+a\r\n', b'*99999\r\n' * 50, b'*99999\r\n' * 130 + b'+a\r\n', b'*1\r\n' * 128 + b'+a\r\n', b'*1\r\n' * 129 + b'+a\r\n', b'*1\r\n' * 200,
            b'*3\r\n' + b'*2\r\n+a\r\n+b\r\n' * 3, b'*100\r\n' + b'$-1\r\n' * 100, b'*100\r\n' + b'$-1\r\n' * 99, b'*2\r\n$3\r\nabc\r\n*9999999\r\n+x\r\n']
    def val(d):
        c = r.random()
        if d > 3 or c < 0.5:
            k = r.random()
            if k < 0.3: return b'+' + bytes(r.choice(b'abc') for _ in range(r.randint(0, 5))) + b'\r\n'
            if k < 0.5: return b':' + str(r.getrandbits(20)).encode() + b'\r\n'
            if k < 0.9:
                p = bytes(r.getrandbits(8) for _ in range(r.randint(0, 20)))
                return b'$' + str(len(p)).encode() + b'\r\n' + p + b'\r\n'
            return r.choice([b'$-1\r\n', b'*-1\r\n'])
        n = r.choice([0, 1, 2, 3, 5, 8])
        return b'*' + str(n).encode() + b'\r\n' + b''.join(val(d + 1) for _ in range(n))
    n = 300 if quick else 6000
    for _ in range(n):
        b = val(0)
        c = r.random()
        if c < 0.3: b = b[:r.randrange(len(b) + 1)]
        elif c < 0.45:
            # declared counts larger than the data
            b = b'*' + str(r.choice([10, 1000, 10**6, 10**9, 10**12, 2**31, 2**62, 2**63 - 1])).encode() + b'\r\n' + b
        elif c < 0.55:
            d = r.randint(1, 140)
            b = (b'*' + str(r.choice([1, 2, 10**9])).encode() + b'\r\n') * d + b
        elif c < 0.6:
            i = r.randrange(len(b)); b = b[:i] + bytes([r.choice(b'\r\n$*+-:09')]) + b[i + 1:]
        if len(b) <= 4000: bufs.append(b)
    return bufs

HOSTILE_BUFS = [b'*1000000000000\r\n', b'*9223372036854775807\r\n', b'*4611686018427387904\r\n', b'*1\r\n' * 1000 + b'+a\r\n', b'*1\r\n' * 3000, b'*1\r\n' * 20000,
                b'*1\r\n' * 100000, b'*2\r\n' * 5000, b'*99999999\r\n' * 128, b'*99999999\r\n' * 128 + b'+a\r\n' * 1000, b'$9223372036854775807\r\n' + b'x' * 100,
                b'$-9223372036854775808\r\n', b'*3\r\n' + b'$1000000000\r\n' * 3, b'+' + b'a' * 200000, b'*2000\r\n' + b'$-1\r\n' * 2000, b'*3000\r\n' + b'$-1\r\n' * 2000]

def hostile_cmds():
    E = b'EVAL'
    big = [b'1000000000000000000', b'18446744073709551615', b'18446744073709551616', b'9223372036854775807', b'4294967296', b'-1', b'-0', b'+3', b'0', b'1', b'2', b'3', b'x', b'']
    out = []
    for n in big:
        out.append([E, b'return 1', n, b'k'])
        out.append([E, b'return 1', n, b'{a}1', b'{a}2', b'{a}3'])
        out.append([E, b's', n])
    out += [[E], [E, b's'], [b'EVALSHA', b'abc', b'1000000000000000000', b'k'],
            [b'UMFORWARD', b'18446744073709551615', b'GET', b'k'], [b'UMFORWARD', b'0', b'GET', b'k'], [b'UMFORWARD', b'x'], [b'UMFORWARD'],
            [b'BLPOP', b'k', b'99999999999999999999'], [b'BLPOP', b'k', b'-1'], [b'BRPOPLPUSH', b'a', b'b', b'18446744073709551615'], [b'BZPOPMIN', b'k', b'1e400'],
            [b'MGET'], [b'MSET', b'a'], [b'DEL'] + [b'k%d' % i for i in range(500)], [b'MGET'] + [b'k'] * 2000, [b'MSET'] + [b'k', b'v'] * 999 + [b'odd'],
            [b'EXISTS'], [b'GET'], [b''], [b'\xff\xfe'], [b'UMCTL'], [b'UMCTL', b'SETCLUSTER'], [b'UMCTL', b'SETCLUSTER', b'v2', b'99999999999999999999999', b'NOFLAGS'],
            [b'UMCTL', b'SETCLUSTER', b'v2', b'1', b'NOFLAGS', b'mydb', b'127.0.0.1:7000', b'1', b'0-100'],
            [b'UMCTL', b'SETCLUSTER', b'v2', b'2', b'NOFLAGS', b'mydb', b'127.0.0.1:7000', b'MIGRATING', b'1', b'0-9223372036854775807', b'2', b'127.0.0.1:5299', b'127.0.0.1:7000', b'127.0.0.2:5299', b'127.0.0.2:7001'],
            [b'UMCTL', b'SETCLUSTER', b'v2', b'2', b'NOFLAGS', b'mydb', b'127.0.0.1:7000', b'IMPORTING', b'1', b'5-18446744073709551615', b'2', b'127.0.0.2:5299', b'127.0.0.2:7001', b'127.0.0.1:5299', b'127.0.0.1:7000'],
            [b'UMCTL', b'SETCLUSTER', b'v2', b'3', b'NOFLAGS', b'mydb', b'127.0.0.1:7000', b'1', b'0-18446744073709551615'],
            [b'UMCTL', b'SETCLUSTER', b'v2', b'3', b'NOFLAGS', b'mydb', b'127.0.0.1:7000', b'18446744073709551615', b'0-1'],
            [b'UMCTL', b'SETCLUSTER', b'v2', b'3', b'NOFLAGS', b'mydb', b'127.0.0.1:7000', b'2', b'0-1', b'1-18446744073709551615'],
            [b'UMCTL', b'SETREPL', b'99999999999999999999', b'NOFLAGS'], [b'UMCTL', b'SETREPL', b'1', b'NOFLAGS', b'master', b'x'], [b'UMCTL', b'INFOMGR'], [b'CLUSTER', b'NODES'], [b'CONFIG', b'SET', b'x'],
            [b'AUTH'], [b'PING'] + [b'x'] * 100, [b'SELECT', b'99999999999999999999']]
    return out

RANGES = [['0-100'], ['0-16383'], ['0-16384'], ['5-9223372036854775807'], ['0-9223372036854775807'], ['0-18446744073709551614'], ['16383-16383'], ['16384-16390'],
          ['0-5', '7-18446744073709551614'], ['9223372036854775807-9223372036854775807'], ['1-3'], ['0-0', '2-2', '4-4', '100-9999999999']]


# ---------------- two-connection session sequences through the real Session / handle_session path ----------------

U64 = 2**64 - 1
VALUES = [b'0', b'1', b'2', str(U64).encode(), str(U64 + 1).encode(), b'-1', b'', b'abc', b'9' * 5000,
          str(2**63 - 1).encode(), str(2**63).encode(), str(-2**63).encode()]

def enumerate_from_code():
    """command / field / sub-command names read out of the sources of the working tree"""
    def rd(f): return open('/repo/src/' + f).read()
    svc, exe, cmd, task = rd('proxy/service.rs'), rd('proxy/executor.rs'), rd('proxy/command.rs'), rd('migration/task.rs')
    fields = sorted(set(re.findall(r'^\s*"([a-z_]+)" =>', svc, re.M)))
    umctl = sorted(set(re.findall(r'sub_cmd\.eq\("([A-Z]+)"\)', exe)) | set(re.findall(r'Self::\w+ => "([A-Z]+)"', task)))
    cluster = sorted(set(re.findall(r'str_ascii_case_insensitive_eq\(&sub_cmd, "(\w+)"\)', exe)))
    cmds = sorted(set(re.findall(r'b"([A-Z]+)" => CmdType::', cmd)))
    return {'config_fields': fields, 'umctl': umctl, 'cluster': cluster, 'cmd_types': cmds}

def gen_sessions(chk, names):
    quick = chk.tier == 'quick'
    adm = []
    F = names['config_fields'] + ['nosuchfield', 'SLOWLOG_SAMPLE_RATE']
    for f in F:
        for v in VALUES:
            adm.append([b'CONFIG', b'SET', f.encode(), v])
        adm.append([b'CONFIG', b'SET', f.encode()])
        adm.append([b'CONFIG', b'GET', f.encode()])
        adm.append([b'config', b'get', f.encode(), b'extra'])
    adm += [[b'CONFIG'], [b'CONFIG', b'GET'], [b'CONFIG', b'SET'], [b'CONFIG', b'FOO'], [b'CONFIG', b'GET', b'\xff'], [b'CONFIG', b'GET', b'a' * 5000], [b'CONFIG', b'RESETSTAT']]
    node, cl = b'127.0.0.1:7000', b'mydb'
    epochs = [b'0', b'1', b'2', str(U64).encode(), str(U64 + 1).encode(), b'-1', b'', b'abc']
    for sub in names['umctl']:
        if sub == 'SHUTDOWN': continue                      # stops the proxy by design
        sb = sub.encode()
        adm.append([b'UMCTL', sb])
        for v in [b'0', str(U64).encode(), b'-1', b'', b'x' * 5000]:
            adm.append([b'UMCTL', sb, v])
        adm.append([b'UMCTL', sb, b'a', b'b', b'c', b'd', b'e', b'f', b'g', b'h'])
    for e in epochs:
        for flags in [b'NOFLAGS', b'FORCE', b'COMPRESS', b'FORCE,COMPRESS', b'']:
            adm.append([b'UMCTL', b'SETCLUSTER', b'v2', e, flags, cl, node, b'1', b'0-16383'])
        adm.append([b'UMCTL', b'SETCLUSTER', b'v2', e, b'NOFLAGS', cl, node, str(U64).encode(), b'0-1'])
        adm.append([b'UMCTL', b'SETCLUSTER', b'v2', e, b'NOFLAGS', cl, node, b'1', b'0-' + str(U64).encode()])
        adm.append([b'UMCTL', b'SETCLUSTER', b'v2', e, b'NOFLAGS', cl, node, b'MIGRATING', b'1', b'0-' + str(2**63 - 1).encode(), e, b'127.0.0.1:5299', node, b'127.0.0.2:5299', b'127.0.0.2:7001'])
        adm.append([b'UMCTL', b'SETCLUSTER', b'v2', e, b'NOFLAGS', cl, node, b'IMPORTING', b'1', b'0-100', e, b'127.0.0.2:5299', b'127.0.0.2:7001', b'127.0.0.1:5299', node])
        adm.append([b'UMCTL', b'SETCLUSTER', b'v1', e, b'NOFLAGS', cl, node, b'1', b'0-16383'])
        adm.append([b'UMCTL', b'SETCLUSTER', b'v2', e, b'NOFLAGS', cl, node, b'1', b'0-16383', b'PEER', b'127.0.0.3:5299', b'1', b'3-' + str(U64).encode(), b'CONFIG', cl, b'compression_strategy', b'disabled'])
        adm.append([b'UMCTL', b'SETCLUSTER', b'v2', e, b'NOFLAGS', cl, node, b'1', b'0-16383', b'CONFIG', cl, b'migration_scan_count', str(U64).encode()])
        adm.append([b'UMCTL', b'SETREPL', e, b'NOFLAGS'])
        adm.append([b'UMCTL', b'SETREPL', e, b'FORCE', b'master', cl, node, b'1', b'127.0.0.9:7000', b'127.0.0.9:5299'])
        adm.append([b'UMCTL', b'SETREPL', e, b'NOFLAGS', b'replica', cl, node, str(U64).encode(), b'127.0.0.9:7000', b'127.0.0.9:5299'])
        adm.append([b'UMCTL', b'SETREPL', e, b'NOFLAGS', b'master', cl, node, b'0'])
        for sw in [b'PRECHECK', b'PRESWITCH', b'FINALSWITCH']:
            adm.append([b'UMCTL', sw, b'v', cl, b'MIGRATING', b'1', b'0-100', e, b'127.0.0.1:5299', node, b'127.0.0.2:5299', b'127.0.0.2:7001'])
            adm.append([b'UMCTL', sw, b'v', cl, b'IMPORTING', str(U64).encode(), b'0-' + str(U64).encode(), e])
    for v in [None, b'0', b'1', str(U64).encode(), str(U64 + 1).encode(), b'-1', b'abc', b'']:
        adm.append([b'UMCTL', b'SLOWLOG', b'GET'] + ([v] if v is not None else []))
    adm += [[b'UMCTL', b'SLOWLOG', b'RESET'], [b'UMCTL', b'SLOWLOG', b'RESET', str(U64).encode()], [b'UMCTL', b'SLOWLOG', b'FOO'], [b'UMCTL', b'DEBUG', b'FUTURE'], [b'UMCTL', b'\xff'], [b'UMCTL', b'']]
    adm += [[b'AUTH'], [b'AUTH', b'x'], [b'AUTH', b'\xff\xfe'], [b'AUTH', b'p' * 5000], [b'AUTH', b'a', b'b'], [b'AUTH', b'']]
    for sub in names['cluster'] + ['nosuch', 'NODES', 'KEYSLOT']:
        sb = sub.encode()
        adm += [[b'CLUSTER', sb], [b'CLUSTER', sb, b'k'], [b'CLUSTER', sb, b''], [b'CLUSTER', sb, b'k' * 5000], [b'CLUSTER', sb, b'\xff', b'x']]
    adm.append([b'CLUSTER'])
    for c in names['cmd_types']:
        cb = c.encode()
        if cb in (b'CONFIG', b'UMCTL', b'CLUSTER', b'AUTH'): continue
        adm += [[cb], [cb, b'0'], [cb, str(U64).encode()], [cb, b'x' * 5000], [cb, b'a', b'b', b'c']]
    seqs = []
    for a in adm:
        for pre in ('0', '1'):
            seqs.append(pre + ' ' + ' '.join(hx(x) for x in a))
    if quick:
        # keep every CONFIG / UMCTL / AUTH / CLUSTER sequence; thin out nothing else either unless the budget is exceeded
        pass
    return seqs

BAD_WORDS = ('closed', 'err', 'timeout')

def eval_seq(res):
    """None if the sequence result satisfies the property, else a description"""
    m = re.match(r'adm=(\S+) A=(\S+) B=(\S+) C=(\S+) panics=(\d+)(.*)', res.strip())
    if not m: return 'sequence did not complete: ' + res[:160]
    adm_r, a, b, c, pn, msg = m.groups()
    if int(pn): return 'panic in the proxy after a well-formed admin command:' + msg[:200]
    if adm_r == 'timeout': return 'the admin command was neither answered nor was its connection closed'
    for name, rs in (('A', a), ('B', b), ('C (new connection)', c)):
        for w in rs.split(','):
            if w in BAD_WORDS: return 'connection %s was not served after the admin command (%s)' % (name, rs)
    return None

def run_sessions(chk, seqs, batch=25):
    """returns list of (seq, result) ; a batch whose child died is re-run one sequence per child"""
    lines = ['sess ' + ' / '.join(seqs[i:i + batch]) for i in range(0, len(seqs), batch)]
    _, outs = chk.run_impl('cost', lines, jobs=4, timeout=2400)
    results = []
    for bi, line in enumerate(lines):
        members = seqs[bi * batch:(bi + 1) * batch]
        o = outs[bi] if bi < len(outs) else ''
        mt = re.match(r'exit=(\S+) ms=(\d+) ?(.*)', o)
        parts = mt.group(3).split(' / ') if mt and mt.group(1) == 'ok' else []
        if len(parts) == len(members) and all(eval_seq(p) is None for p in parts):
            results += list(zip(members, parts))
            continue
        # isolate: fresh child per sequence
        _, single = chk.run_impl('cost', ['sess ' + q for q in members], jobs=4, timeout=2400)
        for qi, q in enumerate(members):
            so = single[qi] if qi < len(single) else ''
            m2 = re.match(r'exit=(\S+) ms=(\d+) ?(.*)', so)
            if m2 and m2.group(1) == 'ok': results.append((q, m2.group(3)))
            else: results.append((q, 'child-' + (m2.group(1) if m2 else 'lost') + ' ' + so[:120]))
    return results


def words_eval(reply_tokens):
    """classification of the real EVAL outcome comparable with the model's"""
    if len(reply_tokens) >= 2 and reply_tokens[0] == 'E' and reply_tokens[1] != '-':
        t = bytes.fromhex(reply_tokens[1])
        if t.startswith(b'ERR: Invalid `numkeys`'): return 'eval invalid-numkeys'
        if t.startswith(b'ERR: Missing `numkeys`'): return 'eval missing-numkeys'
    return 'eval handled'


def run(chk):
    ok = vlib.standard_proof_phase(chk, TRUSTED, 'cost')
    chk.cov['rule'] = ('cases = two-connection sequences over loopback TCP through the real Session/handle_session path (every CONFIG SET/GET field, UMCTL sub-command, CLUSTER sub-command and admin command type read from the sources x boundary values, before and after metadata is installed; afterwards connections A, B and a new C must be answered); buffers (valid, truncated, mutated, declared counts far beyond the data, nesting 1..200) through one real decode call under the counting '
                       'allocator; hostile buffers (10^12 / 2^63-1 element arrays, nesting to 100000, 200 KB lines), hostile commands (EVAL numkeys at the integer '
                       'limits, UMFORWARD / blocking timeouts / UMCTL SETCLUSTER with slot ranges to 2^64-1, huge MGET/MSET/DEL) through a real proxy handler and '
                       'hostile slot ranges through RangeMap::from, each in a child process. non-trivial = every case (the monitor constrains outcome, '
                       'allocation, exit status and time of each)')
    if not ok:
        return
    bufs = gen_buffers(chk)
    cases = [('alloc ' + hx(b), {'kind': 'alloc', 'buf': b}) for b in bufs]
    hostile = list(HOSTILE_BUFS)
    if chk.tier != 'quick':
        r = chk.rng
        for _ in range(60):
            hostile.append((b'*' + str(r.choice([1, 2, 10**12, 2**63 - 1])).encode() + b'\r\n') * r.choice([100, 1000, 5000, 50000]) + r.choice([b'', b'+a\r\n']))
    cases += [('hostile ' + hx(b), {'kind': 'hostile', 'buf': b}) for b in hostile]
    cases += [(enc_cmd(a), {'kind': 'cmd', 'args': a}) for a in hostile_cmds()]
    cases += [('rangemap ' + ' '.join(rg), {'kind': 'rangemap', 'ranges': rg}) for rg in RANGES]
    import hashlib
    cases.sort(key=lambda c: hashlib.sha1(c[0][:200].encode()).digest())     # interleave the slow child-process cases over the worker chunks
    lines = [c[0] for c in cases]
    rc1, impl = chk.run_impl('cost', lines, jobs=4, timeout=2400)
    # a slow or timed-out child is re-run alone before it counts (the machine may be loaded by other builds)
    for i, o in enumerate(impl):
        mt = re.match(r'exit=(\S+) ms=(\d+)', o)
        if mt and (mt.group(1) == 'timeout' or int(mt.group(2)) > 2000):
            _, again = chk.run_impl('cost', [lines[i]], timeout=120)
            if again: impl[i] = again[0]
    rc2, model = chk.run_model('cost', lines, jobs=8)
    hist, nfail, disagreements = {}, 0, []
    maxratio = 0.0
    for i, (line, meta) in enumerate(cases):
        o = impl[i] if i < len(impl) else '<no output>'
        m = model[i] if i < len(model) else '<no output>'
        k = meta['kind']
        hist[k] = hist.get(k, 0) + 1
        chk.count(line[:4000], True)
        bad = None
        dis = None
        mm = dict(re.findall(r'(\w+)=(\S+)', m))
        if k == 'alloc':
            im = dict(re.findall(r'(\w+)=(\S+)', o))
            iw = o.split(' total=')[0]
            mw = m.split(' alloc=')[0]
            L = len(meta['buf'])
            if 'total' not in im: bad = 'decode under the counting allocator failed: ' + o[:120]
            else:
                total, mx = int(im['total']), int(im['max'])
                if iw.startswith('panic'): bad = 'decode panicked: ' + o[:120]
                elif total > 4128 * L + 40: bad = 'decode requested %d bytes for a %d byte buffer (bound 4128*len+40)' % (total, L)
                elif iw.startswith('ok') and total > 32 * int(iw.split()[1]) + 8: bad = 'accepted packet of %s bytes cost %d bytes of allocation (bound 32*n+8)' % (iw.split()[1], total)
                elif im.get('elem') != '32': dis = 'size_of::<RespIndex>() = %s, the model assumes 32' % im.get('elem')
                elif iw != mw: dis = 'outcome differs'
                elif str(total) != mm.get('alloc'): dis = 'bytes requested differ: real %d, model %s' % (total, mm.get('alloc'))
                if L: maxratio = max(maxratio, total / L)
        else:
            st = dict(re.findall(r'(\w+)=(\S+)', o.split(' ', 2)[0] + ' ' + (o.split(' ', 2)[1] if len(o.split(' ')) > 1 else '')))
            ex, ms = st.get('exit'), int(st.get('ms', '0') or 0)
            rest = o.split(' ', 2)[2] if len(o.split(' ', 2)) > 2 else ''
            size = len(line) // 2
            if ex != 'ok':
                bad = 'child process ended with %s (abort / stack overflow / endless loop) on a hostile input' % ex
            elif rest.startswith('panic') or ' panic ' in rest:
                bad = 'panic in the real code: ' + rest[:160]
            elif ms > 2000 and size <= 1024:
                bad = 'a %d byte request took %d ms' % (size, ms)
            elif k == 'hostile':
                mw = m.split(' alloc=')[0]
                if mw == 'panic': bad = None; dis = 'model predicts a panic'
                elif rest != mw: dis = 'outcome differs'
            elif k == 'cmd':
                if meta['args'] and meta['args'][0].upper() == b'EVAL':
                    if m.startswith('panic'): dis = 'model predicts a panic'
                    else:
                        mw = ' '.join(m.split(' alloc=')[0].split()[:2])
                        mw = mw if mw in ('eval invalid-numkeys', 'eval missing-numkeys') else 'eval handled'
                        if not rest.startswith('reply'): bad = 'no reply to EVAL: ' + rest[:80]
                        elif words_eval(rest.split()[1:]) != mw: dis = 'EVAL classification differs'
                elif not (rest.startswith('reply') or rest.startswith('noreply')):
                    bad = 'command neither answered nor closed: ' + rest[:80]
            elif k == 'rangemap':
                im = dict(re.findall(r'(\w+)=(\S+)', rest))
                if rest.startswith('rangemap invalid-list'): pass
                elif im.get('total') != mm.get('alloc'): dis = 'RangeMap allocation differs: real %s, model %s' % (im.get('total'), mm.get('alloc'))
                elif int(mm.get('steps', '0')) > 16385 * max(1, len(meta['ranges'])): bad = 'model steps above the bound'
        if bad:
            nfail += 1
            chk.violation({'kind': 'monitor', 'case': line, 'impl': o[:600], 'model': m[:600], 'what': bad})
        elif dis:
            disagreements.append({'case': line, 'impl': o[:600], 'model': m[:600], 'what': dis})
        if i % 101 == 0 or k != 'alloc' and i % 9 == 0: chk.sample({'case': line[:200], 'impl': o[:200], 'model': m[:200]}, limit=10)
    # two-connection sequences: extreme admin command on A, then A, B and a new connection C must still be served
    names = enumerate_from_code()
    seqs = gen_sessions(chk, names)
    sres = run_sessions(chk, seqs)
    sfail = 0
    shist = {}
    for q, res in sres:
        chk.count('sess ' + q[:4000], True)
        key = bytes.fromhex(q.split()[1]).decode('latin1').upper() if len(q.split()) > 1 and q.split()[1] != '-' else '?'
        shist[key] = shist.get(key, 0) + 1
        bad = eval_seq(res)
        if bad:
            sfail += 1; nfail += 1
            chk.violation({'kind': 'monitor', 'case': 'sess ' + q, 'impl': res[:600], 'model': 'unmodelled (monitor only)', 'what': bad,
                           'sequence': [' '.join(bytes.fromhex(t).decode('latin1')[:60] if t != '-' else "''" for t in q.split()[1:]), 'PING', 'GET k', 'MGET a b'],
                           'metadata_installed_first': q.split()[0] == '1'})
    chk.sub('sessions', sequences=len(sres), failures=sfail, admin_commands=shist,
            enumerated_from_code={k: v for k, v in names.items()})
    chk.cov['traces_validated_against_impl'] = len(cases) - len(disagreements) + len(sres) - sfail
    chk.sub('distribution', kinds=hist, monitor_failures=nfail, disagreements=len(disagreements), max_alloc_bytes_per_input_byte=round(maxratio, 1))
    if disagreements and not nfail:
        chk.violation({'kind': 'correspondence', 'correspondence': 'Model/Cost.v vs src/protocol/stateless.rs, proxy/executor.rs (EVAL), common/cluster.rs (RangeMap)',
                       'first': disagreements[0], 'count': len(disagreements),
                       'search': 'monitors (no panic/abort/timeout, allocation bounds) evaluated on all %d implementation outputs: no property failure' % len(cases)},
                      no_input=True)


def replay(data):
    chk = vlib.Check('C16', 'quick', 0)
    c = data.get('case') or (data.get('first') or {}).get('case')
    if not c:
        print(data); return 0
    chk.build_impl('cost')
    _, impl = chk.run_impl('cost', [c]); _, model = chk.run_model('cost', [c])
    print('case :', c[:400]); print('impl :', impl); print('model:', model)
    o = impl[0] if impl else ''
    if c.startswith('sess'):
        m2 = re.match(r'exit=(\S+) ms=(\d+) ?(.*)', o)
        bads = [eval_seq(p) for p in m2.group(3).split(' / ')] if m2 and m2.group(1) == 'ok' else ['child ' + o[:100]]
        bads = [b for b in bads if b]
        print('monitor:', bads or None)
        return 1 if bads else 0
    bad = ('exit=' in o and 'exit=ok' not in o) or 'panic' in o
    if c.startswith('alloc') and 'total=' in o:
        total = int(re.search(r'total=(\d+)', o).group(1)); L = (len(c.split()[1]) // 2) if len(c.split()) > 1 and c.split()[1] != '-' else 0
        bad = bad or total > 4128 * L + 40
    print('monitor:', 'VIOLATED' if bad else None)
    return 1 if bad else 0
