"""C04 Metadata epochs version every change and never regress.
Proof: coq/Props/C04.v over Model/Broker.v (step, run, view_proxy); proofs in coq/Proofs/BrokerEpochInv.v, BrokerEpochOps.v,
BrokerEpochMain.v, BrokerEpochReach.v.  Correspondence and monitors: checks/broker_common.py + harness/broker."""
import broker_common as bc

MANIFEST = {
  'text': 'Theorems about Model/Broker.v (mirror of store.rs / update.rs / migrate.rs / query.rs): '
          'C04_global_mono (for EVERY store and EVERY operation, accepted Restore included, the global epoch does not decrease); '
          'C04_proxy_epoch (for every store satisfying epoch_inv, every operation other than an accepted Restore, every address and every migration limit: if the '
          'address is served before and after, the served epoch does not decrease and strictly increases whenever cluster name, nodes, roles, slots, migration '
          'tags, peers or config of the served view differ); C04_proxy_epoch_history (the same between the two ends of any operation list without accepted Restore); '
          'C04_same_epoch_same_content (+ _ok, _history: along any Restore-free history two served views of one address with equal epoch are equal); '
          'C04_reappear (an address that was unknown at some store in between - removed and re-registered - comes back at a strictly larger epoch); '
          'C04_epoch_inv_step / _run / _reachable (epoch_inv = strictly sorted cluster and proxy keys and every cluster epoch <= global epoch; preserved by all 22 '
          'operations, true after all operation lists from the initial store and of every reachable store). '
          'Proof route: view_proxy is a function of (proxy resource entry, the cluster it names if stored, global epoch); one lemma per operation function shows that '
          'for every address this pair is unchanged, or the address is afterwards served from a cluster whose epoch exceeds the old global epoch, or served as free '
          'with the global epoch raised; the relation is transitive. '
          'The model is tied to the code by running seeded random operation histories on the real MetaStore and on the extracted model and comparing the canonical '
          'store text and every cluster/proxy view under limits 0,1,2 after every operation; the C04 monitor compares the real served view of every registered '
          'address before and after every single operation (epoch never lower; content change => epoch higher; global epoch monotone).',
  'note': 'Trusted: Coq kernel (all theorems closed under the global context), extraction + OCaml driver, harness/broker (dom.rs, mon.rs), hook H1, allocator oracle. '
          'An accepted Restore is excluded from the per-proxy statements (it installs an arbitrary snapshot; C13 covers what happens after it); rejected Restores are '
          'allowed (ok_ops). epoch_inv must hold of a Restore snapshot for the invariant theorems (op_wf) - or the snapshot is reachable. '
          'Views that panic (inner None of view_proxy: a migration entry naming a chunk index out of range) are outside the statements: the theorems speak about '
          'views that are served. Identifiers are numbers and the cluster config is one number in the model.',
  'technique': 'Coq proof over a hand-written model + differential correspondence check against the real code',
}


def run(chk): bc.standard_run(chk, 'C04')


def replay(data): return bc.replay('C04', data)
