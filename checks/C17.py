"""C17 Control-plane messages survive their wire encodings.
Proof: coq/Props/C17.v over Model/Wire.v.  Correspondence: the real encoders and parsers of /repo (ProxyClusterMeta::to_args /
to_compressed_args / from_resp, encode_repl_meta / ReplicatorMeta::from_resp, SlotRange / MigrationMeta / MigrationTaskMeta /
SwitchArg into_strings / from_strings, RangeList::to_strings / try_from, the INFOMGR join/split pair) against the extracted model
on generated values, their real encodings and ALL truncations, ALL single-token deletions and a fixed set of token corruptions
of every message.  Monitors: round-trip equality on the real code; a mutated encoding is rejected, decodes to the same value,
or falls in a known-finding class decided by the extracted Gallina class predicate."""
import vlib, re, subprocess

MANIFEST = {
  'text': 'Nineteen Coq theorems (Props/C17.v) about Model/Wire.v, a hand-written Gallina mirror of the token printers and parsers in common/proto.rs, '
          'common/cluster.rs, common/config.rs, common/utils.rs, replication/replicator.rs, migration/task.rs, the INFOMGR join/split pair and the message '
          'construction of coordinator/sync.rs.  Round trips parse(encode x ++ rest) = Ok(normal form of x, rest) for every value: C17_range_list (incl. '
          'RangeList::compact; identity on compact lists), C17_migration_meta, C17_slot_range, C17_task (token vector and space-joined INFOMGR string; a descriptor '
          'with a compact range list comes back EQUAL), C17_switch_arg, C17_cluster_plain (every HashMap order of nodes and config fields; drop_empty_nodes), '
          'C17_cluster_plain_exact (no empty node: normalize m, and m itself when compact), C17_cluster_compressed (under pack_roundtrip), C17_repl.  '
          'Truncation: C17_fixed_arity_truncation (every strict prefix of the five leaf records is rejected), C17_cluster_truncation and C17_repl_truncation '
          '(every truncation rejected except at the class predicates at_group_boundary / at_config_value_cut / at_record_boundary).  Soundness: C17_slot_range_sound, '
          'C17_parse_sound, C17_repl_sound (an accepted vector is token-wise the printer output of a raw value whose normal form is the result; sections grammar; '
          'every token accounted for), C17_compact_normal_form (compaction yields sorted, disjoint, non-adjacent ranges), C17_no_fuel_error.  Witnesses by computation: '
          'C17_empty_node_witness, C17_format_not_robust_witness (deleting PEER, cutting at a group boundary, cutting a config pair).  The model is tied to the code by '
          'running the real encoders/parsers (incl. ProxyMetaRespSender::send_meta and MigrationStateRespChecker::check through the cfg-guarded coordinator re-export) '
          'and the extracted model on the same values and on ALL truncations / single-token deletions / a fixed corruption set of every real message.',
  'note': 'Coq kernel, no axioms (every theorem closed under the global context; coqchk in the thorough tier).  C17_cluster_compressed is conditional on the hypothesis '
          'pack_roundtrip (unpack (pack d) = Some d, standing for serde_json + gzip(flate2) + base64), visible in its statement; the harness tests it against the real '
          'libraries on every generated value (pcm_zrt) and sweeps mutations of the base64 text (all rejected or decoded identically).  Partial: (1) tokens are ASCII in '
          'the correspondence - String::to_uppercase/to_lowercase are modelled on ASCII letters, and from_resp silently drops non-UTF-8 tokens (= a deletion); '
          '(2) the overflow panic of RangeList::compact (`s.end() + 1`) is modelled for the overflow-checked build that the harness can produce (it wraps in an '
          'unchecked build); the two in-bounds `expect`s of that loop are not represented (list model); (3) the last clause of the property is false of the plain '
          'formats: what is proved instead is soundness + the truncation theorems, and the accepted-but-different residue is recorded as eight known-finding classes '
          '(Gallina predicates has_empty_node, at_group_boundary, at_config_value_cut / config_error_tolerated, at_record_boundary, in_language / repl_in_language, '
          'in_language_regrouped, flags_token_unrecognized, left-over tokens); a mutated vector accepted outside them is a VIOLATION; (4) not covered: the broker-side '
          'commit of a reported descriptor (C17_commit_accepts belongs to the Broker model; here the descriptor is proved and checked to arrive EQUAL), replica-role '
          'filtering is modelled (coord_repl / coord_pcm) and checked by correspondence only, not stated as a theorem.',
  'technique': 'Coq proof over a hand-written model + differential correspondence check against the real code',
 }

TRUSTED = ['Coq 8.16.1 kernel (coqc; coqchk in the thorough tier); no axioms (Print Assumptions: closed)',
           'Section hypothesis pack_roundtrip for serde_json+gzip(flate2)+base64 (C17_cluster_compressed only); tested on every generated value by pcm_zrt',
           'extraction with ExtrOcamlBasic only (+ Extraction Blacklist List: file renaming) + ocaml/vio.ml, d_wire.ml, driver_lib.ml',
           'harness/wire/src/dom.rs: value construction through public constructors (RangeList::get_mut_ranges to build non-compact lists), canonical printing',
           'hook: #[cfg(undermoon_verif)] pub mod verif in /repo/src/coordinator/mod.rs (re-export of ProxyMetaRespSender / MigrationStateRespChecker); fake recording RedisClient in the harness',
           'harness/wire/src/e2e.rs: two real proxies over an in-process network with a Redis stand-in (SCAN empty, PTTL -2, DUMP nil) run real migrations to SwitchCommitted; INFOMGR is answered by the real executor and read by the real coordinator checker (no textual pin)',
           'tokens restricted to ASCII (to_uppercase / to_lowercase modelled on ASCII letters)']

G = 'wire'
U64 = 2**64 - 1


def hx(b):
    return b.hex() if b else '-'


# ---------------------------------------------------------------- value generation
class Gen:
    def __init__(self, rng):
        self.r = rng
        self.n_addr = 0

    def addr(self):
        # distinct, no letters, last digit 0 (so that the digit-increment corruption never makes two addresses equal)
        self.n_addr += 1
        i = self.n_addr
        return ('10.%d.%d.%d:%d0' % (i // 250 % 250, i % 250, self.r.randint(1, 9), self.r.randint(100, 6553))).encode()

    def free(self):
        k = self.r.random()
        if k < 0.75: return self.addr()
        if k < 0.8: return b''
        if k < 0.85: return self.r.choice([b'PEER', b'config', b'MIGRATING', b'importing', b'v2', b'NOFLAG', b'7', b'0-5'])
        return bytes(self.r.choice(b'abcXYZ019.:_-') for _ in range(self.r.randint(1, 12)))

    def num(self, big=False):
        k = self.r.random()
        if big and k < 0.08: return self.r.choice([0, 1, U64, U64 - 1, 2**63, 2**32])
        if k < 0.5: return self.r.randint(0, 20)
        if k < 0.9: return self.r.randint(0, 100000)
        return self.r.getrandbits(self.r.choice([31, 32, 33, 63, 64]))

    def rl(self, compact=True, maxn=3):
        n = self.r.choice([0, 1, 1, 1, 2, 2, 3][:maxn + 4]) if maxn >= 3 else self.r.randint(0, maxn)
        if compact:
            out, cur = [], self.r.randint(0, 3000)
            for _ in range(n):
                s = cur; e = s + self.r.choice([0, 0, 1, 5, 100, 1000]); out.append((s, e)); cur = e + self.r.randint(3, 2000)
            return out
        out = []
        for _ in range(n):
            s = self.r.randint(0, 40); e = self.r.randint(0, 40)
            out.append((s, e))
        return out

    def mm(self):
        return (self.num(True), self.free(), self.free(), self.free(), self.free())

    def sr(self, compact=True):
        t = self.r.choice('NNNMI')
        return (t, self.rl(compact), self.mm() if t != 'N' else None)

    def nm(self, maxnodes, compact=True, allow_empty=True):
        out = []
        for _ in range(self.r.randint(0, maxnodes)):
            k = self.r.choice([0, 1, 1, 1, 2, 3]) if allow_empty else self.r.choice([1, 1, 2, 3])
            out.append((self.addr(), [self.sr(compact) for _ in range(k)]))
        return out

    def name(self):
        k = self.r.random()
        if k < 0.05: return b''
        if k < 0.1: return self.r.choice([b'PEER', b'CONFIG', b'NOFLAG', b'FORCE', b'a' * 31, b'v2', b'7'])
        al = b'abcdefghijklmnopqrstuvwxyzABCDEFGHIJKLMNOPQRSTUVWXYZ0123456789@-_'
        return bytes(self.r.choice(al) for _ in range(self.r.randint(1, 31)))

    def cfg(self):
        if self.r.random() < 0.3: return (0, 10800, 10000, 500, 16)
        return (self.r.randint(0, 2), self.num(True), self.num(True), self.num(True), max(1, self.num(True)))

    def pcm(self, compact=True, allow_empty=True, compress=False, maxnodes=3):
        return {'epoch': self.num(True), 'flags': (1 if self.r.random() < 0.4 else 0) + (2 if compress else 0), 'name': self.name(),
                'local': self.nm(maxnodes, compact, allow_empty), 'peer': self.nm(maxnodes, compact, allow_empty), 'cfg': self.cfg()}

    def rec(self):
        return (self.name(), self.free(), [(self.free(), self.free()) for _ in range(self.r.choice([0, 1, 1, 2, 3]))])

    def repl(self):
        return {'epoch': self.num(True), 'flags': self.r.randint(0, 3), 'masters': [self.rec() for _ in range(self.r.randint(0, 3))],
                'replicas': [self.rec() for _ in range(self.r.randint(0, 3))]}

    def task(self, compact=True, spaces=False):
        t, rl, mm = self.sr(compact)
        if mm and spaces: mm = (mm[0], b'a b', mm[2], mm[3], mm[4])
        return (self.name(), (t, rl, mm))


def f_rl(rl): return ' '.join([str(len(rl))] + ['%d %d' % r for r in rl])
def f_mm(m): return ' '.join([str(m[0])] + [hx(x) for x in m[1:]])
def f_sr(sr): return sr[0] + ' ' + f_rl(sr[1]) + ((' ' + f_mm(sr[2])) if sr[0] != 'N' else '')
def f_nm(nm, canon=False):
    items = [' '.join([hx(a), str(len(srs))] + [f_sr(s) for s in srs]) for a, srs in (sorted(nm, key=lambda kv: hx(kv[0])) if canon else nm)]
    return ' '.join([str(len(nm))] + items)
def f_cfg(c): return ' '.join(str(x) for x in c)
def f_pcm(m, canon=False):
    return ' '.join([str(m['epoch']), str(m['flags']), hx(m['name']), f_nm(m['local'], canon), f_nm(m['peer'], canon), f_cfg(m['cfg'])])
def f_rec(r): return ' '.join([hx(r[0]), hx(r[1]), str(len(r[2]))] + [hx(a) + ' ' + hx(b) for a, b in r[2]])
def f_repl(m):
    return ' '.join([str(m['epoch']), str(m['flags']), str(len(m['masters']))] + [f_rec(r) for r in m['masters']]
                    + [str(len(m['replicas']))] + [f_rec(r) for r in m['replicas']])
def f_task(t): return hx(t[0]) + ' ' + f_sr(t[1])


def sr_len(sr): return 1 + len(sr[1]) + (6 if sr[0] != 'N' else 0)

FIELD_NAMES = [b'compression_strategy', b'migration_max_migration_time', b'migration_max_blocking_time', b'migration_scan_interval', b'migration_scan_count']


def derive_order(m, toks):
    """Reads the HashMap iteration orders the implementation used out of its argument vector (the model validates the result:
    its encoder is then run on the value listed in that order and must print the same vector).  Returns (value', ord) or None."""
    def walk(nm, pos):
        byaddr = {a: srs for a, srs in nm}
        todo = sum(1 for a, srs in nm if srs)
        order = []
        while todo:
            if pos >= len(toks) or toks[pos] not in byaddr or toks[pos] in [a for a, _ in order]: return None
            a = toks[pos]; order.append((a, byaddr[a]))
            pos += sum(1 + sr_len(s) for s in byaddr[a]); todo -= 1
        order += [(a, srs) for a, srs in nm if not srs]
        return order, pos
    r = walk(m['local'], 4)
    if r is None: return None
    local, pos = r
    peer = list(m['peer'])
    if any(srs for _, srs in m['peer']):
        if pos >= len(toks) or toks[pos] != b'PEER': return None
        r = walk(m['peer'], pos + 1)
        if r is None: return None
        peer, pos = r
    if pos >= len(toks) or toks[pos] != b'CONFIG' or len(toks) != pos + 11: return None
    try:
        ordd = ''.join(str(FIELD_NAMES.index(toks[pos + 1 + 2 * j])) for j in range(5))
    except ValueError:
        return None
    return dict(m, local=local, peer=peer), ordd


def parse_toks(line):
    p = line.split()
    if not p or p[0] != 'toks': return None
    return [bytes.fromhex(t) if t != '-' else b'' for t in p[1:]]


def toks_str(toks): return ' '.join(hx(t) for t in toks)


def mutations(toks):
    """(kind, detail, mutated vector) - ALL truncations, ALL single-token deletions, the fixed corruption set"""
    out = []
    for k in range(len(toks)):
        out.append(('trunc', k, toks[:k]))
    for i in range(len(toks)):
        out.append(('del', i, toks[:i] + toks[i + 1:]))
    for i, t in enumerate(toks):
        if t.swapcase() != t:
            out.append(('case', i, toks[:i] + [t.swapcase()] + toks[i + 1:]))
        if t and t[-1:] in b'012345678':
            out.append(('digit', i, toks[:i] + [t[:-1] + bytes([t[-1] + 1])] + toks[i + 1:]))
        if i + 1 < len(toks) and toks[i + 1] != t:
            out.append(('swap', i, toks[:i] + [toks[i + 1], t] + toks[i + 2:]))
        if t:
            out.append(('empty', i, toks[:i] + [b''] + toks[i + 1:]))
    return out


def kv(line):
    return dict(x.split('=', 1) for x in line.split() if '=' in x)


CORPUS_DEC = [
    # leniencies of the parser that the printer never produces (correspondence only)
    'sr_dec ' + toks_str([b'+2', b'1-2-3', b'007-+9', b'x']),
    'sr_dec ' + toks_str([b'migrating', b'1', b'0-5', b'+7', b'a', b'b', b'c', b'd', b'e']),
    'sr_dec ' + toks_str([b'Importing', b'0', b'7', b'', b'', b'', b'']),
    'sr_dec ' + toks_str([b'2', b'0-18446744073709551615', b'5-6']),
    'sr_dec ' + toks_str([b'2', b'5-6', b'0-18446744073709551615']),
    'sr_dec ' + toks_str([b'2', b'0-18446744073709551615', b'0-6']),
    'sr_dec ' + toks_str([b'1', b'0-18446744073709551616']),
    'sr_dec ' + toks_str([b'18446744073709551615', b'0-1']),
    'sr_dec ' + toks_str([b'3', b'10-20', b'21-30', b'5-5']),
    'sr_dec ' + toks_str([b'-1', b'0-1']), 'sr_dec ' + toks_str([b'1', b'-5']), 'sr_dec ' + toks_str([b'1', b'5-']), 'sr_dec ' + toks_str([b'1', b'5']),
    'sr_dec ' + toks_str([b'', b'5']), 'sr_dec -', 'sr_dec ' + toks_str([b'+', b'1-2']), 'sr_dec ' + toks_str([b'0']),
    'rl_try ' + hx(b'2 0-5 7-9 extra'), 'rl_try ' + hx(b''), 'rl_try ' + hx(b'1  0-5'), 'rl_try ' + hx(b'1 0-5 '),
    'pcm_dec ' + toks_str([b'v2', b'+5', b'force,compress,x', b'n']),
    'pcm_dec ' + toks_str([b'v2', b'5', b'Force', b'n', b'a', b'1', b'0-5', b'peer', b'p', b'1', b'7-9', b'PEER', b'q', b'1', b'1-1', b'config', b'COMPRESSION_STRATEGY', b'Allow_All', b'CONFIG']),
    'pcm_dec ' + toks_str([b'v2', b'5', b'x', b'n', b'a', b'1', b'0-5', b'b', b'1', b'9-9', b'a', b'MIGRATING', b'1', b'7-8', b'1', b's', b't', b'u', b'v']),
    'pcm_dec ' + toks_str([b'v2', b'5', b'NOFLAG', b'n', b'a', b'1', b'0-5', b'PEER', b'p', b'1', b'7-9', b'CONFIG', b'bad', b'x', b'PEER']),
    'pcm_dec ' + toks_str([b'v2', b'5', b'NOFLAG', b'n', b'a', b'1', b'0-5', b'PEER', b'p', b'1', b'7-9', b'CONFIG', b'bad', b'x', b'zzz']),
    'pcm_dec ' + toks_str([b'v2', b'5', b'NOFLAG', b'n', b'a', b'1', b'0-5', b'CONFIG', b'bad', b'x']),
    'pcm_dec ' + toks_str([b'v2', b'5', b'NOFLAG', b'n', b'a', b'1', b'0-5', b'PEER', b'p', b'1', b'7-9', b'CONFIG', b'migration_scan_count', b'0']),
    'pcm_dec ' + toks_str([b'v2', b'5', b'NOFLAG', b'n', b'CONFIG', b'migration_scan_count', b'0']),
    'pcm_dec ' + toks_str([b'v2', b'5', b'NOFLAG', b'n', b'CONFIG', b'migration_', b'1']),
    'pcm_dec ' + toks_str([b'v2', b'5', b'NOFLAG', b'n', b'CONFIG', b'MIGRATION_SCAN_COUNT', b'+3', b'migration_x', b'1']),
    'pcm_dec ' + toks_str([b'v2', b'5', b'NOFLAG', b'bad.name']), 'pcm_dec ' + toks_str([b'v2', b'5', b'NOFLAG', b'a' * 32]),
    'pcm_dec ' + toks_str([b'V2', b'5', b'NOFLAG', b'n']), 'pcm_dec ' + toks_str([b'v2', b'5', b'COMPRESS']), 'pcm_dec ' + toks_str([b'v2', b'5', b'compress', b'!!!']),
    'pcm_dec -', 'pcm_dec ' + toks_str([b'v2']), 'pcm_dec ' + toks_str([b'v2', b'5']), 'pcm_dec ' + toks_str([b'v2', b'5', b'NOFLAG']),
    'pcm_dec ' + toks_str([b'v2', b'5', b'NOFLAG', b'n', b'a', b'2', b'0-18446744073709551615', b'5-6']),
    'repl_dec -', 'repl_dec ' + toks_str([b'x']), 'repl_dec ' + toks_str([b'5']), 'repl_dec ' + toks_str([b'5', b'f']),
    'repl_dec ' + toks_str([b'5', b'f', b'MaStEr', b'n', b'a', b'+1', b'x', b'y', b'REPLICA', b'', b'', b'0']),
    'repl_dec ' + toks_str([b'5', b'f', b'slave', b'n', b'a', b'0']), 'repl_dec ' + toks_str([b'5', b'f', b'master']),
    'repl_dec ' + toks_str([b'5', b'f', b'master', b'n.n', b'a', b'0']), 'repl_dec ' + toks_str([b'5', b'f', b'master', b'n', b'a', b'1', b'x']),
    'repl_dec ' + toks_str([b'5', b'f', b'slave', b'n', b'a', b'1', b'x']), 'repl_dec ' + toks_str([b'5', b'f', b'slave', b'n']),
    'coord_infomgr ' + hx(b'n 1 0-5  trailing'), 'coord_infomgr ' + hx(b' 1 0-5'), 'coord_infomgr ' + hx(b''), 'coord_infomgr ' + hx(b'n  1 0-5'),
    'mm_dec ' + toks_str([b'+1', b'', b'', b'', b'', b'x']), 'mm_dec ' + toks_str([b'1', b'a', b'b', b'c']),
    'flags_dec ' + hx(b'force'), 'flags_dec ' + hx(b'FORCE,compress'), 'flags_dec ' + hx(b',COMPRESS,'), 'flags_dec ' + hx(b'FORCECOMPRESS'), 'flags_dec -',
    'flags_dec ' + hx(b'noflag'), 'flags_dec ' + hx(b'FORCE COMPRESS'), 'flags_enc 0', 'flags_enc 1', 'flags_enc 2', 'flags_enc 3',
]


# witnesses of the known-finding classes and the literal vectors of the unit tests in /repo; always run first
_MM = (7799, b'127.0.0.1:6000', b'127.0.0.1:7000', b'127.0.0.1:6001', b'127.0.0.1:7001')
CORPUS_TASK = (b'mycluster', ('M', [(233, 666)], _MM))                      # coordinator/migration.rs test descriptor
CORPUS_PCM = [
    # common/proto.rs test_parse_proxy_cluster_meta: deleting PEER (token 10) turns both peers into local nodes; truncation after
    # token 7 / 10 / 11 / 14 is a group boundary; cutting between a config key and its value is tolerated (ext=0)
    {'epoch': 233, 'flags': 1, 'name': b'cluster_name',
     'local': [(b'127.0.0.1:7000', [('N', [(0, 1000)], None)]), (b'127.0.0.1:7010', [('N', [(1001, 2000)], None)])],
     'peer': [(b'127.0.0.2:7020', [('N', [(2001, 3000)], None)]), (b'127.0.0.2:7030', [('N', [(3001, 4000)], None)])],
     'cfg': (1, 10800, 10000, 500, 16)},
    # a migrating node with two slot ranges (the shape the broker produces mid-migration) and an importing peer
    {'epoch': 7800, 'flags': 0, 'name': b'mycluster',
     'local': [(b'127.0.0.1:7000', [('N', [(0, 232), (667, 8191)], None), ('M', [(233, 666)], _MM)])],
     'peer': [(b'127.0.0.1:6010', [('N', [(8192, 16383)], None), ('I', [(233, 666)], _MM)])],
     'cfg': (0, 10800, 10000, 500, 16)},
    # no local node, cluster named like a keyword: deleting the flags token makes `PEER` the cluster name (unvalidated flags token)
    {'epoch': 5, 'flags': 1, 'name': b'FORCE', 'local': [], 'peer': [(b'10.0.0.9:7000', [('N', [(0, 16383)], None)])], 'cfg': (2, 1, 2, 3, 4)},
    # a freshly added chunk: nodes without slots (dropped by the plain encoding, kept by the compressed one)
    {'epoch': 9, 'flags': 0, 'name': b'c1', 'local': [(b'10.0.0.1:7000', []), (b'10.0.0.1:7010', [])],
     'peer': [(b'10.0.0.2:6000', [('N', [(0, 16383)], None)])], 'cfg': (0, 10800, 10000, 500, 16)},
]
CORPUS_REPL = [
    # replication/replicator.rs test_parse_and_encode_multi_replicators
    {'epoch': 233, 'flags': 0, 'masters': [(b'testcluster', b'localhost:6000', [(b'localhost:6001', b'localhost:5299')])],
     'replicas': [(b'testcluster', b'localhost:6001', [(b'localhost:6000', b'localhost:5299')])]},
    {'epoch': 1, 'flags': 1, 'masters': [(b'', b'10.0.0.1:7000', []), (b'c', b'10.0.0.1:7010', [(b'a', b'b'), (b'c', b'd')])], 'replicas': []},
]


class Runner:
    """Runs cases through both sides, compares line by line, keeps the disagreement list."""
    def __init__(self, chk):
        self.chk = chk
        self.disagreements = []
        self.validated = 0
        self.hist = {}

    def both(self, cases):
        if not cases: return [], []
        _, impl = self.chk.run_impl(G, cases, jobs=4)
        _, model = self.chk.run_model(G, cases, jobs=4)
        for i, c in enumerate(cases):
            o = impl[i] if i < len(impl) else '<no output>'
            m = model[i] if i < len(model) else '<no output>'
            k = c.split(' ', 1)[0]
            self.hist[k] = self.hist.get(k, 0) + 1
            if o != m: self.disagreements.append({'case': c, 'impl': o, 'model': m})
            else: self.validated += 1
        impl += ['<no output>'] * (len(cases) - len(impl)); model += ['<no output>'] * (len(cases) - len(model))
        return impl, model

    def impl(self, cases):
        if not cases: return []
        _, out = self.chk.run_impl(G, cases, jobs=4)
        return out + ['<no output>'] * (len(cases) - len(out))

    def model(self, cases):
        if not cases: return []
        _, out = self.chk.run_model(G, cases, jobs=4)
        return out + ['<no output>'] * (len(cases) - len(out))


def sweep(chk, R, msgs, dec_kind, class_fn, stats):
    """msgs: list of (label, toks, ctx). Runs every mutation through both sides; an accepted mutation that decodes to something
    else than the original must be in a class (class_fn decides with the extracted predicates)."""
    cases, meta = [], []
    for label, toks, ctx in msgs:
        cases.append(dec_kind + ' ' + (toks_str(toks) if toks else '-')); meta.append((label, 'orig', None, toks, ctx))
        for kind, det, mt in mutations(toks):
            cases.append(dec_kind + ' ' + (toks_str(mt) if mt else '-')); meta.append((label, kind, det, mt, ctx))
    impl, model = R.both(cases)
    orig = {}
    pending = []
    for i, (label, kind, det, mt, ctx) in enumerate(meta):
        o = impl[i]
        chk.count(cases[i], kind != 'orig')
        if kind == 'orig':
            orig[label] = o; continue
        stats[kind] = stats.get(kind, 0) + 1
        if o.startswith('err '):
            stats['rejected'] = stats.get('rejected', 0) + 1
        elif o == orig[label]:
            stats['same'] = stats.get('same', 0) + 1
        else:
            pending.append((cases[i], label, kind, det, mt, ctx, o, model[i], orig[label]))
    class_fn(pending, stats)


def violation(chk, stats, known_id, data):
    stats[known_id or 'VIOLATION'] = stats.get(known_id or 'VIOLATION', 0) + 1
    if known_id: data = dict(data, known_id=known_id)
    chk.violation(data)


def run(chk):
    ok = vlib.standard_proof_phase(chk, TRUSTED, G)
    chk.cov['rule'] = ('cases = generated message values through the real encoders, their real argument vectors through the real parsers, and every '
                       'truncation / single-token deletion / fixed-set corruption of each vector; non-trivial = distinct mutated or generated case '
                       '(the unmutated decode of each message is the reference and is not counted)')
    if not ok:
        return
    quick = chk.tier == 'quick'
    g = Gen(chk.rng)
    R = Runner(chk)
    stats = {}
    nviol_before = getattr(chk, 'nviol', 0)

    # ---------- 0. corpus ----------
    R.both(CORPUS_DEC)

    # ---------- 0b. RangeList::new against the index-by-index model of its loop (compact_idx) ----------
    M = U64
    rln = [[], [(5, 3)], [(0, M)], [(0, M), (5, 6)], [(5, 6), (0, M)], [(5, M), (5, 7)], [(5, 7), (5, M)], [(M, M), (M, M)], [(M, 0), (1, 2)],
           [(0, 1), (2, 3), (4, 5)], [(0, 1), (3, 4), (6, 7)], [(10, 20), (0, 30), (5, 6)], [(M - 1, M - 1), (M, M)], [(M - 2, M - 1), (M, M)]]
    for _ in range(100 if quick else 5000):
        rln.append([(g.r.choice([0, 1, 2, 3, 5, 8, 13, M - 1, M]) if g.r.random() < 0.3 else g.r.randint(0, 30),
                     g.r.choice([0, 1, 2, 3, 5, 8, 13, M - 1, M]) if g.r.random() < 0.3 else g.r.randint(0, 30)) for _ in range(g.r.randint(0, 6))])
    rc_ = ['rl_new ' + f_rl(x) for x in rln]
    R.both(rc_)
    for c in rc_: chk.count(c, True)

    # ---------- 1. leaf records: encoders, decoders, round trip, every strict prefix rejected ----------
    n_leaf = 60 if quick else 1500
    leaf = []
    for _ in range(n_leaf):
        c = g.r.random() < 0.8
        leaf.append(('sr', g.sr(c))); leaf.append(('task', g.task(c))); leaf.append(('sw', (g.free(), g.task(c)))); leaf.append(('mm', g.mm()))
        leaf.append(('rl', g.rl(c)))
    leaf = [('task', CORPUS_TASK), ('sw', (b'v2', CORPUS_TASK)), ('sr', CORPUS_TASK[1])] + leaf
    # outside wf_task_str: an address containing a space shifts the tokens of the space-joined INFOMGR form (recorded, sub-check task_space_in_address)
    leaf += [('task', (b'c', ('M', [(1, 2)], (7, b'a b', b'c', b'd', b'e')))), ('task', (b'c', ('I', [(1, 2)], (7, b'a', b'c', b'd', b'e f'))))]
    leaf += [('task', g.task(True, spaces=True)) for _ in range(5)]
    enc_cases = []
    for k, v in leaf:
        if k == 'sr': enc_cases.append('sr_enc ' + f_sr(v))
        elif k == 'task': enc_cases.append('task_enc ' + f_task(v))
        elif k == 'sw': enc_cases.append('sw_enc ' + hx(v[0]) + ' ' + f_task(v[1]))
        elif k == 'mm': enc_cases.append('mm_enc ' + f_mm(v))
        else: enc_cases.append('rl_enc ' + f_rl(v))
    impl, model = R.both(enc_cases)
    for c in enc_cases: chk.count(c, True)
    # decode the real encodings, all prefixes, deletions
    dec_cases, dmeta = [], []
    cls_cases = []
    for (k, v), line in zip(leaf, impl):
        toks = parse_toks(line)
        if toks is None: continue
        if k == 'rl':
            if all(b' ' not in t for t in toks):
                dec_cases.append('rl_try ' + hx(b' '.join(toks))); dmeta.append((k, v, 'orig', toks))
            continue
        dk = {'sr': 'sr_dec', 'task': 'task_dec', 'sw': 'sw_dec', 'mm': 'mm_dec'}[k]
        dec_cases.append(dk + ' ' + toks_str(toks)); dmeta.append((k, v, 'orig', toks))
        for j in range(len(toks)):
            dec_cases.append(dk + ' ' + (toks_str(toks[:j]) if j else '-')); dmeta.append((k, v, 'trunc', j))
        for j in range(len(toks)):
            mt = toks[:j] + toks[j + 1:]
            dec_cases.append(dk + ' ' + (toks_str(mt) if mt else '-')); dmeta.append((k, v, 'del', j))
    impl, model = R.both(dec_cases)
    tasks_for_str = [v for k, v in leaf if k == 'task']
    str_out = R.model(['task_str ' + f_task(v) for v in tasks_for_str])     # INFOMGR element as the model's join(" ") prints it
    # expected round-trip results come from the model's encoders+parsers being in agreement with the implementation; the monitor
    # itself only looks at what the implementation did
    strs = []
    cur_orig = None
    for (k, v, kind, det), c, o, mo in zip(dmeta, dec_cases, impl, model):
        chk.count(c, kind != 'orig')
        if kind == 'orig':
            cur_orig = o
            # round trip on the real code: the decoded value equals the value (compact range lists) and nothing is left over
            if k == 'rl':
                want = 'ok ' + f_rl(v)
                compact_v = is_compact_py(v)
            else:
                body = {'sr': f_sr, 'task': f_task, 'mm': f_mm}.get(k)
                want = 'ok ' + (hx(v[0]) + ' ' + f_task(v[1]) if k == 'sw' else body(v)) + ' rest=0'
                compact_v = is_compact_py(v[1] if k == 'sr' else (v[1][1] if k == 'task' else (v[1][1][1] if k == 'sw' else [])))
            if o != want and compact_v:
                violation(chk, stats, None, {'kind': 'monitor', 'what': 'round trip of a %s value through the real encoder and parser is not the identity' % k,
                                             'case': c, 'impl': o, 'expected': want})
            stats['leaf_roundtrip' if compact_v else 'leaf_roundtrip_noncompact'] = stats.get('leaf_roundtrip' if compact_v else 'leaf_roundtrip_noncompact', 0) + 1
        elif kind == 'trunc':
            stats['leaf_trunc'] = stats.get('leaf_trunc', 0) + 1
            if not o.startswith('err '):
                violation(chk, stats, None, {'kind': 'monitor', 'what': 'a strict prefix (%d tokens) of a %s encoding is accepted' % (det, k), 'case': c, 'impl': o})
        elif kind == 'del':
            stats['leaf_del'] = stats.get('leaf_del', 0) + 1
            if not o.startswith('err ') and o != cur_orig:
                # accepted as something else: fine only if the parser consumed a vector that is itself a complete encoding followed by
                # ignored tokens (rest>0: the readers never check for left-over tokens) or is itself a printer output
                rest = int(kv(mo).get('rest', '0')) if mo.startswith('ok ') else 0      # class predicate: the extracted parser leaves tokens
                if rest > 0:
                    violation(chk, stats, 'trailing-tokens-ignored', {'kind': 'monitor', 'what': 'deleting token %d of a %s encoding is accepted as a different value, %d trailing tokens ignored' % (det, k, rest), 'case': c, 'impl': o, 'orig': cur_orig})
                else:
                    cls_cases.append((k, c, o, cur_orig))
    # deletions accepted with nothing left over: must re-encode to exactly the mutated vector (in the printer's language)
    if cls_cases:
        re_cases = []
        for k, c, o, oo in cls_cases:
            body = o[3:].rsplit(' rest=', 1)[0]
            re_cases.append({'sr': 'sr_enc ', 'task': 'task_enc ', 'sw': 'sw_enc ', 'mm': 'mm_enc '}[k] + body)
        outs = R.impl(re_cases)
        for (k, c, o, oo), rc, ro in zip(cls_cases, re_cases, outs):
            if ro.split()[1:] == c.split()[1:]:
                violation(chk, stats, 'token-mutation-in-language', {'kind': 'monitor', 'what': 'a %s encoding with one token deleted is itself a complete encoding of a different value' % k, 'case': c, 'impl': o, 'orig': oo})
            else:
                violation(chk, stats, None, {'kind': 'monitor', 'what': 'a %s encoding with one token deleted is accepted as a different value and is not a printer output' % k, 'case': c, 'impl': o, 'orig': oo, 'reencoded': ro})
    for v, o in zip(tasks_for_str, str_out):
        p = o.split()
        if len(p) == 2 and p[0] == 'str': strs.append((v, p[1]))
    # INFOMGR string journey (arbitrary descriptors): the model's element string through the coordinator's real reader
    un_cases = ['coord_infomgr ' + s for _, s in strs]       # the real MigrationStateRespChecker::check
    impl, model = R.both(un_cases)
    cl = R.model(['cls_task ' + f_task(v) for v, _ in strs])
    for (v, s), c, o, cls in zip(strs, un_cases, impl, cl):
        chk.count(c, True)
        want = 'ok ' + f_task(v)
        f = kv(cls)
        if o != want and f.get('compact') == '1':
            if f.get('wfstr') == '0' and f.get('wf') == '1':
                stats['task_space_in_address'] = stats.get('task_space_in_address', 0) + 1     # outside wf_task_str: reported, see note
                chk.sub('task_space_in_address', example={'case': c, 'impl': o, 'expected': want})
            else:
                violation(chk, stats, None, {'kind': 'monitor', 'what': 'INFOMGR journey (join then split+from_strings) does not return the descriptor', 'case': c, 'impl': o, 'expected': want})
        stats['task_str_journey'] = stats.get('task_str_journey', 0) + 1

    # ---------- 1b. INFOMGR end to end: real migrations on two real proxies -> real executor reply -> real coordinator reader ----------
    n_e = 12 if quick else 150
    sets = [(b'mycluster', 7799, [[(233, 666)]]), (b'', 1, [[]]), (b'c', U64, [[(0, 0)], [(16383, 16383)]])]
    for _ in range(n_e):
        k = g.r.choice([1, 1, 2, 3]); cur = g.r.randint(0, 2000); rls = []
        for _ in range(k):
            rl = []
            for _ in range(g.r.choice([1, 1, 2, 3])):
                s0 = cur; e0 = min(16383, s0 + g.r.choice([0, 1, 50, 900])); rl.append((s0, e0)); cur = e0 + g.r.randint(2, 700)
            rls.append([r for r in rl if r[1] <= 16383 and r[0] <= r[1] and r[0] <= 16383])
        rls = [rl for rl in rls if rl]
        if rls and cur < 16384 + 700: sets.append((g.name(), max(1, g.num(True)), rls))
    ec = ['infomgr_e2e %s %d %d %s' % (hx(n), e, len(rls), ' '.join(f_rl(rl) for rl in rls)) for n, e, rls in sets]
    impl, _ = R.both(ec)
    P1, N1, P2, N2 = b'127.0.1.1:5299', b'127.0.1.1:7001', b'127.0.2.1:5299', b'127.0.2.1:7001'
    for (n, e, rls), c, o in zip(sets, ec, impl):
        chk.count(c, True)
        stats['infomgr_e2e'] = stats.get('infomgr_e2e', 0) + 1
        want = sorted(f_task((n, ('M', rl, (e, P1, N1, P2, N2)))) for rl in rls)
        got = o.split(' | ', 1)[1] if ' | ' in o else o
        if got != 'ok %d %s' % (len(want), ' ; '.join(want)):
            violation(chk, stats, None, {'kind': 'monitor', 'what': 'the descriptors a proxy reports through UMCTL INFOMGR do not reach the coordinator as the migrations that finished',
                                         'case': c, 'impl': o, 'expected': 'ok %d %s' % (len(want), ' ; '.join(want))})

    # ---------- 2. cluster metadata, plain form ----------
    n_pcm = 40 if quick else 1200
    vals = list(CORPUS_PCM)          # hand-written witnesses first (their mutation sweeps run first)
    for i in range(n_pcm):
        k = g.r.random()
        vals.append(g.pcm(compact=(k < 0.9), allow_empty=(0.7 < k), maxnodes=3 if quick else g.r.choice([3, 3, 5])))
    vals.append({'epoch': 0, 'flags': 0, 'name': b'', 'local': [], 'peer': [], 'cfg': (0, 10800, 10000, 500, 16)})
    vals.append({'epoch': U64, 'flags': 1, 'name': b'PEER', 'local': [], 'peer': [(b'10.0.0.1:70', [('N', [(0, 16383)], None)])], 'cfg': (2, U64, 0, U64, 1)})
    vals.append({'epoch': 7, 'flags': 0, 'name': b'c', 'local': [(b'10.0.0.1:70', [])], 'peer': [(b'10.0.0.2:70', [])], 'cfg': (1, 1, 2, 3, 4)})
    # values violating a wf hypothesis of the round-trip theorems: what the real code does with them is recorded (sub-check pcm_not_wf)
    vals.append({'epoch': 7, 'flags': 0, 'name': b'c', 'local': [(b'10.0.0.1:70', [('N', [(0, 5)], None)])], 'peer': [], 'cfg': (1, 1, 2, 3, 0)})       # scan_count = 0
    vals.append({'epoch': 7, 'flags': 0, 'name': b'c', 'local': [(b'peer', [('N', [(0, 5)], None)])], 'peer': [], 'cfg': (1, 1, 2, 3, 4)})              # node address is a section keyword
    vals.append({'epoch': 7, 'flags': 0, 'name': b'c', 'local': [(b'10.0.0.1:70', [('N', [(0, 5)], None)])], 'peer': [(b'Config', [('N', [(9, 9)], None)])], 'cfg': (1, 1, 2, 3, 4)})
    vals.append({'epoch': 7, 'flags': 2, 'name': b'c', 'local': [(b'10.0.0.1:70', [('N', [(0, 5)], None)])], 'peer': [], 'cfg': (1, 1, 2, 3, 4)})        # COMPRESS flag on the plain form
    enc = ['pcm_enc - ' + f_pcm(m) for m in vals]
    impl_enc = R.impl(enc)
    ordered, msgs = [], []
    enc2 = []
    for m, line in zip(vals, impl_enc):
        toks = parse_toks(line)
        d = derive_order(m, toks) if toks is not None else None
        if d is None:
            R.disagreements.append({'case': 'pcm_enc - ' + f_pcm(m), 'impl': line, 'model': 'argument vector is not a permutation of the node groups / config pairs of the value'})
            continue
        m2, ordd = d
        ordered.append((m2, ordd, toks)); enc2.append('pcm_enc %s %s' % (ordd, f_pcm(m2)))
    model_enc = R.model(enc2)
    for (m2, ordd, toks), c, mo in zip(ordered, enc2, model_enc):
        chk.count(c, True)
        R.hist['pcm_enc'] = R.hist.get('pcm_enc', 0) + 1
        if parse_toks(mo) != toks: R.disagreements.append({'case': c, 'impl': 'toks ' + toks_str(toks), 'model': mo})
        else: R.validated += 1
    cls = R.model(['cls_pcm %s %s' % (ordd, f_pcm(m2)) for m2, ordd, _ in ordered])
    dec = ['pcm_dec ' + toks_str(toks) for _, _, toks in ordered]
    impl_dec, _ = R.both(dec)
    for (m2, ordd, toks), c, o, cl in zip(ordered, dec, impl_dec, cls):
        chk.count(c, True)
        judge_plain(chk, stats, m2, o, cl, 'pcm_enc - ' + f_pcm(m2))
    msgs = [(i, toks, (m2, ordd)) for i, (m2, ordd, toks) in enumerate(ordered)]

    def pcm_classes(pending, stats):
        lang = R.model(['cls_lang ' + (toks_str(mt) if mt else '-') for _, _, _, _, mt, _, _, _, _ in pending])
        tr = R.model(['cls_trunc %d %s %s' % (det if kind == 'trunc' else 0, ctx[1], f_pcm(ctx[0])) for _, _, kind, det, _, ctx, _, _, _ in pending])
        for (c, label, kind, det, mt, ctx, o, mo, oo), l, t in zip(pending, lang, tr):
            lf, tf = kv(l), kv(t)
            data = {'kind': 'monitor', 'case': c, 'impl': o, 'model': mo, 'orig': oo, 'mutation': '%s %s' % (kind, det)}
            ext0 = o.endswith('ext=0')
            if o.startswith('panic'):
                violation(chk, stats, None, dict(data, what='a mutated SETCLUSTER vector makes the parser panic'))
            elif kind == 'trunc':
                if tf.get('gb') == '1': violation(chk, stats, 'truncation-at-group-boundary', dict(data, what='truncated SETCLUSTER vector accepted: cut at a group boundary'))
                elif tf.get('cv') == '1' and ext0: violation(chk, stats, 'config-error-tolerated', dict(data, what='truncated SETCLUSTER vector accepted: config error tolerated'))
                else: violation(chk, stats, None, dict(data, what='SETCLUSTER vector truncated inside a group is accepted as different metadata'))
            else:
                if lf.get('lang') == '1': violation(chk, stats, 'token-mutation-in-language', dict(data, what='mutated SETCLUSTER vector is itself a printer output for different metadata'))
                elif ext0 and lf.get('tol') == '1': violation(chk, stats, 'config-error-tolerated', dict(data, what='mutated SETCLUSTER vector accepted: config error tolerated'))
                elif lf.get('flags') == '1': violation(chk, stats, 'unvalidated-flags-token', dict(data, what='mutated SETCLUSTER vector accepted: the flags slot holds an unrecognised token'))
                elif lf.get('regroup') == '1': violation(chk, stats, 'interleaved-node-groups', dict(data, what='mutated SETCLUSTER vector accepted: groups of one node separated by another node\'s group (not a printer output)'))
                else: violation(chk, stats, None, dict(data, what='mutated SETCLUSTER vector accepted as different metadata outside every known class'))
    pstats = {}
    own = R.model(['cls_lang ' + toks_str(t) for _, t, _ in msgs])
    msgs = [x for x, l in zip(msgs, own) if kv(l).get('lang') == '1']
    pstats['messages_swept'] = len(msgs if not quick else msgs[:30])
    sweep(chk, R, msgs if not quick else msgs[:30], 'pcm_dec', pcm_classes, pstats)

    # ---------- 3. compressed form: section hypothesis against the real libraries + base64 mutation sweep ----------
    n_z = 40 if quick else 800
    zvals = [dict(m, flags=m['flags'] | 2) for m in CORPUS_PCM] + [g.pcm(compact=(g.r.random() < 0.8), compress=True) for _ in range(n_z)]
    zc = ['pcm_zrt ' + f_pcm(m) for m in zvals]
    impl, _ = R.both(zc)
    for m, c, o in zip(zvals, zc, impl):
        chk.count(c, True)
        stats['compressed_roundtrip'] = stats.get('compressed_roundtrip', 0) + 1
        if o != 'ok ' + f_pcm(m, canon=True) + ' ext=1':
            violation(chk, stats, None, {'kind': 'monitor', 'what': 'compressed round trip (pack_roundtrip hypothesis on the real serde_json+gzip+base64) fails', 'case': c, 'impl': o})
    zenc = R.impl(['pcm_zenc ' + f_pcm(m) for m in zvals[:8 if quick else 60]])
    zm, zmeta = [], []
    al = b'ABCDEFGHIJKLMNOPQRSTUVWXYZabcdefghijklmnopqrstuvwxyz0123456789+/'
    for line in zenc:
        toks = parse_toks(line)
        if not toks or len(toks) != 4: continue
        d = toks[3]
        zm.append('pcm_dec ' + toks_str(toks)); zmeta.append('orig')
        for k in range(4):
            zm.append('pcm_dec ' + (toks_str(toks[:k]) if k else '-')); zmeta.append('trunc')
        pos = list(range(len(d))) if len(d) <= (120 if quick else 400) else sorted(g.r.sample(range(len(d)), 120 if quick else 400))
        for p in pos:
            for rep in (bytes([al[(al.index(d[p:p + 1]) + 1) % 64]]) if d[p:p + 1] in al else b'A', b''):
                zm.append('pcm_dec ' + toks_str(toks[:3] + [d[:p] + rep + d[p + 1:]])); zmeta.append('b64')
        for cut in (1, 2, 3, 4, 8, len(d) // 2):
            zm.append('pcm_dec ' + toks_str(toks[:3] + [d[:-cut]])); zmeta.append('b64cut')
    zo = R.impl(zm)
    cur = None
    for c, kind, o in zip(zm, zmeta, zo):
        chk.count(c, kind != 'orig')
        if kind == 'orig': cur = o; continue
        stats['z_' + kind] = stats.get('z_' + kind, 0) + 1
        if o.startswith('err '): stats['z_rejected'] = stats.get('z_rejected', 0) + 1
        elif o == cur: stats['z_same'] = stats.get('z_same', 0) + 1
        else: violation(chk, stats, None, {'kind': 'monitor', 'what': 'corrupted compressed SETCLUSTER vector accepted as different metadata', 'case': c, 'impl': o, 'orig': cur})

    # ---------- 4. replication metadata ----------
    n_r = 40 if quick else 1000
    rvals = list(CORPUS_REPL) + [g.repl() for _ in range(n_r)] + [{'epoch': 0, 'flags': 0, 'masters': [], 'replicas': []}]
    rc = ['repl_enc ' + f_repl(m) for m in rvals]
    impl, _ = R.both(rc)
    rmsgs = []
    for m, c, o in zip(rvals, rc, impl):
        chk.count(c, True)
        toks = parse_toks(o)
        if toks is not None: rmsgs.append((len(rmsgs), toks, m))
    rdec = ['repl_dec ' + toks_str(t) for _, t, _ in rmsgs]
    impl, _ = R.both(rdec)
    for (_, toks, m), c, o in zip(rmsgs, rdec, impl):
        chk.count(c, True)
        stats['repl_roundtrip'] = stats.get('repl_roundtrip', 0) + 1
        if o != 'ok ' + f_repl(m):
            violation(chk, stats, None, {'kind': 'monitor', 'what': 'SETREPL round trip on the real code returns a different value', 'case': 'repl_enc ' + f_repl(m), 'impl': o})

    def repl_classes(pending, stats):
        lang = R.model(['cls_rlang ' + (toks_str(mt) if mt else '-') for _, _, _, _, mt, _, _, _, _ in pending])
        tr = R.model(['cls_rtrunc %d %s' % (det if kind == 'trunc' else 0, f_repl(ctx)) for _, _, kind, det, _, ctx, _, _, _ in pending])
        for (c, label, kind, det, mt, ctx, o, mo, oo), l, t in zip(pending, lang, tr):
            data = {'kind': 'monitor', 'case': c, 'impl': o, 'model': mo, 'orig': oo, 'mutation': '%s %s' % (kind, det)}
            if o.startswith('panic'): violation(chk, stats, None, dict(data, what='a mutated SETREPL vector makes the parser panic'))
            elif kind == 'trunc':
                if kv(t).get('rb') == '1': violation(chk, stats, 'truncation-at-record-boundary', dict(data, what='truncated SETREPL vector accepted: cut at a record boundary'))
                else: violation(chk, stats, None, dict(data, what='SETREPL vector truncated inside a record is accepted as different metadata'))
            elif kv(l).get('lang') == '1': violation(chk, stats, 'token-mutation-in-language', dict(data, what='mutated SETREPL vector is itself a printer output for different metadata'))
            elif kv(l).get('flags') == '1':
                violation(chk, stats, 'unvalidated-flags-token', dict(data, what='mutated SETREPL vector accepted: the flags slot holds an unrecognised token'))
            else: violation(chk, stats, None, dict(data, what='mutated SETREPL vector accepted as different metadata outside every known class'))
    rstats = {}
    own = R.model(['cls_rlang ' + toks_str(t) for _, t, _ in rmsgs])
    rmsgs = [x for x, l in zip(rmsgs, own) if kv(l).get('lang') == '1']
    rstats['messages_swept'] = len(rmsgs if not quick else rmsgs[:30])
    sweep(chk, R, rmsgs if not quick else rmsgs[:30], 'repl_dec', repl_classes, rstats)

    # ---------- 5. the coordinator's own path: ProxyMetaRespSender::send_meta -> SETREPL + SETCLUSTER -> the proxy's parsers ----------
    n_c = 40 if quick else 800
    cps = []
    for i in range(n_c):
        m = g.pcm(compact=(g.r.random() < 0.9), allow_empty=(g.r.random() < 0.3))
        nodes = [(a, g.r.choice('mmr'), srs, [(g.free(), g.free()) for _ in range(g.r.choice([0, 1, 1, 2]))]) for a, srs in m['local']]
        cps.append({'name': (m['name'] if g.r.random() < 0.9 else None), 'epoch': m['epoch'], 'nodes': nodes, 'peer': m['peer'], 'cfg': m['cfg'], 'c': i % 2})
    cc = ['coord_send %d %s' % (p['c'], f_cproxy(p)) for p in cps]
    impl, _ = R.both(cc)
    derived = []
    for p in cps:
        named = p['name'] is not None
        derived.append(({'epoch': p['epoch'], 'flags': 2 * p['c'], 'name': p['name'] if named else b'',
                         'local': [(a, srs) for a, role, srs, _ in p['nodes'] if role == 'm'] if named else [], 'peer': p['peer'], 'cfg': p['cfg']},
                        {'epoch': p['epoch'], 'flags': 0,
                         'masters': [(p['name'], a, ps) for a, role, _, ps in p['nodes'] if role == 'm'] if named else [(b'', a, []) for a, _, _, _ in p['nodes']],
                         'replicas': [(p['name'], a, ps) for a, role, _, ps in p['nodes'] if role == 'r'] if named else []}))
    cls = R.model(['cls_pcm 01234 ' + f_pcm(dict(d, flags=0)) for d, _ in derived])
    for p, c, o, (dm, dr), cl in zip(cps, cc, impl, derived, cls):
        chk.count(c, True)
        stats['coord_send'] = stats.get('coord_send', 0) + 1
        parts = o.split(' | cluster ')
        if len(parts) != 2 or not parts[0].startswith('repl '):
            violation(chk, stats, None, {'kind': 'monitor', 'what': 'coordinator send_meta did not produce the two messages', 'case': c, 'impl': o}); continue
        if parts[0][5:] != 'ok ' + f_repl(dr):
            violation(chk, stats, None, {'kind': 'monitor', 'what': 'the SETREPL message the coordinator sends does not decode to the proxy\'s replication metadata', 'case': c, 'impl': o, 'expected': f_repl(dr)})
        if p['c'] == 1:
            if parts[1] != 'ok ' + f_pcm(dm, canon=True) + ' ext=1':
                violation(chk, stats, None, {'kind': 'monitor', 'what': 'the compressed SETCLUSTER message the coordinator sends does not decode to the proxy\'s metadata', 'case': c, 'impl': o, 'expected': f_pcm(dm, canon=True)})
        else:
            judge_plain(chk, stats, dm, parts[1], cl, c, what='the plain SETCLUSTER message the coordinator sends')

    # ---------- bookkeeping ----------
    chk.cov['traces_validated_against_impl'] = R.validated
    chk.sub('distribution', case_kinds=R.hist, leaf_and_roundtrips=stats, setcluster_mutations=pstats, setrepl_mutations=rstats,
            disagreements=len(R.disagreements))
    chk.sample({'case': enc2[0] if enc2 else '', 'impl': impl_enc[0] if impl_enc else ''})
    for d in R.disagreements[:3]: chk.sample(d)
    nmon = getattr(chk, 'nviol', 0) - nviol_before
    if R.disagreements and not nmon:
        chk.violation({'kind': 'correspondence', 'correspondence': 'Model/Wire.v vs common/proto.rs, common/cluster.rs, replication/replicator.rs, migration/task.rs',
                       'first': R.disagreements[0], 'count': len(R.disagreements),
                       'search': 'all monitors (round trips, prefix rejection, mutation classes) evaluated on every implementation output incl. the disagreeing ones: no property failure'},
                      no_input=True)


def judge_plain(chk, stats, m, o, cl, case, what='plain round trip on the real code'):
    """o: what the implementation decoded from its own plain encoding of m; cl: the model's cls_pcm line for m"""
    f = kv(cl)
    norm = cl.split(' norm=', 1)[1].rsplit(' len=', 1)[0] if ' norm=' in cl else '?'
    want_exact = 'ok ' + f_pcm(m, canon=True) + ' ext=1'
    stats['pcm_roundtrip'] = stats.get('pcm_roundtrip', 0) + 1
    if f.get('wf') != '1':
        stats['pcm_not_wf'] = stats.get('pcm_not_wf', 0) + 1
        ex = chk.cov['subchecks'].setdefault('pcm_not_wf', {}).setdefault('examples', [])
        if len(ex) < 8: ex.append({'value': f_pcm(m), 'impl_decode_of_own_encoding': o})
        return
    if o == want_exact: return
    compact_v = all(is_compact_py(s[1]) for nm in (m['local'], m['peer']) for _, srs in nm for s in srs)
    if f.get('empty') == '1' and o == 'ok ' + norm + ' ext=1':
        violation(chk, stats, 'plain-encoding-drops-empty-node', {'kind': 'monitor', 'what': 'the plain encoding drops nodes that have no slot range', 'case': case, 'impl': o, 'value': want_exact})
    elif not compact_v and o == 'ok ' + norm + ' ext=1':
        stats['pcm_roundtrip_noncompact'] = stats.get('pcm_roundtrip_noncompact', 0) + 1
    else:
        violation(chk, stats, None, {'kind': 'monitor', 'what': what + ' returns a different value', 'case': case, 'impl': o, 'value': want_exact, 'model_normal_form': norm})


def f_cproxy(p):
    nodes = ' '.join('%s %s %d %s %d %s' % (hx(a), role, len(srs), ' '.join(f_sr(x) for x in srs), len(ps), ' '.join(hx(x) + ' ' + hx(y) for x, y in ps))
                     for a, role, srs, ps in p['nodes'])
    return ' '.join([hx(p['name']) if p['name'] is not None else '~', str(p['epoch']), str(len(p['nodes'])), ' '.join(nodes.split()), f_nm(p['peer']), f_cfg(p['cfg'])])


def is_compact_py(rl):
    # only used to decide whether the generator meant an identity round trip; the normal form itself comes from the model
    for i, (s, e) in enumerate(rl):
        if s > e: return False
        if i + 1 < len(rl) and not (e + 1 < rl[i + 1][0]): return False
    return True


def replay(data):
    chk = vlib.Check('C17', 'quick', 0)
    c = data.get('case') or (data.get('first') or {}).get('case')
    if not c:
        print(data); return 0
    chk.build_impl(G); chk.build_models(G)
    _, impl = chk.run_impl(G, [c]); _, model = chk.run_model(G, [c])
    print('case :', c); print('impl :', impl); print('model:', model)
    for k in ('what', 'orig', 'value', 'expected', 'mutation', 'known_id'):
        if k in data: print('%-5s:' % k, data[k])
    bad = data.get('kind') == 'monitor' and impl and impl[0] == data.get('impl')
    print('monitor: the recorded observation %s on the current tree' % ('is reproduced' if bad else 'is NOT reproduced'))
    return 1 if bad else 0
