"""C05 A proxy installs metadata iff it is strictly newer, atomically.
Proof: coq/Props/C05.v over Model/Epoch.v (sequential rule, every history, thread pools of update_replicators and set_meta).
Correspondence: generated UMCTL SETCLUSTER / SETREPL sequences through a real SharedForwardHandler; replies, UMCTL GETEPOCH,
UMCTL LISTCLUSTER, routing of a probe key and UMCTL INFOREPL after every message are compared with the extracted model.
Monitors: the clauses of the property evaluated (independently of the model) on what the implementation answered.
Concurrent clause: 4 OS threads send one SETREPL each at the same time; invariants checked, and the extracted thread model
is used as an acceptor (the observed replies / final roles / behaviour of later probes must be one of its quiescent outcomes).
4 OS threads send one SETCLUSTER each: replies and final (epoch, cluster, routing) must be those of some one-at-a-time order."""
import vlib

MANIFEST = {
  'text': 'Theorems over Model/Epoch.v (mirrors MetaManager::set_meta, ReplicatorManager::update_replicators, check_hosts, '
          'FORCE flag parsing, reply mapping of handle_umctl): C05_seq_spec (a host-ok message is accepted iff forced or its epoch '
          'is strictly above the installed epoch of its kind; on accept the installed (epoch, content) are the message\'s, the other '
          'kind untouched; on reject state unchanged and OLD_EPOCH), C05_host (wrong host or address without port: state unchanged, '
          'NOT_MY_META), C05_history (induction over every message list: an installed epoch decreases only at an accepted forced '
          'message; installed (epoch, routing, roles) = those of the last accepted message of the kind), C05_roles_of_message + '
          'C05_roles_ill_formed_witness (roles are a function of the message unless it lists one node as master and replica), '
          'C05_concurrent_repl (small-step model of update_replicators, arbitrary thread pool and schedule: the installed epoch '
          'changes only to the epoch of a caller answered OK, strictly upwards unless forced; a caller rejected by the optimistic '
          'check had an epoch >= its own installed earlier or stored by a caller still in flight), C05_concurrent_repl_noforce '
          '(without forced messages the epoch is monotone and at quiescence equals the maximum), C05_forced_not_linearizable '
          '(witness: with a forced lower-epoch message in flight the early OLD_EPOCH is not linearizable), C05_solo_refines / '
          'C05_sched_is_execution (thread model run alone = sequential function; scheduler runs are executions), C05_cluster_atomic '
          '(set_meta under its mutex: installed meta = sequential result in mutex order; reported epoch lags only inside the mutex). '
          'Tied to the code by a differential run of real SETCLUSTER/SETREPL sequences through SharedForwardHandler.',
  'note': 'All theorems closed under the global context. Partial: (1) the concurrent clause is proved for the model; the real '
          'interleavings are sampled from 4 OS threads (not controlled), checked against invariants and against the model used as '
          'an acceptor (SETREPL) / against linearizability in some order (SETCLUSTER); (2) the replication epoch is not reported by any command, it is observed through later accept/reject '
          'decisions and INFOREPL; (3) a message content is an identifier + the address designated for one probe key; slot maps '
          'and migration tasks carried over an accepted message are not modelled here; (4) argument parsing is outside (Wire model); '
          'epochs are unbounded N in the model, u64 in the code (generated below 2^64). Stated as true only outside the class '
          '"same (cluster,node) listed as master and replica": there the installed role depends on the previous replicators '
          '(witness replayed in the corpus).',
  'technique': 'Coq proof (induction over histories, invariants of a small-step thread-pool model) over a hand-written model + '
               'differential correspondence check against the real proxy + model-as-acceptor for sampled concurrent runs',
}

TRUSTED = ['Coq 8.16.1 kernel (coqc; coqchk in the thorough tier); no axioms (Print Assumptions: closed)',
           'extraction with ExtrOcamlBasic only + ocaml/vio.ml, d_epoch.ml (incl. the exhaustive explorer of the thread model), driver_lib.ml',
           'harness/epoch: fake ConnFactory (logs which node address executes the probe GET), fake RedisClientFactory answering +OK to the replicators',
           'realisation of abstract message contents by the harness: content id -> cluster name, route -> owner of the probe slot, peers id -> ReplPeer port',
           'atomicity assumptions of the thread model: AtomicU64 load/store (SeqCst) and the RwLock / Mutex sections are atomic actions; '
           'compare+install under the write lock is one action, the late-reject store happens with the lock held']

H_DEFAULT = '127.0.0.1'


def hx(s):
    return s.encode().hex() if s else '-'


class C:
    def __init__(self, epoch, flags, content, route, locals_):
        self.kind, self.epoch, self.flags, self.content, self.route, self.locals = 'C', epoch, flags, content, route, list(locals_)

    def line(self):
        return ('C %d %s %d %s %d %s' % (self.epoch, hx(self.flags), self.content, hx(self.route), len(self.locals),
                                          ' '.join(hx(a) for a in self.locals))).strip()


class R:
    def __init__(self, epoch, flags, masters, replicas):
        self.kind, self.epoch, self.flags, self.masters, self.replicas = 'R', epoch, flags, list(masters), list(replicas)

    def line(self):
        def nodes(l):
            return ('%d %s' % (len(l), ' '.join('%s %s %d' % (hx(c), hx(a), p) for c, a, p in l))).strip()
        return 'R %d %s %s %s' % (self.epoch, hx(self.flags), nodes(self.masters), nodes(self.replicas))


def seq_line(host, msgs):
    return ('seq %s %d %s' % (hx(host), len(msgs), ' '.join(m.line() for m in msgs))).strip()


def conc_line(host, pre, thr, suf, kind='conc'):
    def part(ms):
        return ('%d %s' % (len(ms), ' '.join(m.line() for m in ms))).strip()
    return '%s %s %s %s %s' % (kind, hx(host), part(pre), part(thr), part(suf))


# ---------- the specification, written independently of the Coq model (used by the monitors) ----------

def spec_force(flags):
    return any(p.upper() == 'FORCE' for p in flags.split(','))


def spec_host_ok(host, addr):
    parts = addr.split(':', 1)
    return len(parts) == 2 and parts[0] == host


def spec_msg_host_ok(host, m):
    if m.kind == 'C':
        return all(spec_host_ok(host, a) for a in m.locals)
    return all(spec_host_ok(host, a) for _, a, _ in m.masters + m.replicas)


def spec_wf(m):
    mk = set((c, a) for c, a, _ in m.masters)
    return not any((c, a) in mk for c, a, _ in m.replicas)


def spec_roles_of(m):
    """roles a well-formed message installs: last record per key"""
    d = {}
    for c, a, p in m.masters:
        d[(c, a)] = ('M', p)
    for c, a, p in m.replicas:
        d[(c, a)] = ('R', p)
    l = sorted('%s:%s:%s:%d' % (hx(c), hx(a), r, p) for (c, a), (r, p) in d.items())
    return ','.join(l) if l else '-'


class Obs:
    def __init__(self, tok):
        f = tok.split('/')
        self.ok = len(f) == 5
        if self.ok:
            self.reply, self.epoch, self.content, self.route, self.roles = f
        self.tok = tok


def monitor_seq(host, msgs, out, start=None):
    """Returns (problem or None, stats). start = (cl_epoch, content, route, rp_epoch, roles) before the first message."""
    toks = out.split()
    if not toks or toks[0] != 'seq' or len(toks) != len(msgs) + 1:
        return 'malformed output %r' % out[:200], {}
    return monitor_steps(host, msgs, toks[1:], start or (0, '-', '-', 0, '-', True))


def monitor_steps(host, msgs, toks, st):
    cl_epoch, content, route, rp_epoch, roles, roles_known = st
    stats = {'accepted': 0, 'old': 0, 'notmine': 0, 'forced_down': 0, 'ill_formed_accepted': 0}
    for i, (m, tok) in enumerate(zip(msgs, toks)):
        o = Obs(tok)
        if not o.ok:
            return 'step %d: malformed observation %r' % (i, tok), stats
        where = 'step %d (%s epoch %d flags %r)' % (i, m.kind, m.epoch, m.flags)
        try:
            rep_epoch = int(o.epoch)
        except ValueError:
            return '%s: GETEPOCH is not a number: %r' % (where, o.epoch), stats
        if not spec_msg_host_ok(host, m):
            expect = 'notmine'
            new = (cl_epoch, content, route, rp_epoch, roles, roles_known)
            stats['notmine'] += 1
        else:
            installed = cl_epoch if m.kind == 'C' else rp_epoch
            acc = spec_force(m.flags) or m.epoch > installed
            expect = 'ok' if acc else 'old'
            if acc:
                stats['accepted'] += 1
                if m.epoch < installed: stats['forced_down'] += 1
                if m.kind == 'C':
                    new = (m.epoch, str(m.content), hx(m.route), rp_epoch, roles, roles_known)
                else:
                    if spec_wf(m):
                        new = (cl_epoch, content, route, m.epoch, spec_roles_of(m), True)
                    else:
                        stats['ill_formed_accepted'] += 1
                        new = (cl_epoch, content, route, m.epoch, o.roles, False)   # class outside the theorem: take what is there
            else:
                stats['old'] += 1
                new = (cl_epoch, content, route, rp_epoch, roles, roles_known)
        if o.reply != expect:
            return '%s: reply %s, the property demands %s (installed epoch of the kind before: %d)' % (
                where, o.reply, expect, cl_epoch if m.kind == 'C' else rp_epoch), stats
        if rep_epoch < cl_epoch and not (m.kind == 'C' and spec_force(m.flags) and o.reply == 'ok'):
            return '%s: reported epoch decreased %d -> %d without an accepted forced SETCLUSTER' % (where, cl_epoch, rep_epoch), stats
        if rep_epoch != new[0]:
            return '%s: GETEPOCH %d, expected %d' % (where, rep_epoch, new[0]), stats
        if o.content != new[1] or o.route != new[2]:
            return '%s: routing/cluster (%s, %s) does not correspond to the accepted message carrying epoch %d: expected (%s, %s)' % (
                where, o.content, o.route, new[0], new[1], new[2]), stats
        if new[5] and o.roles != new[4]:
            return '%s: replication roles %s, expected %s (last accepted SETREPL)' % (where, o.roles, new[4]), stats
        cl_epoch, content, route, rp_epoch, roles, roles_known = new
    stats['final'] = (cl_epoch, content, route, rp_epoch, roles, roles_known)
    return None, stats


def monitor_conc(host, pre, thr, suf, out):
    """Invariants of the concurrent clause on one observed batch."""
    toks = out.split()
    if len(toks) != 3 + len(suf) or toks[0] != 'conc':
        return 'malformed output %r' % out[:200], {}
    replies = toks[1].split(',')
    roles_after = toks[2]
    if len(replies) != len(thr):
        return 'reply count', {}
    # state before the batch, by the sequential specification (the prefix itself is monitored in seq cases)
    e_pre, roles_pre = 0, '-'
    for m in pre:
        if spec_msg_host_ok(host, m) and (spec_force(m.flags) or m.epoch > e_pre):
            e_pre, roles_pre = m.epoch, spec_roles_of(m)
    any_force = any(spec_force(m.flags) for m in thr if spec_msg_host_ok(host, m))
    oks = []
    for m, r in zip(thr, replies):
        hok = spec_msg_host_ok(host, m)
        if r not in ('ok', 'old', 'notmine'):
            return 'unexpected reply %s' % r, {}
        if (r == 'notmine') != (not hok):
            return 'host clause: reply %s for a message with host_ok=%s' % (r, hok), {}
        if hok and spec_force(m.flags) and r != 'ok':
            return 'forced message answered %s' % r, {}
        if r == 'ok':
            oks.append(m)
    stats = {'ok': len(oks), 'any_force': any_force}
    cand_roles = set([roles_pre] + [spec_roles_of(m) for m in oks])
    if roles_after not in cand_roles:
        return 'installed roles after the batch are those of no accepted message: %s' % roles_after, stats
    if not any_force:
        es = [m.epoch for m in oks]
        if len(set(es)) != len(es):
            return 'two non-forced messages with the same epoch were both accepted: %s' % es, stats
        if any(e <= e_pre for e in es):
            return 'a non-forced message with epoch <= installed epoch %d was accepted: %s' % (e_pre, es), stats
        hok_es = [m.epoch for m in thr if spec_msg_host_ok(host, m)]
        top = max([e_pre] + hok_es)
        if top > e_pre:
            winners = [m for m in oks if m.epoch == top]
            if len(winners) != 1:
                return 'the highest epoch %d of the batch was accepted %d times (must be exactly once)' % (top, len(winners)), stats
            if roles_after != spec_roles_of(winners[0]):
                return 'installed roles are not those of the accepted message with the highest epoch %d' % top, stats
        elif oks:
            return 'accepted although no epoch exceeds the installed one', stats
        # the suffix is delivered sequentially from a state whose installed epoch is `top`
        p, st = monitor_steps(host, suf, toks[3:], (0, '-', '-', top, roles_after, True))
        if p:
            return 'after the batch: ' + p, stats
    return None, stats


# ---------- generators ----------

FLAGS = ['NOFLAG'] * 12 + ['FORCE'] * 3 + ['force', 'Force', 'COMPRESS', 'FORCE,COMPRESS', 'compress,force', 'FORCED', 'FORCE ',
                                             ',FORCE', 'FORCE,', 'NOFORCE', 'F', '', 'FORC', 'xFORCE', 'COMPRESS,NOFLAG', 'noflag,fOrCe']
BIG = [2**32, 2**63 - 1, 2**63, 2**64 - 2, 2**64 - 1]


def bad_addrs(host):
    last = host.rsplit('.', 1)
    return ['127.0.0.3:7000', host + '1:7000', host, '', ':7000', host + 'x:7001', 'nocolon', host[:-1] + ':7000',
            ' ' + host + ':7000', '10.0.0.9:7001', last[0] + '.:7000']


def gen_msg(r, host, big=False):
    epoch = r.choice(BIG) + r.randint(-1, 0) if big and r.random() < 0.15 else r.randint(0, 12)
    epoch = max(0, min(epoch, 2**64 - 1))
    flags = r.choice(FLAGS)
    good = ['%s:%d' % (host, 7001 + i) for i in range(4)]
    if r.random() < 0.5:
        n = r.choice([0, 1, 1, 2, 2, 3])
        locs = [r.choice(good) for _ in range(n)]
        if r.random() < 0.18:
            locs.insert(r.randint(0, len(locs)), r.choice(bad_addrs(host)))
        ok_locs = [a for a in locs if spec_host_ok(host, a)]
        if ok_locs and r.random() < 0.75:
            route = r.choice(ok_locs)
        else:
            route = '127.0.0.9:%d' % (7000 + r.randint(0, 5))
        return C(epoch, flags, r.randint(1, 6), route, locs)
    def nodes(k):
        out = []
        for _ in range(k):
            a = r.choice(good) if r.random() > 0.07 else r.choice(bad_addrs(host))
            out.append((r.choice(['ca', 'cb']), a, r.randint(0, 3)))
        return out
    ms, rs = nodes(r.choice([0, 1, 1, 2, 3])), nodes(r.choice([0, 1, 1, 2, 3]))
    if ms and r.random() < 0.12:      # the ill-formed class: same node as master and replica
        c, a, _ = r.choice(ms)
        rs.append((c, a, r.randint(0, 3)))
    return R(epoch, flags, ms, rs)


def gen_seq(r, host, maxlen, big=False):
    msgs = []
    for _ in range(r.randint(1, maxlen)):
        if msgs and r.random() < 0.25:
            m = r.choice(msgs)                       # duplicate / stale replay
        else:
            m = gen_msg(r, host, big)
        msgs.append(m)
    return msgs


def corpus():
    h = H_DEFAULT
    a1, a2 = h + ':7001', h + ':7002'
    out = []
    # equal, lower, higher epochs, forced lower, wrong host variants, compress flag, empty local
    out.append((h, [C(5, 'NOFLAG', 1, a1, [a1, a2]), C(5, 'NOFLAG', 2, a2, [a1, a2]), C(4, 'NOFLAG', 2, a2, [a1]),
                    C(4, 'FORCE', 3, '127.0.0.9:7000', [a1]), C(9, 'NOFLAG', 4, '127.0.0.2:7000', ['127.0.0.2:7000']),
                    C(9, 'COMPRESS', 5, a1, [a1]), C(10, 'x', 6, '127.0.0.9:7000', []), C(0, 'NOFLAG', 1, a1, [a1]),
                    C(2**64 - 1, 'NOFLAG', 2, a1, [a1]), C(2**64 - 1, 'NOFLAG', 3, a2, [a2]), C(1, 'force', 3, a2, [a2])]))
    out.append((h, [R(3, 'NOFLAG', [('ca', a1, 1)], [('ca', a2, 2)]), R(3, 'NOFLAG', [('ca', a1, 1)], []),
                    R(2, 'NOFLAG', [], []), R(2, 'FORCE', [('cb', a1, 0)], []), R(7, 'NOFLAG', [('ca', 'nocolon', 1)], []),
                    R(7, 'FORCE', [('ca', a1, 1)], [('ca', '127.0.0.3:7000', 1)]), R(3, 'NOFLAG', [], [('ca', a2, 3)])]))
    # the ill-formed class (C05_roles_ill_formed_witness): the same message on a proxy running the master and on a fresh one
    ill = R(2, 'NOFLAG', [('c', a1, 1)], [('c', a1, 2)])
    out.append((h, [R(1, 'NOFLAG', [('c', a1, 1)], []), ill]))
    out.append((h, [ill]))
    # interleaved kinds keep separate epochs
    out.append((h, [C(5, 'NOFLAG', 1, a1, [a1]), R(5, 'NOFLAG', [('ca', a1, 0)], []), R(5, 'NOFLAG', [('ca', a2, 0)], []),
                    C(5, 'NOFLAG', 2, a2, [a2]), R(6, 'NOFLAG', [('ca', a2, 0)], []), C(6, 'NOFLAG', 2, a2, [a2])]))
    # the messages of C05_forced_not_linearizable, delivered sequentially
    out.append((h, [R(10, 'NOFLAG', [('c', a1, 0)], []), R(20, 'N', [('c', a1, 1)], []), R(15, 'N', [('c', a1, 2)], []),
                    R(3, 'FORCE', [('c', a1, 3)], []), R(10, 'N', [('c', a1, 4)], [])]))
    # other announce hosts; a host that is a prefix of the node host
    out.append(('10.9.8.7', [C(1, 'NOFLAG', 1, '10.9.8.7:7001', ['10.9.8.7:7001']), C(2, 'NOFLAG', 2, '10.9.8.70:7001', ['10.9.8.70:7001']),
                             R(1, 'NOFLAG', [('ca', '10.9.8.7:7001', 0)], []), R(2, 'NOFLAG', [('ca', '10.9.8.7', 0)], [])]))
    return out


def gen_conc(r, host, nodes_per_msg):
    good = ['%s:%d' % (host, 7001 + i) for i in range(nodes_per_msg)]
    def msg(epoch, flags, tag, bad=False):
        ms = [('ca', a, tag) for a in good[:max(1, nodes_per_msg // 2)]]
        rs = [('cb', a, tag) for a in good[nodes_per_msg // 2:]]
        if bad:
            ms.append(('ca', '127.0.0.3:7000', tag))
        return R(epoch, flags, ms, rs)
    e_pre = r.randint(0, 10)
    pre = [msg(e_pre, 'NOFLAG', 1)] if e_pre else []
    style = r.random()
    thr = []
    for t in range(4):
        if style < 0.45:       # no force, close epochs incl. equal ones
            e, f = r.randint(max(0, e_pre - 2), e_pre + 4), 'NOFLAG'
        elif style < 0.8:      # one forced lower-epoch message among non-forced ones
            e, f = (r.randint(0, e_pre + 1), 'FORCE') if t == 3 else (r.randint(e_pre, e_pre + 5), 'NOFLAG')
        else:
            e, f = r.randint(0, e_pre + 5), r.choice(['NOFLAG', 'NOFLAG', 'FORCE'])
        thr.append(msg(e, f, 2 + t, bad=(r.random() < 0.06)))
    r.shuffle(thr)
    top = max([e_pre] + [m.epoch for m in thr if spec_msg_host_ok(host, m)])
    probe = lambda e, tag: R(e, 'NOFLAG', [('cp', good[0], tag)], [])
    if any(spec_force(m.flags) for m in thr):
        lo = min(m.epoch for m in thr)
        suf = [probe(lo, 1), probe(r.randint(lo, top), 2), probe(top, 3), probe(top + 1, 4), probe(top + 1, 5)]
    else:
        suf = [probe(top, 1), probe(top + 1, 2), probe(top + 1, 3)]
    return pre, thr, suf


def gen_conc_cluster(r, host):
    good = ['%s:%d' % (host, 7001 + i) for i in range(3)]
    e_pre = r.randint(0, 8)
    pre = [C(e_pre, 'NOFLAG', 1, good[0], [good[0]])] if e_pre else []
    thr = []
    for t in range(4):
        f = 'FORCE' if r.random() < 0.2 else 'NOFLAG'
        locs = [good[t % 3]] + ([r.choice(bad_addrs(host))] if r.random() < 0.08 else [])
        thr.append(C(r.randint(max(0, e_pre - 1), e_pre + 3), f, 2 + t, good[t % 3], locs))
    # a message refused for its host: delivers nothing, lets the harness observe epoch / cluster / routing
    suf = [C(99, 'FORCE', 9, good[0], ['127.0.0.3:7000'])]
    return pre, thr, suf


def monitor_conc_cluster(host, pre, thr, suf, out):
    """set_meta holds a mutex over compare+install: the observed replies and final state must be those of delivering the
    four messages one at a time in SOME order."""
    import itertools
    toks = out.split()
    if len(toks) != 3 + len(suf) or toks[0] != 'conc':
        return 'malformed output %r' % out[:200]
    replies = toks[1].split(',')
    final = Obs(toks[3])
    if not final.ok or final.reply != 'notmine':
        return 'malformed observation %r' % toks[3]
    st0 = (0, '-', '-')
    for m in pre:
        if spec_msg_host_ok(host, m) and (spec_force(m.flags) or m.epoch > st0[0]):
            st0 = (m.epoch, str(m.content), hx(m.route))
    for perm in itertools.permutations(range(len(thr))):
        st = st0
        reps = [None] * len(thr)
        for i in perm:
            m = thr[i]
            if not spec_msg_host_ok(host, m): reps[i] = 'notmine'
            elif spec_force(m.flags) or m.epoch > st[0]:
                reps[i] = 'ok'; st = (m.epoch, str(m.content), hx(m.route))
            else: reps[i] = 'old'
        if reps == replies and (str(st[0]), st[1], st[2]) == (final.epoch, final.content, final.route):
            return None
    return 'replies %s with final (epoch %s, cluster %s, route %s) are not those of any one-at-a-time order of the four SETCLUSTER' % (
        toks[1], final.epoch, final.content, final.route)


def run(chk):
    ok = vlib.standard_proof_phase(chk, TRUSTED, 'epoch')
    chk.cov['rule'] = ('case = one proxy + a SETCLUSTER/SETREPL sequence (equal/lower/higher epochs, flag variants, wrong hosts, '
                       'duplicates, stale replays, interleaved kinds) or one concurrent batch of 4 SETREPL; non-trivial = distinct case '
                       'with at least one accepted and one rejected (OLD_EPOCH or NOT_MY_META) message')
    if not ok:
        return
    r = chk.rng
    quick = chk.tier == 'quick'
    seqs = corpus()
    nseq = 700 if quick else 12000
    hosts = [H_DEFAULT] * 6 + ['127.0.0.2', '10.9.8.7']
    for i in range(nseq):
        h = r.choice(hosts)
        seqs.append((h, gen_seq(r, h, 14 if quick else 40, big=(i % 5 == 0))))
    cases = [seq_line(h, ms) for h, ms in seqs]
    rc1, impl = chk.run_impl('epoch', cases, jobs=8)
    rc2, model = chk.run_model('epoch', cases, jobs=8)
    hist = {'messages': 0, 'accepted': 0, 'old': 0, 'notmine': 0, 'forced_down': 0, 'ill_formed_accepted': 0, 'len': {}}
    disagreements, nfail = [], 0
    for i, ((h, ms), c) in enumerate(zip(seqs, cases)):
        o = impl[i] if i < len(impl) else '<no output>'
        m = model[i] if i < len(model) else '<no output>'
        bad, st = monitor_seq(h, ms, o)
        hist['messages'] += len(ms)
        hist['len'][len(ms) // 5 * 5] = hist['len'].get(len(ms) // 5 * 5, 0) + 1
        for k in ('accepted', 'old', 'notmine', 'forced_down', 'ill_formed_accepted'):
            hist[k] += st.get(k, 0)
        chk.count(c, st.get('accepted', 0) > 0 and (st.get('old', 0) + st.get('notmine', 0)) > 0)
        if bad:
            nfail += 1
            chk.violation({'kind': 'monitor', 'case': c, 'impl': o, 'model': m, 'what': bad})
        elif o != m:
            disagreements.append({'case': c, 'impl': o, 'model': m})
        if i % 211 == 0:
            chk.sample({'case': c[:300], 'impl': o[:300], 'model': m[:300]})
    # ---- concurrent batches ----
    nconc = 120 if quick else 2500
    concs = []
    for i in range(nconc):
        h = H_DEFAULT
        concs.append((h,) + gen_conc(r, h, r.choice([2, 4, 6, 8]) if quick or i % 10 else 30))
    ccases = [conc_line(h, pre, thr, suf) for h, pre, thr, suf in concs]
    rc3, cimpl = chk.run_impl('epoch', ccases, jobs=4)
    acc_cases, chist = [], {'batches': 0, 'with_force': 0, 'reply_vectors': {}, 'acceptor_rejects': 0}
    for i, ((h, pre, thr, suf), c) in enumerate(zip(concs, ccases)):
        o = cimpl[i] if i < len(cimpl) else '<no output>'
        bad, st = monitor_conc(h, pre, thr, suf, o)
        chist['batches'] += 1
        chist['with_force'] += 1 if st.get('any_force') else 0
        rv = o.split()[1] if len(o.split()) > 1 else '?'
        chist['reply_vectors'][rv] = chist['reply_vectors'].get(rv, 0) + 1
        chk.count(c, 'ok' in rv and 'old' in rv)
        if bad:
            nfail += 1
            chk.violation({'kind': 'monitor-concurrent', 'case': c, 'impl': o, 'what': bad})
        elif o.startswith('conc '):
            acc_cases.append((c, o, conc_line(h, pre, thr, suf, 'concobs') + ' OBS ' + o[len('conc '):]))
    # ---- concurrent SETCLUSTER batches: linearizable in some order (monitor only) ----
    ncc = 80 if quick else 1500
    ccl = [(H_DEFAULT,) + gen_conc_cluster(r, H_DEFAULT) for _ in range(ncc)]
    cclines = [conc_line(h, pre, thr, suf) for h, pre, thr, suf in ccl]
    _, ccout = chk.run_impl('epoch', cclines, jobs=4)
    chist['cluster_batches'] = ncc
    chist['cluster_reply_vectors'] = {}
    for i, ((h, pre, thr, suf), c) in enumerate(zip(ccl, cclines)):
        o = ccout[i] if i < len(ccout) else '<no output>'
        bad = monitor_conc_cluster(h, pre, thr, suf, o)
        rv = o.split()[1] if len(o.split()) > 1 else '?'
        chist['cluster_reply_vectors'][rv] = chist['cluster_reply_vectors'].get(rv, 0) + 1
        chk.count(c, 'ok' in rv and 'old' in rv)
        if bad:
            nfail += 1
            chk.violation({'kind': 'monitor-concurrent-cluster', 'case': c, 'impl': o, 'what': bad})
    rc4, verdicts = chk.run_model('epoch', [a for _, _, a in acc_cases], jobs=8)
    for k, (c, o, a) in enumerate(acc_cases):
        v = verdicts[k] if k < len(verdicts) else '<no output>'
        if not v.startswith('accept'):
            chist['acceptor_rejects'] += 1
            disagreements.append({'case': c, 'impl': o, 'model': 'thread model (exhaustive exploration): ' + v, 'replay_line': a})
    chk.cov['traces_validated_against_impl'] = len(cases) + len(acc_cases) - len(disagreements)
    chk.sub('distribution', sequences=len(cases), **hist)
    chk.sub('concurrent', threads=4, **chist)
    chk.sub('summary', monitor_failures=nfail, disagreements=len(disagreements))
    if disagreements and not nfail:
        chk.violation({'kind': 'correspondence', 'correspondence': 'Model/Epoch.v (apply_msg / tstep) vs proxy/manager.rs set_meta, replication/manager.rs update_replicators',
                       'first': disagreements[0], 'count': len(disagreements),
                       'search': 'the property monitors were evaluated on all %d sequences and %d concurrent batches incl. the disagreeing ones: no property failure'
                                 % (len(cases), len(ccases))}, no_input=True)


def _parse_case_back(line):
    """rebuild (host, msgs..) from a case line, for replay"""
    toks = line.split()
    pos = [1]
    def nxt():
        t = toks[pos[0]]; pos[0] += 1; return t
    def s(hexs): return '' if hexs == '-' else bytes.fromhex(hexs).decode()
    def msg():
        k = nxt()
        if k == 'C':
            e = int(nxt()); f = s(nxt()); c = int(nxt()); rt = s(nxt()); n = int(nxt())
            return C(e, f, c, rt, [s(nxt()) for _ in range(n)])
        e = int(nxt()); f = s(nxt())
        def nodes():
            n = int(nxt()); return [(s(nxt()), s(nxt()), int(nxt())) for _ in range(n)]
        ms = nodes(); rs = nodes()
        return R(e, f, ms, rs)
    def msgs():
        n = int(nxt()); return [msg() for _ in range(n)]
    host = s(nxt())
    if toks[0] == 'seq':
        return host, msgs()
    return host, msgs(), msgs(), msgs()


def replay(data):
    chk = vlib.Check('C05', 'quick', 0)
    c = data.get('case') or (data.get('first') or {}).get('case')
    if not c:
        print(data); return 0
    chk.build_impl('epoch')
    _, impl = chk.run_impl('epoch', [c])
    print('case :', c[:2000]); print('impl :', impl)
    if c.startswith('seq'):
        _, model = chk.run_model('epoch', [c])
        print('model:', model)
        h, ms = _parse_case_back(c)
        bad = monitor_seq(h, ms, impl[0])[0] if impl else 'no output'
    else:
        h, pre, thr, suf = _parse_case_back(c)
        if thr and thr[0].kind == 'C':
            bad = monitor_conc_cluster(h, pre, thr, suf, impl[0]) if impl else 'no output'
            print('monitor:', bad)
            return 1 if bad else 0
        bad = monitor_conc(h, pre, thr, suf, impl[0])[0] if impl else 'no output'
        if impl and impl[0].startswith('conc '):
            _, v = chk.run_model('epoch', [conc_line(h, pre, thr, suf, 'concobs') + ' OBS ' + impl[0][len('conc '):]])
            print('thread model as acceptor:', v)
    print('monitor:', bad)
    return 1 if bad else 0
