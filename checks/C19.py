"""C19 Migration preserves key expiry.
Proof: coq/Props/C19.v over Model/Ttl.v.  Correspondence: the real pttl_to_restore_expire_time and the three real
transfer paths (push = handle_sync_task, scan = the scan future, pull = RestoreDataCmdTaskHandler) against the
extracted model on the same PTTL / DUMP replies.  Monitor: the property itself evaluated on what the implementation sent."""
import vlib, re

MANIFEST = {
  'text': 'Theorems C19_persistent, C19_positive (all n in [0,2^63): RESTORE ttl parses as 0 < t <= max 1 n), C19_not_found_skipped, C19_paths about Model/Ttl.v, '
          'which mirrors pttl_to_restore_expire_time and the reply classification of the scan/push and pull paths; the model is tied to the code by running '
          'the real function and the three real transfer paths on the same PTTL/DUMP replies as the extracted model, and the property monitor is evaluated on what the real code sent.',
  'note': 'Coq kernel; closed under the global context; extraction (ExtrOcamlBasic) + OCaml driver; harness stand-ins for Redis; Redis RESTORE/PTTL semantics assumed. '
          'Partial: key expiry in real time during a migration is outside the model.',
  'technique': 'Coq proof over a hand-written model + differential correspondence check against the real code',
 }

TRUSTED = ['Coq 8.16.1 kernel (coqc; coqchk in the thorough tier); no axioms (Print Assumptions: closed)',
           'extraction with ExtrOcamlBasic only + ocaml/vio.ml, d_ttl.ml, driver.ml',
           'harness/src/ttl.rs: fake RedisClient / CmdTaskSender stand-ins answering PTTL, DUMP, EXISTS, SCAN, RESTORE, DEL',
           'Redis semantics assumed: PTTL replies are canonical decimals; RESTORE ttl 0 = persistent, ttl n>0 = expire in n ms',
           'textual pin: every call of pttl_to_restore_expire_time in /repo/src is one of the three modelled sites']


def dec(n):
    return str(n).encode()


def gen_values(chk):
    vals = [b'-2', b'-1', b'0', b'1', b'2', b'9', b'10', b'999', b'1000', str(2**31).encode(), str(2**63 - 1).encode(),
            str(2**63).encode(), str(-2**63).encode(), str(-2**63 - 1).encode(), b'', b'abc', b'+5', b'+0', b'-0', b'00', b'007',
            b'-', b'+', b'1 ', b' 1', b'1\r', b'-1 ', b'--1', b'1.5', b'1e3', b'\xff', b'18446744073709551616']
    n = 300 if chk.tier == 'quick' else 20000
    r = chk.rng
    for _ in range(n):
        k = r.random()
        if k < 0.6:
            bits = r.choice([1, 4, 8, 16, 31, 32, 33, 62, 63])
            vals.append(dec(r.getrandbits(bits)))
        elif k < 0.75:
            vals.append(dec(-r.getrandbits(r.choice([1, 8, 63, 64]))))
        elif k < 0.9:
            vals.append(bytes(r.choice(b'0123456789+- ax\r\n') for _ in range(r.randint(0, 6))))
        else:
            vals.append(dec(r.choice([2**63 - 1, 2**63, 2**62, 10**18, 10**19]) + r.randint(-3, 3)))
    return vals


def resp_int(b): return 'I ' + vlib.hexs(b)
def resp_bulk(b): return 'B ' + vlib.hexs(b)


def gen_cases(chk):
    vals = gen_values(chk)
    cases = ['ttl ' + vlib.hexs(v) for v in vals]
    # path cases: every boundary value on every path; scan path only gets replies it does not retry forever on
    pvals = vals[:40] if chk.tier == 'quick' else vals[:400]
    dumps = ['B 6462', 'BN', 'B -']
    odd = ['S 4f4b', 'E 457272', 'AN', 'A 0', 'BN', 'B 31']
    for v in pvals:
        for d in dumps:
            cases.append('push %s %s' % (resp_int(v), d))
            cases.append('pull %s %s' % (d, resp_int(v)))
    for v in pvals[:12]:
        for d in dumps:
            cases.append('scan %s %s' % (resp_int(v), d))
    for o in odd:
        for d in dumps + ['I 31', 'E 45']:
            cases.append('push %s %s' % (o, d))
            cases.append('pull %s %s' % (d, o))
    for d in ['I 31', 'E 45', 'S 4f', 'AN']:
        cases.append('push I 3530 %s' % d)
        cases.append('pull %s I 3530' % d)
    # several keys in one SCAN batch, each with its own replies: a key that vanishes between its PTTL and its DUMP (or the
    # other way round) must not shift the expiry of its neighbours
    r = chk.rng
    pool_p = ['I ' + vlib.hexs(x) for x in [b'-1', b'0', b'1', b'60000', b'-2', b'999999999', b'7']]
    pool_d = ['B 6161', 'BN', 'B -', 'B 626262']
    fixed = [['I 30', 'BN', 'I 2d31', 'B 6262', 'I 3630303030', 'B 6363'],
             ['I 2d32', 'B 61', 'I 37', 'B 62', 'I 2d31', 'B 63'],
             ['I 31', 'BN', 'I 2d32', 'B 61', 'I 2d31', 'B 62', 'I 35', 'B 63']]
    for f in fixed:
        cases.append('batch %d %s' % (len(f) // 2, ' '.join(f)))
    for _ in range(60 if chk.tier == 'quick' else 3000):
        n = r.randint(2, 6)
        toks = []
        for _ in range(n):
            toks += [r.choice(pool_p), r.choice(pool_d)]
        cases.append('batch %d %s' % (n, ' '.join(toks)))
    return cases


def canonical_pttl(case_tok):
    """Returns n when the PTTL payload is a canonical decimal Redis can reply for an existing key, else None."""
    if case_tok == '-': return None
    b = bytes.fromhex(case_tok)
    if re.fullmatch(rb'-1|0|[1-9][0-9]*', b):
        n = int(b)
        if n < 2**63: return n
    return None


def monitor(case, out):
    """The property on an implementation observation. Returns None if fine, else a description."""
    toks = case.split()
    kind = toks[0]
    if kind == 'ttl':
        n = canonical_pttl(toks[1])
        if n is None: return None
        got = out.split()
        if len(got) != 2 or got[0] != 'ttl': return 'malformed output %r' % out
        t = bytes.fromhex(got[1]) if got[1] != '-' else b''
        if not re.fullmatch(rb'[0-9]+', t): return 'RESTORE ttl %r is not a number' % t
        t = int(t)
        if n == -1:
            return None if t == 0 else 'persistent key restored with ttl %d' % t
        if not (0 < t <= max(1, n)): return 'key with PTTL %d restored with ttl %d (0 = persistent)' % (n, t)
        return None
    if kind == 'batch':
        # every RESTORE names a key k<i>; its ttl must be the one derived from THAT key's own PTTL reply, and only keys with a payload are sent
        n = int(toks[1]); pairs = []; i = 2
        for _ in range(n):
            p = toks[i:i + 2]; i += 2
            d = toks[i:i + 2] if toks[i] == 'B' else toks[i:i + 1]; i += len(d)
            pairs.append((p, d))
        for cmd in out.split(' | '):
            c = cmd.split()
            if not c or c[0] != 'cmd': continue
            key = bytes.fromhex(c[2]).decode()
            idx = int(key[1:])
            if idx >= n: return 'RESTORE for unknown key %s' % key
            p, d = pairs[idx]
            if d[0] != 'B': return 'RESTORE sent for key %s whose DUMP was nil' % key
            if p[1] == b'-2'.hex(): return 'RESTORE sent for key %s reported missing (PTTL -2)' % key
            if (c[4] if len(c) > 4 else '-') != (d[1] if len(d) > 1 else '-'): return 'RESTORE for key %s carries another key\'s payload' % key
            pn = canonical_pttl(p[1])
            if pn is None: continue
            t = bytes.fromhex(c[3]) if c[3] != '-' else b''
            if not re.fullmatch(rb'[0-9]+', t): return 'RESTORE ttl %r is not a number' % t
            t = int(t)
            if pn == -1 and t != 0: return 'persistent key %s restored with ttl %d' % (key, t)
            if pn >= 0 and not (0 < t <= max(1, pn)): return 'key %s with PTTL %d restored with ttl %d (0 = persistent)' % (key, pn, t)
        return None
    # path cases: find the PTTL payload and check the RESTORE the implementation sent
    if kind in ('push', 'scan'): pr = toks[1:3]
    else: pr = toks[-2:] if toks[-2] == 'I' else None
    if not pr or pr[0] != 'I': return None
    n = canonical_pttl(pr[1])
    for cmd in out.split(' | '):
        c = cmd.split()
        if c and c[0] == 'cmd':
            if pr[1] == b'-2'.hex(): return 'RESTORE sent for a key reported missing (PTTL -2)'
            if n is None: continue
            t = bytes.fromhex(c[3]) if c[3] != '-' else b''
            if not re.fullmatch(rb'[0-9]+', t): return 'RESTORE ttl %r is not a number' % t
            t = int(t)
            if n == -1 and t != 0: return 'persistent key restored with ttl %d' % t
            if n >= 0 and not (0 < t <= max(1, n)): return 'key with PTTL %d restored with ttl %d (0 = persistent)' % (n, t)
    return None


def pin_sites():
    """every call site of the expiry function is one of the modelled ones"""
    import subprocess
    out = subprocess.run(['grep', '-rn', 'pttl_to_restore_expire_time(', '/repo/src'], stdout=subprocess.PIPE, text=True).stdout
    sites = sorted(set(l.split(':')[0].replace('/repo/', '') for l in out.strip().split('\n') if l and 'pub fn' not in l))
    return sites


def run(chk):
    ok = vlib.standard_proof_phase(chk, TRUSTED, 'ttl')
    chk.cov['rule'] = ('cases = PTTL payloads (boundary set + seeded random decimals/garbage) through the real function, and '
                       '(PTTL reply, DUMP reply) pairs through the three real paths; non-trivial = distinct case whose PTTL payload is a '
                       'canonical decimal (the monitor constrains the outcome) or whose reply shapes select a distinct branch')
    if not ok:
        return
    sites = pin_sites()
    chk.sub('call_sites', sites=sites)
    if sites != ['src/migration/scan_migration.rs', 'src/proxy/migration_backend.rs']:
        chk.violation({'kind': 'correspondence', 'correspondence': 'call sites of pttl_to_restore_expire_time', 'observed': sites,
                       'modelled': ['src/migration/scan_migration.rs (forward_entries)', 'src/proxy/migration_backend.rs (gen_restore_resp)']}, no_input=True)
    cases = gen_cases(chk)
    rc1, impl = chk.run_impl('ttl', cases)
    rc2, model = chk.run_model('ttl', cases)
    hist = {}
    nfail = 0
    disagreements = []
    for i, c in enumerate(cases):
        kind = c.split()[0]
        hist[kind] = hist.get(kind, 0) + 1
        o = impl[i] if i < len(impl) else '<no output>'
        m = model[i] if i < len(model) else '<no output>'
        chk.count(c, True)
        bad = monitor(c, o)
        if bad:
            nfail += 1
            chk.violation({'kind': 'monitor', 'case': c, 'impl': o, 'model': m, 'what': bad})
        elif o != m:
            disagreements.append({'case': c, 'impl': o, 'model': m})
        if i % 97 == 0: chk.sample({'case': c, 'impl': o, 'model': m})
    chk.cov['traces_validated_against_impl'] = len(cases) - len(disagreements)
    chk.sub('distribution', kinds=hist, monitor_failures=nfail, disagreements=len(disagreements))
    if disagreements and not nfail:
        chk.violation({'kind': 'correspondence', 'correspondence': 'Model/Ttl.v vs scan_migration.rs / migration_backend.rs',
                       'first': disagreements[0], 'count': len(disagreements),
                       'search': 'monitor evaluated on all %d implementation outputs incl. the disagreeing ones: no property failure' % len(cases)},
                      no_input=True)


def replay(data):
    chk = vlib.Check('C19', 'quick', 0)
    c = data.get('case') or (data.get('first') or {}).get('case')
    if not c:
        print(data); return 0
    chk.build_impl('ttl')
    _, impl = chk.run_impl('ttl', [c]); _, model = chk.run_model('ttl', [c])
    print('case :', c); print('impl :', impl); print('model:', model); print('monitor:', monitor(c, impl[0]) if impl else None)
    return 1 if (impl and monitor(c, impl[0])) else 0
