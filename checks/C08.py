"""C08 Every request gets exactly one reply, in order, from its own backend exchange.
Proof: coq/Props/C08.v over Model/Pipe.v (handle_backend / handle_conn / handle_conn_err / the senders / the session FIFO).
Correspondence: harness/pipe drives the real RoundRobinSenderGroup -> ReqAdaptorSender -> RecoverableBackendNode ->
BackendNode -> handle_backend -> handle_conn stack (and, in session mode, the real handle_session over loopback TCP) against
scripted fake backends behind RespCodec-framed duplex pipes; the trace observed at the sink/stream interface of every
connection is replayed through the extracted model (ACCEPTOR, DESIGN.md 3.2: real tokio poll order is not controlled), which
must accept it and predict the completion every request id got.  Monitors: the property itself on what the real code did."""
import vlib, re, os, json

MANIFEST = {
  'text': 'Theorems about Model/Pipe.v (a state machine at the poll granularity of handle_conn, both for the code as found and for the '
          'repaired code): C08_exactly_once (every accepted event sequence, unique ids: no double completion, and at quiescence exactly one '
          'completion per submitted task), C08_own_exchange (under the hypothesis that the backend answers each written request once, in order, '
          'per connection: a reply-completion (t, r) has r = answer t, r is the k-th reply read on the last connection t was written on, where t was '
          'the k-th request written; the InvalidState branches are unreachable), C08_client_order (session FIFO: replies leave in request order '
          'for every resolution order), C08_failure_is_error (repaired code: a pending task has been in at most MAX_BACKEND_RETRY failed connections; '
          'after MAX_BACKEND_RETRY+1 it has an error completion), C08_connect_failure_is_error, C08_multi_fanout, and the refutation '
          'C08_failure_is_error_refuted_as_found (code as found: for every n a task pending after n+1 failed connections with no completion - '
          'candidate defect 12, repaired by work/fix_C08.diff). The model is tied to the code by replaying, through the extracted model, the '
          'per-connection traces observed while the real sender/backend/session stack runs against scripted fake backends; the model must accept '
          'each trace and predict every request id\'s completion; monitors (exactly-once, id/position matching, error-not-silence within a bounded '
          'wait, client order) are evaluated on the implementation\'s observations.',
  'note': 'Proof of the matching logic; PARTIAL for poll order, timers and real sockets: the model is an ACCEPTOR of observed traces (events '
          'sub/arr are inferred by the harness from a single-threaded runtime, Timeout/SenderClosed are inferred from a connection being dropped '
          'without a terminal event), batching strategies only change when flushes happen (not modelled: the backend hypothesis is stated on '
          'written requests), backend_timeout and the 1 s reconnect pause are events chosen by the environment. The backend hypothesis '
          '(one reply per request, in order, per connection) is an explicit premise (backend_ok) and is what the fake backend implements. '
          'Connections are tokio::io::duplex pipes framed by the real RespCodec, not TCP sockets; the client side of session mode is real loopback TCP. '
          'Non-idempotent commands are re-sent on retry (outside the property text). Coq kernel, closed under the global context.',
  'technique': 'Coq proof over a hand-written model (invariants by induction over event sequences) + trace-acceptor correspondence check against the real code',
 }

TRUSTED = ['Coq 8.16.1 kernel (coqc; coqchk in the thorough tier); no axioms (Print Assumptions: closed)',
           'extraction with ExtrOcamlBasic only + ocaml/vio.ml, d_pipe.ml (token -> event translation incl. the drop => Timeout/SenderClosed inference), driver_lib.ml',
           'harness/pipe/src/dom.rs: scripted ConnFactory over tokio::io::duplex + real RespCodec framing (copy of backend.rs create_conn), logging sink/stream wrappers, '
           'fake backend (ECHO id -> id*100000+connno), inference of Arrive events from a current-thread runtime',
           'backend hypothesis: a backend answers every request exactly once, in order, on the connection it was written on',
           'tokio / tokio-util Framed semantics (a decode or io error is yielded once, then the stream ends)']

MAXR = 3


# ---------------------------------------------------------------------------------------------------------- generation
def conn_spec(r, nreq, allow_slow=True):
    k = r.random()
    opts = []
    if k < 0.30:
        pass                                             # healthy
    elif k < 0.50:
        opts.append('x%d' % r.randint(0, nreq))
    elif k < 0.65:
        opts.append('p%d.%d' % (r.randint(1, max(1, nreq)), r.randint(0, 12)))
    elif k < 0.73:
        opts.append('g%d' % r.randint(1, max(1, nreq)))
    elif k < 0.80:
        opts.append('w%d' % r.randint(1, max(1, nreq)))
    else:
        opts.append('x%d' % r.randint(0, nreq))
        opts.append('d%d' % r.randint(1, 6))
    if r.random() < 0.4: opts.append('f%d' % r.randint(1, 7))
    if r.random() < 0.15: opts.append('l%d' % r.randint(1, 3))
    if r.random() < 0.15: opts.append('b%d' % r.choice([8, 16, 33, 64]))
    if r.random() < 0.15: opts.append('q%d' % r.randint(0, 3))
    return ','.join(['c'] + opts)


def gen_random(chk, n):
    r = chk.rng
    cases = []
    for i in range(n):
        strat = r.choice('dfy')
        nconn = r.choice([1, 1, 2, 3])
        mode = 's' if r.random() < 0.2 else 'c'
        nreq = r.randint(1, 8)
        timeout, wait = 5000, 8000
        flush = r.choice([1, 64, 1024])
        script = []
        ids = list(range(1, nreq + 1))
        if mode == 's' and r.random() < 0.6: script.append('F%d' % r.randint(1, 40))
        if r.random() < 0.08: script.append('P%d' % r.choice([3000, 9000]))
        j = 0
        while j < len(ids):
            if mode == 'c' and r.random() < 0.2 and j + 1 < len(ids):
                k = r.randint(2, min(3, len(ids) - j))
                script.append('m' + ','.join(str(x) for x in ids[j:j + k])); j += k
            else:
                script.append('s%d' % ids[j]); j += 1
            q = r.random()
            if q < 0.25: script.append('y')
            elif q < 0.35: script.append('z%d' % r.randint(1, 4))
        nodes = []
        stall = False
        for _ in range(nconn):
            specs = []
            kind = r.random()
            if kind < 0.03:
                specs.append('R')
            elif kind < 0.08 and not stall:
                specs.append('c,s%d' % r.randint(0, nreq)); stall = True
            else:
                for _ in range(r.randint(0, 4)):
                    specs.append(conn_spec(r, nreq))
                    if r.random() < 0.04: specs.append('R')
                if specs and r.random() < 0.15 and ('x' in specs[-1] or 'p' in specs[-1] or 'g' in specs[-1]):
                    specs[-1] += '*'
            nodes.append(' '.join(specs))
        if stall: timeout = r.choice([60, 90])
        cases.append('pipe %s %d %s %d %d %d %s / %s' % (strat, nconn, mode, timeout, wait, flush, ' '.join(script), ' / '.join(nodes)))
    return cases


def gen_break_positions(maxn, strategies):
    """every break position for pipelines of 1..maxn requests: close after reading k, mid-reply j at two byte offsets, garbage at j,
       each followed by a healthy connection; plus the same break repeated on every connection (retries exhausted)"""
    cases = []
    for strat in strategies:
        for n in range(1, maxn + 1):
            script = ' '.join('s%d' % i for i in range(1, n + 1))
            specs = ['c,x%d' % k for k in range(0, n + 1)] + ['c,x%d,d3' % k for k in range(0, n + 1)]
            for j in range(1, n + 1):
                specs += ['c,p%d.0' % j, 'c,p%d.5' % j, 'c,g%d' % j, 'c,w%d' % j]
            for sp in specs:
                cases.append('pipe %s 1 c 5000 8000 1024 %s / %s' % (strat, script, sp))
            for k in range(0, n + 1):
                cases.append('pipe %s 1 c 5000 8000 1024 %s / c,x%d,d3*' % (strat, script, k))
    return cases


def gen_backpressure(strategies, maxn=6):
    """write-side back pressure while requests are still waiting to be written: the sink reports Pending once after k accepted
       packets (k = 0..3) with a pipeline of 3..maxn requests arriving in one poll, and real back pressure: payloads above the
       8 KB boundary of the framed write buffer into a tiny duplex pipe.  A Pending from poll_ready must leave the queue untouched."""
    cases = []
    for strat in strategies:
        for n in range(3, maxn + 1):
            script = ' '.join('s%d' % i for i in range(1, n + 1))
            for k in range(0, 4):
                cases.append('pipe %s 1 c 5000 8000 1024 %s / c,q%d' % (strat, script, k))
            cases.append('pipe %s 1 c 5000 8000 1024 %s / c,q1,f3' % (strat, script))
            cases.append('pipe %s 1 c 5000 8000 1024 s1 m2,3,4 %s / c,q2' % (strat, ' '.join('s%d' % i for i in range(5, n + 3))))
            cases.append('pipe %s 1 c 5000 8000 1024 %s / c,x2,q1 c,q1' % (strat, script))
            for pad, buf in ((9000, 64), (5000, 128), (9000, 4096)):
                cases.append('pipe %s 1 c 5000 8000 1024 P%d %s / c,b%d' % (strat, pad, script, buf))
        cases.append('pipe %s 2 c 5000 8000 64 P9000 s1 s2 s3 s4 s5 s6 s7 s8 / c,b64 / c,b128,q1' % strat)
        cases.append('pipe %s 1 s 5000 8000 1024 P9000 F4096 s1 s2 s3 s4 s5 / c,b64' % strat)
        cases.append('pipe %s 1 s 5000 8000 1024 s1 s2 s3 s4 s5 / c,q1' % strat)
    return cases


def gen_session_depth(strategies='dfy', depths=(1, 63, 64, 65, 100, 200, 1000)):
    """session mode (real handle_session over loopback TCP, session_timeout = None): pipelines of the given depths written in ONE
       client write (and split at a few boundaries with W), made of (a) requests the command handler answers itself at once
       (L = reply, E = locally generated error; they stand for PING / ECHO / CLUSTER KEYSLOT / unknown command / cluster-not-found),
       (b) backend-forwarded requests, (c) mixtures: alternating, and a block of 64 local ones followed by forwarded ones.
       The client then sends a sentinel request and reads until its reply (load-independent wait, 60 s cap)."""
    cases = []
    k = 0
    for n in depths:
        ids = list(range(1, n + 1))
        kinds = {
            'a': ['%s%d' % ('E' if i % 7 == 0 else 'L', i) for i in ids],
            'b': ['s%d' % i for i in ids],
            'c1': ['%s%d' % ('L' if i % 2 else 's', i) for i in ids],
            'c2': ['%s%d' % ('L' if i <= 64 else 's', i) for i in ids],
        }
        for kind, toks in kinds.items():
            if kind == 'c2' and n <= 64: continue
            variants = [toks]
            if n >= 63:
                sp = list(toks)
                for pos in sorted({10, 64, 65, n - 1}, reverse=True):
                    if 0 < pos < n: sp.insert(pos, 'W')
                variants.append(sp)
            for v in variants:
                strat = strategies[k % len(strategies)]; k += 1
                nodes = 'c' if kind == 'a' else ('c / c,l1' if k % 2 else 'c')
                nconn = 2 if ' / ' in nodes else 1
                cases.append('pipe %s %d s 5000 8000 1024 %s / %s' % (strat, nconn, ' '.join(v), nodes))
    return cases


def gen_long_pipelines(strategies):
    """client pipelines longer than the session's batch buffer (SESSION_BATCH_BUF = 64) so that more than 64 replies are
       outstanding at once: written in one piece, in fragments, and with a backend that answers slowly / breaks once"""
    cases = []
    for strat, n in zip(strategies, (100, 130, 200)):
        script = ' '.join('s%d' % i for i in range(1, n + 1))
        cases.append('pipe %s 1 s 5000 8000 1024 %s / c,l1' % (strat, script))
        cases.append('pipe %s 2 s 5000 8000 1024 F97 %s / c / c,x40,d2' % (strat, script))
        # the whole burst is answered without a backend round trip (node marked failed: every send is refused at once), so
        # every outstanding reply is ready in the very poll that parsed the burst
        rest = ' '.join('s%d' % i for i in range(2, n + 2))
        cases.append('pipe %s 1 s 5000 8000 1024 s1 z60 %s / R*' % (strat, rest))
        cases.append('pipe %s 1 s 5000 8000 1024 s1 z60 F1500 %s / R*' % (strat, rest))
    return cases


CORPUS = [
    # candidate defect 12: accept, let a poll pass, break - every time.  As found: retried for ever, never answered.
    'pipe d 1 c 3000 6000 1024 s1 / c,x1,d5*',
    'pipe f 1 c 3000 6000 1024 s1 s2 / c,x1,d5*',
    'pipe y 1 c 3000 6000 1024 s1 / c,x0,d2*',
    'pipe d 1 c 3000 6000 1024 s1 s2 s3 / c,x0 c,x0 c,x0 c,x0 c,x0',
    'pipe d 1 c 3000 6000 1024 s1 s2 s3 / c,x0 c,x0 c,x0',
    # partial read then break: the unanswered tasks are re-sent and matched on the next connection
    'pipe d 1 c 3000 6000 1024 s1 s2 s3 s4 / c,x3,f2',
    'pipe f 1 c 3000 6000 1024 s1 s2 y s3 / c,x2',
    'pipe d 2 c 3000 6000 1024 s1 m2,3 s4 s5 / c,p1.3 / c,g2',
    'pipe y 3 c 3000 6000 64 s1 s2 s3 s4 s5 s6 s7 / c,x1 / c,p1.6,f1 / c,b8,f3',
    # backend_timeout, connect refused (failed window, refused sends, reconnect), senders dropped
    'pipe d 1 c 100 2000 1024 s1 s2 / c,s1',
    'pipe d 1 c 5000 8000 1024 s1 z20 s2 z1100 s3 / R',
    'pipe d 1 c 5000 8000 1024 s1 z5 m2,3 z1100 s4 / R R',
    'pipe d 1 c 5000 8000 1024 s1 s2 / c,x1 R',
    'pipe f 1 c 5000 8000 1024 s1 s2 s3 y s4 / c,p2.4,d2 R c',
    'pipe d 1 c 3000 6000 1024 s1 / c,w1*',
    'pipe d 1 c 3000 6000 1024 s1 s2 / c,w2 c,w1 c,x1',
    'pipe d 1 c 3000 4000 1024 s1 s2 y close / c,s0',
    'pipe f 1 c 3000 4000 1024 s1 s2 z3 close / c,l50',
    # session mode: fragmented client pipeline, reply order
    'pipe d 1 s 3000 6000 1024 F7 s1 s2 s3 s4 / c,x3,f2',
    'pipe f 2 s 3000 6000 1024 F3 s1 s2 s3 s4 s5 s6 / c,l3 / c',
    'pipe d 2 s 3000 6000 1024 s1 s2 s3 s4 / c,x1,d4* / c',
    # ReqTask::set_result
    'fan 1,2,3 multi3', 'fan 1,2,3 multi2', 'fan 1,2 multi3', 'fan 1,2 err', 'fan 1,2 single', 'fan - multi0', 'fan 1 multi1',
]


# ------------------------------------------------------------------------------------------------------------ monitors
def parse_impl(out):
    """-> (events per node {node: [ev..]}, completions {id: outcome}, client list or None, session events)"""
    if not out.startswith('trace'):
        return None
    head, _, tail = out.partition(' # ')
    evs = {}
    sess = []
    for tok in head.split()[1:]:
        node, _, ev = tok.partition(':')
        if node == '9': sess.append(ev)
        else: evs.setdefault(int(node), []).append(ev)
    client = None
    if ' client' in ' ' + tail:
        tail, _, c = (' ' + tail).partition(' client')
        client = c.split()
    comp = {}
    for tok in tail.split():
        i, _, o = tok.partition('=')
        comp[int(i)] = o
    return evs, comp, client, sess


def conn_tables(evs):
    """per node: list of connections, each (writes [id..], items [('rp', r) | ('rerr', kind)])"""
    res = {}
    for node, l in evs.items():
        conns = []
        for ev in l:
            if ev == 'cok': conns.append(([], []))
            elif not conns: continue
            elif re.fullmatch(r'w\d+', ev): conns[-1][0].append(int(ev[1:]))
            elif ev.startswith('rp'): conns[-1][1].append(('rp', ev[2:]))
            elif ev.startswith('rerr:'): conns[-1][1].append(('rerr', ev[5:]))
        res[node] = conns
    return res


def monitor(case, out):
    """The property on an implementation observation. Returns None if fine, else a description."""
    toks = case.split()
    if toks[0] == 'fan':
        ids = [] if toks[1] == '-' else [int(x) for x in toks[1].split(',')]
        got = out.split()[1:]
        if [int(g.split('=')[0]) for g in got] != ids:
            return 'fan-out did not give every sub-task exactly one result in order: %r' % out
        if any(g.endswith('=silent') for g in got): return 'a sub-task of a Multi task got no result'
        return None
    p = parse_impl(out)
    if p is None:
        return 'harness failure: %s' % out[:200]
    evs, comp, client, sess = p
    script = toks[7:toks.index('/')] if '/' in toks else toks[7:]
    ids, local = [], set()
    for t in script:
        if t.startswith('s') and t[1:].isdigit(): ids.append(int(t[1:]))
        elif t[0] in 'LE' and t[1:].isdigit(): ids.append(int(t[1:])); local.add(int(t[1:]))
        elif t.startswith('m'): ids += [int(x) for x in t[1:].split(',')]
    # exactly once: every submitted id has one entry; silence is the absence of a completion within the bounded wait
    if sorted(comp) != sorted(ids):
        return 'completions %r do not cover the submitted ids %r exactly once' % (sorted(comp), sorted(ids))
    tables = conn_tables(evs)
    truncated = any('truncated' in l for l in evs.values())   # harness log cap reached: the trace is a prefix only
    for i, o in sorted(comp.items()):
        if o == 'silent':
            nfail = sum(1 for conns in tables.values() for (w, _) in conns if i in w)
            bound = 'until the client stopped reading (sentinel reply, EOF or the 60 s cap)' if toks[3] == 's' else 'within %s ms' % toks[5]
            return 'request %d got no reply and no error %s (its request was written on %d connections; MAX_BACKEND_RETRY+1 = %d)' % (
                i, bound, nfail, MAXR + 1)
        if o.startswith('rep'):
            r = o[3:]
            if not r.isdigit() or int(r) // 100000 != i:
                return 'request %d received the reply %s elicited by another request' % (i, r)
            if i in local:
                # answered by the session's command handler itself: payload id*100000 (reply) or id*100000+99999 (local error)
                if int(r) % 100000 not in (0, 99999): return 'locally answered request %d got the backend reply %s' % (i, r)
                continue
            if truncated: continue
            c = int(r) % 100000
            # own exchange: r was read at position k of connection c of some node, where request i was the k-th written, and c is the last connection i was written on
            ok = False
            for node, conns in tables.items():
                where = [ci + 1 for ci, (w, _) in enumerate(conns) if i in w]
                if not where: continue
                if where[-1] != c:
                    return 'request %d: reply %s comes from connection %d but the request was last written on connection %d' % (i, r, c, where[-1])
                w, items = conns[c - 1]
                k = w.index(i)
                if k < len(items) and items[k] == ('rp', r): ok = True
            if not ok:
                return 'request %d: reply %s is not the reply read at the position its request was written at' % (i, r)
    if client is not None:
        # client order: the i-th reply on the client connection belongs to the i-th request
        if len(client) != len(ids):
            return 'client sent %d requests and read %d replies' % (len(ids), len(client))
        for pos, (i, o) in enumerate(zip(ids, client)):
            if o.startswith('rep'):
                if not o[3:].isdigit() or int(o[3:]) // 100000 != i:
                    return 'client reply %d is %s, not the reply of request %d (order broken)' % (pos + 1, o, i)
            if o != comp[i]:
                return 'client reply %d is %s but request %d completed with %s' % (pos + 1, o, i, comp[i])
    return None


def nontrivial(case, out):
    """a case exercises the matching logic when some connection ended with requests in flight or a connect failed"""
    return any(x in out for x in (':closed', ':werr', ':rerr', ':cfail', ':drop')) or case.startswith('fan') or ',q' in case or ' P' in case


def model_case(case, out, hoisted=1):
    t = case.split()
    if t[0] == 'pipe':
        return 'acc %d %s %s' % (hoisted, t[2], out)
    return case


def tail(line):
    return line.partition(' # ')[2] if ' # ' in line else line


def run(chk):
    ok = vlib.standard_proof_phase(chk, TRUSTED, 'pipe')
    chk.cov['rule'] = ('case = (batching strategy, 1..3 backend nodes, request script with simple/Multi tasks, yields and sleeps, per-node list of scripted '
                       'connections: close after k requests, mid-reply break at a byte offset, non-RESP bytes, stall, refuse, injected write error, reply '
                       'fragmentation, latency, tiny pipe buffers, write-side back pressure: a scripted Pending from the sink\'s poll_ready and > 8 KB payloads into tiny pipes) through the real sender/backend stack (mode c) or the real handle_session over loopback TCP '
                       '(mode s); non-trivial = distinct case in which at least one connection ended with an error/EOF/timeout or a connect was refused '
                       '(so retry / cancel / error paths ran), or the sink applied back pressure (q / P options), or a ReqTask::set_result fan-out case')
    if not ok:
        return
    quick = chk.tier == 'quick'
    cases = list(CORPUS)
    cases += gen_break_positions(3 if quick else 8, 'dfy' if quick else 'dfy')
    cases += gen_backpressure('dfy', 6 if quick else 8)
    cases += gen_long_pipelines('dfy')
    cases += gen_session_depth()
    cases += gen_random(chk, 500 if quick else 12000)
    # stripe the list over the 8 worker processes (run_impl cuts it into contiguous chunks): slow families (deep pipelines, and on a
    # broken tree the cases that wait for the silence cap) are spread evenly instead of queueing up in one worker
    cases = [c for k in range(8) for c in cases[k::8]]
    rc1, impl = chk.run_impl('pipe', cases, timeout=6000, jobs=8)
    if len(impl) != len(cases):
        chk.violation({'kind': 'correspondence', 'correspondence': 'harness/pipe produced %d lines for %d cases' % (len(impl), len(cases)),
                       'detail': impl[-3:]}, no_input=True)
        return
    mcases = [model_case(c, o) for c, o in zip(cases, impl)]
    rc2, model = chk.run_model('pipe', mcases, timeout=3000, jobs=8)
    hist = {'mode_c': 0, 'mode_s': 0, 'fan': 0, 'strategy': {'d': 0, 'f': 0, 'y': 0}, 'nconn': {}, 'outcomes': {}, 'conn_end': {},
            'connections_per_case_max': 0, 'requests': 0}
    nfail, disagreements, session_ok = 0, [], 0
    for i, c in enumerate(cases):
        o = impl[i]
        m = model[i] if i < len(model) else '<no output>'
        t = c.split()
        if t[0] == 'pipe':
            hist['mode_' + t[3]] += 1; hist['strategy'][t[1]] += 1; hist['nconn'][t[2]] = hist['nconn'].get(t[2], 0) + 1
            p = parse_impl(o)
            if p:
                for oc in p[1].values():
                    k = re.sub(r'\d+$', '', oc); hist['outcomes'][k] = hist['outcomes'].get(k, 0) + 1
                hist['requests'] += len(p[1])
                for l in p[0].values():
                    hist['connections_per_case_max'] = max(hist['connections_per_case_max'], l.count('cok'))
                    for ev in l:
                        if ev in ('closed', 'cfail', 'drop') or ev.startswith(('werr', 'rerr')):
                            hist['conn_end'][ev] = hist['conn_end'].get(ev, 0) + 1
                if p[2] is not None and 'bind loopback' not in o: session_ok += 1
        else:
            hist['fan'] += 1
        chk.count(c, nontrivial(c, o))
        bad = monitor(c, o)
        if bad:
            nfail += 1
            chk.violation({'kind': 'monitor', 'case': c, 'impl': o[:4000], 'model': m[:2000], 'what': bad})
        elif t[0] == 'pipe' and ':truncated' in o:
            hist['truncated_traces'] = hist.get('truncated_traces', 0) + 1     # prefix accepted or not, completions not comparable
            if not (m.startswith('accept') or 'phase' in m):
                disagreements.append({'case': c, 'impl': o[:4000], 'model': m[:2000]})
        elif t[0] == 'pipe' and (not m.startswith('accept') or tail(o) != tail(m)):
            disagreements.append({'case': c, 'impl': o[:4000], 'model': m[:2000]})
        elif t[0] == 'fan' and o != m:
            disagreements.append({'case': c, 'impl': o, 'model': m})
        if i % 131 == 0: chk.sample({'case': c, 'impl': o[:600], 'model': m[:300]})
    chk.cov['traces_validated_against_impl'] = len(cases) - len(disagreements) - nfail
    chk.sub('distribution', cases=len(cases), **hist)
    chk.sub('monitors', exactly_once_and_id_matching=True, error_not_silence_bounded_wait_ms=8000, client_order_cases=hist['mode_s'],
            monitor_failures=nfail, disagreements=len(disagreements))
    chk.sub('client_side', how='mode s: the real handle_session over a loopback TcpStream (client writes its pipeline in fragments); '
                               'mode c: CmdCtx reply futures only', session_cases_run=session_ok)
    chk.sub('acceptor', note='step-equality is impossible (tokio poll order is not controlled): the model replays the observed per-node traces '
                             '(Pipe.step must be enabled for every event, Pipe.phases_ok checks the order of calls inside a poll) and predicts the '
                             'completion of every id; sub/arr events are inferred by the harness, Timeout/SenderClosed from a dropped connection')
    if disagreements and not nfail:
        # which variant of the model does the code follow?
        d0 = disagreements[0]
        _, alt = chk.run_model('pipe', [model_case(d0['case'], d0['impl'], hoisted=0)])
        chk.violation({'kind': 'correspondence', 'correspondence': 'Model/Pipe.v (hoisted = true) vs src/proxy/backend.rs handle_conn / handle_backend',
                       'first': d0, 'count': len(disagreements), 'model_as_found_variant': (alt[0][:300] if alt else None),
                       'search': 'monitors evaluated on all %d implementation outputs incl. the disagreeing ones: no property failure' % len(cases)},
                      no_input=True)


def replay(data):
    chk = vlib.Check('C08', 'quick', 0)
    c = data.get('case') or (data.get('first') or {}).get('case')
    if not c:
        print(json.dumps(data, indent=1)[:3000]); return 0
    chk.build_impl('pipe')
    _, impl = chk.run_impl('pipe', [c])
    o = impl[0] if impl else ''
    _, model = chk.run_model('pipe', [model_case(c, o)])
    _, model0 = chk.run_model('pipe', [model_case(c, o, hoisted=0)])
    bad = monitor(c, o) if impl else 'no output'
    print('case :', c)
    print('impl :', o[:3000])
    print('model (repaired variant):', model[0][:1000] if model else None)
    print('model (as-found variant):', model0[0][:1000] if model0 else None)
    print('monitor:', bad)
    if bad: return 1
    if c.startswith('pipe') and model and (not model[0].startswith('accept') or tail(o) != tail(model[0])): return 1
    return 0
