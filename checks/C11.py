"""C11 The pre-switch barrier stops source-side execution and loses nothing.
Proof: coq/Props/C11.v over Model/Barrier.v (per-thread small-step model of proxy/blocking.rs + common/biatomic.rs),
proved on the counter abstraction (Proofs/BarrierProofsAbs.v) and transferred by simulation (Proofs/BarrierProofs.v).
Correspondence: the real TaskBlockingQueue (send / start_blocking / blocking_done / handle drop / stop_blocking) run by
real threads under the deterministic scheduler of hook H3, against the extracted model on the same schedule.
Monitors: the three theorem conclusions evaluated on the implementation's own trace."""
import vlib, re, subprocess

MANIFEST = {
  'text': 'Theorems C11_barrier (after a blocker saw blocking_done()=true no hand-off to the inner sender happens while the blocking count stays > 0), '
          'C11_exactly_once (re-dispatch log has no duplicates and is a subset of the enqueue log; in a quiescent state with count 0 the queue is empty and '
          're-dispatched = enqueued as multisets), C11_no_stuck_queue (queue non-empty and count 0 implies a thread stands between its enqueue and its second '
          'state load or inside release_all), C11_no_underflow (blocking_count-1 never underflows, the enqueue error branch is unreachable, +1 overflows only at '
          'u32::MAX) and C11_counting_invariant, for every schedule of any number of senders (every hint, every inner-sender answer), blockers (any poll count), '
          'stop_blocking callers and in-flight commands, about the executable per-thread model Model/Barrier.v whose steps are the shared-memory accesses of '
          'TaskBlockingQueue::send, RefAutoCounter/AutoCounter, release_all, BlockingHandle::new/drop, blocking_done and BiAtomicU32 (load + CAS with retry). '
          'Proved as an inductive invariant of the counter abstraction (34 abstract rules) and transferred by a simulation lemma. The model is tied to the code '
          'by running the real code under a controller that releases one parked thread per schedule entry (hook verif_sched::point before every access) and '
          'comparing the step-by-step trace with the extracted model on the same schedule. Independent monitors on the implementation trace: no hand-off while sealed; '
          'blocking_done()=true only when nothing is in flight; no thread panics / wedges; blocking count > 0 iff a handle is alive and term = term0 + successful '
          'start/drop operations (conclusion of C11_counting_invariant) after every step; release_all is entered only when no handle is alive; re-dispatch at most '
          'once and only of enqueued tasks; when all threads finished and all handles are dropped enqueued = re-dispatched; no lost wake-up.',
  'note': 'Coq kernel; closed under the global context. Assumed, not proved: sequential consistency (every atomic in blocking.rs/biatomic.rs is SeqCst - pinned '
          'textually on every run; the crossbeam channel send/try_recv are treated as single atomic actions); each hook label stands for exactly one access; '
          'the fake inner / re-dispatch senders and the in-flight completion (drop of the CounterTask) stand for the backend. u32 overflow of count/term is '
          'modelled with debug-build semantics (panic) and cannot be exercised by the harness (needs 2^32 operations). Liveness (a queued task is eventually '
          're-dispatched) is proved only as the safety invariant C11_no_stuck_queue plus emptiness at quiescence; fairness of the scheduler is outside the model. '
          'stop_blocking (never called in /repo) is modelled as a thread that runs release_all.',
  'technique': 'Coq proof (inductive invariant on a counter abstraction + simulation to an executable per-thread model) + schedule-controlled differential '
               'correspondence check against the real code',
}

TRUSTED = ['Coq 8.16.1 kernel (coqc; coqchk in the thorough tier); no axioms (Print Assumptions: closed)',
           'extraction with ExtrOcamlBasic only + ocaml/vio.ml, d_barrier.ml, driver_lib.ml',
           'hook H3: common::verif_sched::point before every shared-memory access of proxy/blocking.rs and common/biatomic.rs (add-only, cfg undermoon_verif); '
           'its placement is pinned textually on every run',
           'harness/barrier/src/dom.rs: controller + parking callback; fake inner sender (Ok / Retry / Canceled), fake re-dispatch sender; '
           'an in-flight command = the CounterTask kept by the fake inner sender, completed by dropping it',
           'memory model: sequential consistency assumed; all explicit atomics in the two files are Ordering::SeqCst (pinned); crossbeam-channel '
           'send/try_recv assumed linearizable']

REC = re.compile(r'^(\d+):([a-z_.]+)>([a-z_.]+):b(\d)t(\d+)d(\d)((?::[ADHR]\d+)*)$')


# ---------------------------------------------------------------- cases
def n_spawn(specs):
    return sum(1 for s in specs if s.startswith('S:') and s.endswith(':o'))


def tail(specs):
    """completion: every thread in turn runs alone until it has finished (ids of commands handed off during the run included)"""
    n, k = len(specs), n_spawn(specs)
    polls = max([int(s[2:]) for s in specs if s.startswith('B:')] + [0])
    L = 14 + 2 * len(specs) + polls
    t = []
    for tid in range(n + k):
        t += [tid] * L
    return t


def mk_case(term0, specs, sched, complete=True):
    s = list(sched) + (tail(specs) if complete else [])
    return 'run %d %s / %s' % (term0, ' '.join(specs), ' '.join(map(str, s)))


CORPUS = [
    # the examples of Props/C11.v
    mk_case(0, ['S:n:o', 'B:1'], [1, 1, 1, 0, 0, 0, 0, 0, 1, 1, 1, 1, 1]),
    mk_case(0, ['S:n:o', 'B:1'], [1, 1, 1, 1, 1, 1, 0, 0, 0, 0]),
    mk_case(0, ['S:n:o', 'B:0'], [1, 1, 0, 0, 1, 1, 1, 0, 0]),
    # sender between its load (count 0) and the hand-off while the blocker starts and polls: done must be false
    mk_case(0, ['S:n:o', 'B:3'], [0, 0, 1, 1, 1, 0, 1, 0, 1, 0]),
    mk_case(0, ['S:n:o', 'B:3'], [0, 0, 0, 1, 1, 1, 1, 0, 3, 0, 1]),
    # in-flight command keeps the barrier from completing until it is done
    mk_case(0, ['I', 'B:3', 'S:b:o'], [1, 1, 1, 2, 2, 0, 1, 2, 2, 2]),
    # two blockers, CAS interference, only the last drop releases
    mk_case(0, ['S:n:o', 'B:1', 'B:1', 'S:n:r'], [1, 2, 1, 2, 2, 1, 0, 0, 0, 3, 3, 3, 1, 2, 1, 2, 2, 1, 1, 2, 2]),
    # three blockers: all load, then all CAS (two lose and retry), same for the drops
    mk_case(0, ['B:1', 'B:0', 'B:1', 'S:n:o'], [0, 1, 2, 0, 1, 2, 1, 2, 1, 2, 2, 2, 3, 3, 3, 3, 0, 2, 0, 1, 2, 0, 1, 2, 1, 2, 1, 2, 2, 2]),
    mk_case(0, ['B:0', 'B:0'], [0, 1, 1, 0, 0, 0, 1, 0, 1, 1, 0, 1]),
    # hints against the term: m0 at term 2 replies retry, m2 forwards, m9 (future term) forwards
    mk_case(2, ['S:m0:o', 'S:m2:o', 'S:m9:c', 'B:0'], [0, 0, 1, 1, 2, 2, 0, 1, 2]),
    # inner sender errors
    mk_case(0, ['S:n:r', 'S:n:c', 'B:2'], [0, 1, 0, 1, 0, 1, 2, 2, 0, 1, 2, 0, 1, 2]),
    # stop_blocking while blocking: releases the queue although count > 0
    mk_case(0, ['S:n:o', 'B:2', 'P'], [1, 1, 0, 0, 0, 0, 0, 2, 2, 2, 2]),
    # incomplete schedule (threads left parked)
    mk_case(0, ['S:n:o', 'S:b:o', 'B:2'], [0, 2, 1, 2, 0, 1], complete=False),
    # ids that never exist, empty schedule
    mk_case(0, ['S:n:o'], [5, 7, 0, 9], complete=False),
    mk_case(4, ['B:1'], [], complete=False),
]


def sender_kinds(term0):
    return ['S:n:o', 'S:n:r', 'S:n:c', 'S:b:o', 'S:m%d:o' % term0, 'S:m%d:o' % (term0 + 1), 'S:m99:r']


def explore_configs(tier):
    """(term0, specs) whose whole state graph is covered edge by edge"""
    cfgs = []
    if tier == 'quick':
        cfgs += [(0, ['S:n:o', 'B:1']), (0, ['S:b:o', 'B:1']), (0, ['S:m0:o', 'B:2']), (0, ['S:n:c', 'B:1', 'I']),
                 (0, ['S:n:o', 'S:n:r', 'B:1']), (2, ['S:m2:o', 'S:b:o', 'B:1']),
                 # two and three blockers colliding inside the load -> CAS window of compare_and_apply (start and drop)
                 (0, ['B:1', 'B:1']), (0, ['B:0', 'B:1', 'B:0']), (0, ['S:n:o', 'B:1', 'B:1']), (0, ['B:1', 'B:1', 'B:1'])]
        return cfgs
    for term0 in (0, 2):
        kinds = sender_kinds(term0)
        for polls in (1, 2):
            for pre in ([], ['I']):
                for a in kinds:
                    cfgs.append((term0, pre + [a, 'B:%d' % polls]))
                if pre and (term0 == 2 or polls == 2):
                    continue
                for i, a in enumerate(kinds):
                    for b in kinds[i:]:
                        cfgs.append((term0, pre + [a, b, 'B:%d' % polls]))
    # two blockers with one sender, a stopper
    for a in sender_kinds(0)[:4]:
        cfgs.append((0, [a, 'B:1', 'B:1']))
        cfgs.append((0, [a, 'B:1', 'P']))
    cfgs += [(0, ['B:1', 'B:1']), (0, ['B:0', 'B:1', 'B:0']), (0, ['B:1', 'B:1', 'B:1']), (0, ['S:b:o', 'B:0', 'B:0', 'B:0']),
             (0, ['S:n:o', 'B:1', 'B:0', 'B:1'])]
    return cfgs


def random_case(r, kmax):
    term0 = r.choice([0, 0, 2, 4])
    k = r.randint(1, kmax)
    hints = ['n', 'n', 'n', 'b', 'm%d' % term0, 'm%d' % (term0 + 1), 'm%d' % (term0 + 2), 'm0', 'm99']
    specs = []
    for _ in range(k):
        specs.append('S:%s:%s' % (r.choice(hints), r.choice('ooooorc')))
    for _ in range(r.choice([1, 1, 1, 2])):
        specs.append('B:%d' % r.choice([0, 1, 1, 2, 3]))
    if r.random() < 0.15:
        specs.append('P')
    for _ in range(r.choice([0, 0, 0, 1, 2])):
        specs.append('I')
    r.shuffle(specs)
    n = len(specs) + n_spawn(specs)
    sched = []
    length = r.randint(0, 14 * len(specs))
    cur = r.randrange(n)
    stick = r.choice([0.2, 0.5, 0.8])
    for _ in range(length):
        if r.random() > stick:
            cur = r.randrange(n)
        sched.append(cur)
    return mk_case(term0, specs, sched, complete=r.random() < 0.9)


def collision_case(r):
    """2-3 blockers (and 0-2 senders) whose compare_and_apply calls overlap: every blocker loads before any of them CASes,
    for the start and again for the drop; the order inside each phase and the senders' steps are random"""
    nb = r.choice([2, 2, 3])
    specs = ['B:%d' % r.choice([0, 1, 1, 2]) for _ in range(nb)]
    for _ in range(r.choice([0, 1, 1, 2])):
        specs.append('S:%s:%s' % (r.choice(['n', 'n', 'b', 'm0']), r.choice('oorc')))
    r.shuffle(specs)
    bl = [i for i, x in enumerate(specs) if x.startswith('B:')]
    others = [i for i, x in enumerate(specs) if not x.startswith('B:')]
    sched = []
    def phase(steps_each):
        seq = []
        for b in bl:
            seq += [b] * steps_each
        r.shuffle(seq)
        for x in seq:
            sched.append(x)
            if others and r.random() < 0.3:
                sched.append(r.choice(others))
    loads = bl[:]; r.shuffle(loads); sched.extend(loads)          # all start loads
    phase(r.choice([1, 2, 3]))                                     # CASes, retries
    phase(r.choice([1, 2, 3, 4]))                                  # polls, drop loads
    phase(r.choice([2, 3, 4]))                                     # drop CASes, retries, release
    for _ in range(r.randint(0, 10)):
        sched.append(r.randrange(len(specs) + n_spawn(specs)))
    return mk_case(0, specs, sched)


# ---------------------------------------------------------------- monitors
def parse(out):
    """-> (records, summary dict) or None"""
    head, sep, summ = out.rpartition(' | ')
    if not sep or out.startswith(('wedged', 'panic')):
        return None
    recs = []
    for tok in head.split():
        m = REC.match(tok)
        if not m:
            return None
        notes = [x for x in m.group(7).split(':') if x]
        recs.append({'tid': int(m.group(1)), 'label': m.group(2), 'next': m.group(3), 'b': int(m.group(4)),
                     'term': int(m.group(5)), 'd': int(m.group(6)), 'notes': notes})
    sm = {}
    for kv in summ.split():
        k, _, v = kv.partition('=')
        sm[k] = v
    return recs, sm


def monitor(case, out):
    """The three conclusions of C11 on an implementation trace. None if fine, else a description."""
    if out.startswith('panic'):
        return 'the run of the real code panicked: %s' % out[:200]
    if out.startswith('wedged'):
        return ('a thread of the real code did not reach its next scheduling point within 10 s (deadlock or unbounded retry loop): %s'
                % out.split(' ;; ')[0])
    p = parse(out)
    if p is None:
        return None       # not a trace at all: reported as a disagreement with the model
    recs, sm = p
    specs = case.split(' / ')[0].split()[2:]
    term0 = int(case.split()[1])
    live = set()          # blockers whose start_blocking has returned and whose handle drop has not yet decremented the count
    done_seen = set()     # ... and that have observed blocking_done() = true
    ncas = 0              # successful compare_and_apply calls (each adds 1 to the term)
    sealed = False
    enq, redisp, hand = [], [], []
    qlen = 0
    cur = {}          # tid -> label it is parked at
    after_enq = set()
    b = 0
    inflight = set(t for t, s in enumerate(specs) if s == 'I')
    holding = set()   # senders between RefAutoCounter::new and its drop
    npool = len(specs)
    for i, r in enumerate(recs):
        tid = r['tid']
        # (1) no thread of the real code panics (the model panics only at u32::MAX, which no schedule here reaches)
        if r['next'] == 'panic':
            return 'step %d: thread %d panicked at %s' % (i, tid, r['label'])
        # (2) counting invariant: blocking count = live handles, term = term0 + successful compare_and_apply calls
        if 'A1' in r['notes']:
            live.add(tid); ncas += 1
        elif r['label'] == 'cas_cas' and tid in live and r['next'] in ('try_recv', 'fin.ok'):
            live.discard(tid); done_seen.discard(tid); ncas += 1
        if r['b'] != (1 if live else 0):
            return ('step %d: %d blocking handle(s) alive %s but the real blocking count is %s'
                    % (i, len(live), sorted(live), '> 0' if r['b'] else '0'))
        if r['term'] != term0 + ncas:
            return ('step %d: %d start/drop operations succeeded since term %d but the real term is %d (lost or duplicated update of the packed state)'
                    % (i, ncas, term0, r['term']))
        if 'D1' in r['notes'] and tid in live:
            done_seen.add(tid)
        # (3) release_all is entered (by a sender after its second state load, by a handle drop) only when no handle is alive.
        #     NOT monitored, because it is false of the unchanged code and of the model: "nothing is taken from the queue while a handle
        #     is alive" - a release loop entered when the count was 0 may still be running (or not yet started) when the next
        #     start_blocking succeeds and drains tasks queued under the new handle; the re-dispatch sender re-enters `send`, which
        #     queues them again. Witness: run 0 S:n:o B:1 B:1 / 1 1 1 1 1 2 2 0 0 0 0 0 1 1 1
        if live and r['next'] == 'try_recv' and r['label'] in ('state_load', 'cas_cas'):
            return ('step %d: thread %d starts draining the queue (release_all) while handle(s) %s are alive%s'
                    % (i, tid, sorted(live), (' and %s observed blocking_done()=true' % sorted(done_seen)) if done_seen else ''))
        if r['label'] == 'ref_inc': holding.add(tid)
        if r['label'] == 'ref_dec': holding.discard(tid)
        if r['label'] == 'handoff' and r['next'] == 'ref_dec':
            inflight.add(npool); npool += 1          # the inner sender kept the CounterTask: a command is in flight
        if r['label'] == 'task_dec' and tid in inflight:
            inflight.discard(tid)
        if 'D1' in r['notes'] and (inflight or holding):
            return ('step %d: blocking_done() answered true while commands %s are in flight and senders %s are inside the counted section'
                    % (i, sorted(inflight), sorted(holding)))
        if r['label'] == 'handoff':
            if sealed:
                return ('step %d: task %d handed to the inner sender after a blocker observed blocking_done()=true and before the '
                        'blocking count returned to 0' % (i, tid))
            hand.append(tid)
        if r['label'] == 'enqueue':
            enq.append(tid); qlen += 1; after_enq.add(tid)
        if r['label'] == 'try_recv' and r['next'] == 'redispatch':
            qlen -= 1
        for nt in r['notes']:
            if nt[0] == 'R':
                t = int(nt[1:])
                if t in redisp:
                    return 'step %d: task %d re-dispatched twice' % (i, t)
                if t not in enq:
                    return 'step %d: task %d re-dispatched but never enqueued' % (i, t)
                redisp.append(t)
        if r['label'] == 'state_load' and tid in after_enq:
            after_enq.discard(tid)
        cur[tid] = r['next']
        b = r['b']
        if 'D1' in r['notes'] and b == 1:
            sealed = True
        if b == 0:
            sealed = False
        if qlen > 0 and b == 0:
            rel = [t for t, l in cur.items() if l in ('try_recv', 'redispatch') or (l == 'state_load' and t in after_enq)]
            if not rel:
                # threads that have not moved yet are parked at their first label: a stop_blocking caller starts at try_recv
                unmoved = [t for t, s in enumerate(specs) if s == 'P' and t not in cur]
                if not unmoved:
                    return 'step %d: %d task(s) queued, nobody blocking, and no thread is going to run the release loop (lost wake-up)' % (i, qlen)
    if len(set(hand)) != len(hand):
        return 'a task was handed off twice'
    if set(hand) & set(enq):
        return 'task(s) %s both handed off and enqueued' % sorted(set(hand) & set(enq))
    if 'panic' in sm.get('th', '').split(','):
        return 'a thread of the real code ended in a panic'
    # (4) all threads finished and every handle dropped: nothing stays queued
    if sm.get('fin') == '1' and not live and recs:
        if sorted(enq) != sorted(redisp):
            return 'all threads finished and every handle dropped, but enqueued %s != re-dispatched %s' % (sorted(enq), sorted(redisp))
        th = sm.get('th', '').split(',')
        for t, s in enumerate(specs):
            if s.startswith('S:') and t < len(th):
                got = (t in hand) + (t in redisp)
                if th[t] == 'fin.ok' and got != 1:
                    return 'sender %d returned Ok but its task was handed off/re-dispatched %d times' % (t, got)
                if th[t] in ('fin.retry', 'fin.canceled') and t in redisp:
                    return 'sender %d returned an error but its task was re-dispatched' % t
    return None


def features(out):
    p = parse(out)
    f = set()
    if p is not None and len(set(r['tid'] for r in p[0] if 'A1' in r['notes'])) >= 2:
        f.add('two_or_more_handles')
    if p is None:
        return f
    recs, sm = p
    seen_b1 = False
    for r in recs:
        if 'D1' in r['notes']: f.add('done_true')
        if 'D0' in r['notes']: f.add('done_false')
        if r['label'] == 'enqueue': f.add('enqueue'); f.add('enqueue_b%d' % r['b'])
        if r['label'] == 'handoff' and r['b'] == 1: f.add('handoff_while_blocking_not_done')
        if r['label'] == 'cas_cas' and r['next'] == 'cas_load': f.add('cas_failed')
        if r['label'] == 'state_load' and r['next'] == 'try_recv': f.add('sender_releases')
        if r['next'] == 'fin.retry': f.add('retry')
        if r['next'] == 'fin.canceled': f.add('canceled')
        if any(n[0] == 'R' for n in r['notes']): f.add('redispatch')
    return f


# ---------------------------------------------------------------- pins
def pins():
    """textual pins: hook coverage of every access, SeqCst everywhere, pre_block's use of the barrier"""
    probs = []
    access = re.compile(r'\.fetch_add\(|\.fetch_sub\(|\.load\(Ordering|\.compare_exchange\(|\.try_recv\(\)|queue_sender\.send\(|'
                        r'inner_sender\.send\(|blocking_task_sender\.send\(|self\.inner\.load\(')
    npoints = 0
    for f in ('/repo/src/proxy/blocking.rs', '/repo/src/common/biatomic.rs'):
        src = open(f).read().split('#[cfg(test)]')[0].split('\n')
        for i, ln in enumerate(src):
            if 'verif_sched::point(' in ln:
                npoints += 1
                if i == 0 or '#[cfg(undermoon_verif)]' not in src[i - 1]:
                    probs.append('%s:%d scheduling point without cfg guard' % (f, i + 1))
            if access.search(ln) and not ln.strip().startswith('//'):
                if not any('verif_sched::point(' in src[j] for j in range(max(0, i - 4), i)):
                    probs.append('%s:%d shared-memory access without a scheduling point: %s' % (f, i + 1, ln.strip()))
            m = re.search(r'Ordering::(\w+)', ln)
            if m and not ln.strip().startswith('use ') and m.group(1) != 'SeqCst':
                probs.append('%s:%d ordering %s is weaker than the sequential consistency the model assumes' % (f, i + 1, m.group(1)))
    if npoints != 12:
        probs.append('expected 12 scheduling points in blocking.rs + biatomic.rs, found %d' % npoints)
    st = open('/repo/src/migration/scan_task.rs').read()
    if not re.search(r'let blocking_handle = ctrl\.start_blocking\(\);\s*while !ctrl\.blocking_done\(\) \{', st):
        probs.append('scan_task.rs pre_block no longer is "start_blocking; while !blocking_done"')
    return probs


# ---------------------------------------------------------------- run
def explore(chk, term0, specs, maxe):
    rc, out = chk.run_model('barrier', ['explore %d %d %s' % (maxe, term0, ' '.join(specs))])
    if not out or not out[0].startswith('explored'):
        return None, []
    parts = out[0].split(' ; ')
    scheds = [[int(x) for x in s.split(',')] for s in parts[1:]]
    return parts[0], scheds


class Acc:
    def __init__(self):
        self.hist, self.pools, self.nfail, self.ncases = {}, {}, 0, 0
        self.disagreements = []
        self.ndis = 0


def process(chk, acc, cases):
    """both sides on a batch of cases; monitors on the implementation trace; line-by-line comparison"""
    if not cases:
        return
    rc1, impl = chk.run_impl('barrier', cases, timeout=3000, jobs=8)
    rc2, model = chk.run_model('barrier', cases, timeout=3000, jobs=8)
    for i, c in enumerate(cases):
        o = impl[i] if i < len(impl) else '<no output>'
        m = model[i] if i < len(model) else '<no output>'
        f = features(o)
        for x in f:
            acc.hist[x] = acc.hist.get(x, 0) + 1
        nthreads = len(c.split(' / ')[0].split()) - 2
        acc.pools[nthreads] = acc.pools.get(nthreads, 0) + 1
        chk.count(c, bool(f & {'enqueue', 'done_true', 'done_false', 'cas_failed', 'handoff_while_blocking_not_done'}))
        bad = monitor(c, o)
        if bad:
            acc.nfail += 1
            chk.violation({'kind': 'monitor', 'case': c, 'impl': o, 'model': m, 'what': bad})
        elif o != m:
            acc.ndis += 1
            if len(acc.disagreements) < 3:
                acc.disagreements.append({'case': c, 'impl': o, 'model': m})
        if (acc.ncases + i) % 4001 == 0:
            chk.sample({'case': c[:300], 'impl': o[:600], 'model': m[:600]})
    acc.ncases += len(cases)


def run(chk):
    ok = vlib.standard_proof_phase(chk, TRUSTED, 'barrier')
    chk.cov['rule'] = ('case = (initial term, thread pool, schedule); edge-coverage cases: for every state of the model\'s deduplicated state graph '
                       'of a pool and every enabled thread, the shortest schedule reaching the state, that thread\'s step, then a completion; random cases: '
                       'random pools with mixed hints and random bursty schedules. non-trivial = distinct case whose implementation trace contains an '
                       'enqueue, a blocking_done observation, a failed CAS or a hand-off while blocking')
    if not ok:
        return
    pp = pins()
    chk.sub('pins', problems=pp, scheduling_points=12)
    for p in pp:
        chk.violation({'kind': 'correspondence', 'correspondence': 'hook H3 placement / memory-order pin', 'detail': p}, no_input=True)
    quick = chk.tier == 'quick'
    acc = Acc()
    process(chk, acc, list(CORPUS))
    # exhaustive part: every edge of the state graph of every small pool
    cfgs = explore_configs(chk.tier)
    ex_stats = {'configs': len(cfgs), 'states': 0, 'edges': 0, 'truncated': 0}
    batch = []
    for term0, specs in cfgs:
        head, scheds = explore(chk, term0, specs, 200000)
        if head is None:
            chk.violation({'kind': 'model-build', 'detail': 'exploration failed for %s' % specs}, no_input=True)
            continue
        m = re.match(r'explored states=(\d+) edges=(\d+) truncated=(\d)', head)
        ex_stats['states'] += int(m.group(1)); ex_stats['edges'] += int(m.group(2)); ex_stats['truncated'] += int(m.group(3))
        for s in scheds:
            batch.append(mk_case(term0, specs, s))
        if len(batch) >= 40000:
            process(chk, acc, batch); batch = []
    process(chk, acc, batch)
    n_explore = acc.ncases - len(CORPUS)
    chk.sub('exhaustive', exhaustive=(ex_stats['truncated'] == 0), **ex_stats)
    # random part
    r = chk.rng
    nrand = 4000 if quick else 60000
    done = 0
    while done < nrand:
        nb = min(40000, nrand - done)
        process(chk, acc, [collision_case(r) if i % 4 == 3 else random_case(r, 4 if (quick or i % 2 == 0) else 6) for i in range(nb)])
        done += nb
    chk.cov['traces_validated_against_impl'] = acc.ncases - acc.ndis - acc.nfail
    chk.sub('distribution', cases=acc.ncases, corpus=len(CORPUS), edge_coverage_cases=n_explore, random_cases=nrand,
            features=acc.hist, pool_sizes=acc.pools, monitor_failures=acc.nfail, disagreements=acc.ndis)
    if (acc.ndis or pp) and not acc.nfail:
        # search for a failing input around the disagreement / the changed access: two- and three-blocker schedules colliding inside
        # compare_and_apply plus more random schedules, monitors only
        extra = [collision_case(r) for _ in range(6000)] + [random_case(r, 4) for _ in range(14000)]
        _, impl2 = chk.run_impl('barrier', extra, timeout=3000, jobs=8)
        for c, o in zip(extra, impl2):
            bad = monitor(c, o)
            if bad:
                chk.violation({'kind': 'monitor', 'case': c, 'impl': o, 'what': bad, 'found_by': 'search after a model/implementation disagreement'})
                acc.nfail += 1
                break
        if not acc.nfail and acc.ndis:
            chk.violation({'kind': 'correspondence', 'correspondence': 'Model/Barrier.v step vs proxy/blocking.rs + common/biatomic.rs under the H3 scheduler',
                           'first': acc.disagreements[0], 'count': acc.ndis,
                           'search': 'monitors evaluated on all %d implementation traces and on 20000 further random schedules: no property failure'
                                     % acc.ncases}, no_input=True)


def replay(data):
    chk = vlib.Check('C11', 'quick', 0)
    c = data.get('case') or (data.get('first') or {}).get('case')
    if not c:
        print(data); return 0
    chk.build_impl('barrier')
    _, impl = chk.run_impl('barrier', [c]); _, model = chk.run_model('barrier', [c])
    print('case :', c); print('impl :', impl); print('model:', model)
    bad = monitor(c, impl[0]) if impl else None
    print('monitor:', bad)
    return 1 if bad else 0
