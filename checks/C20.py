"""C20 Value compression is transparent.
Proof: coq/Props/C20.v over Model/Compress.v (section variables compress/decompress, premise zstd round trip).
Correspondence: commands through a real SharedForwardHandler with a storing stand-in for Redis (client replies + stored
bytes), CmdCompressor / CmdReplyDecompressor called directly (hook verif_compress), DataCmdType classification of every
name of docs/command_table.json, CompressionStrategy::from_str; all against the extracted model.
Monitors: read-back byte-identical and equal to the same run with compression disabled; untouched positions; refusals in
set_get_only; identity when disabled; the zstd round trip on every generated value with the library calls the code uses."""
import vlib, json, re

MANIFEST = {
  'text': 'Theorems over Model/Compress.v (mirrors CmdCompressor::try_compressing_cmd_ctx, CmdReplyDecompressor::decompress, the nil '
          'fallback of DecompressCommitHandler, DataCmdType::from_cmd_name for the string family, handle_mget/handle_mset/handle_msetnx/'
          'handle_single_key_data_cmd, CompressionStrategy::from_str; plus a storing Redis stand-in), for ALL functions compress/decompress '
          'with decompress (compress v) = Some v: C20_transparent (a value written by SET with any options / SETNX / SETEX / PSETEX / GETSET / '
          'MSET / MSETNX is returned byte-identical by GET, GETSET and MGET, any bytes), C20_transparent_sequences (any sequence of commands '
          'other than the restricted string commands, any argument shape whose value positions exist: replies byte-identical to, and store '
          'the encoded image of, the same proxy with compression disabled), C20_untouched / C20_untouched_reply (only positions 2 / 3 / even>=2 '
          'change, only bulk strings of GET/GETSET/MGET replies are rewritten), C20_raw_value_read (a stored value that did not go through the '
          'compressor reads as whatever zstd decodes, nil if it is no frame), C20_restricted / C20_restricted_any_case / C20_table (set_get_only '
          'refuses the 14 other string commands of the 23-name supported table, and BITOP, in any letter case), C20_outside_table_forwarded '
          '(SUBSTR/GETDEL/GETEX are unknown to DataCmdType and are forwarded: out of scope, named), C20_disabled_identity.',
  'note': 'All theorems closed under the global context; zstd is abstract: the round-trip law is an explicit premise of C20_transparent(_sequences) '
          'and is tested on every run against zstd::encode_all(v,1)/zstd::decode_all on all generated values (empty, binary, incompressible, '
          '64 KiB; 1 MiB in the thorough tier). Trusted: the Redis stand-in (same function in model and harness), extraction, the OCaml '
          'driver whose framing stand-in replaces zstd on the model side (stored bytes are compared as "decodes to v with zstd magic"). '
          'Not modelled: same-slot test (cases use one hash tag; the empty-key case is modelled), MSETNX split over several slots, expiry, '
          'migration paths (DecompressCommitHandler on migration senders), zstd::encode_all io errors. The raw MSET/MGET arms of the compressor '
          'and the MGET arm of the decompressor are unreachable through the handler (MSET/MGET are split first) and are compared through the hook only.',
  'technique': 'Coq proof (simulation between the compressing and the non-compressing proxy over an abstract codec) + differential '
               'correspondence check against the real proxy + exhaustive comparison of the command-name table',
}

TRUSTED = ['Coq 8.16.1 kernel (coqc; coqchk in the thorough tier); no axioms; the zstd round trip is a premise, not an axiom',
           'extraction with ExtrOcamlBasic only + ocaml/vio.ml, d_compress.ml (framing stand-in for zstd on the model side), driver_lib.ml',
           'harness/compress: storing stand-in for Redis (GET SET SETNX SETEX PSETEX GETSET MSET MSETNX MGET STRLEN APPEND; options ignored, no expiry)',
           'hook proxy::verif_compress (cfg undermoon_verif, add-only re-export of the private module proxy::compress)',
           'zstd 0.11 as linked by /repo (the harness calls the same encode_all/decode_all)']

T = '{t}'      # one hash tag: all keys of a case are in one slot


def hx(b):
    if isinstance(b, str): b = b.encode()
    return b.hex() if b else '-'


def cmd(*a):
    return '%d %s' % (len(a), ' '.join(hx(x) for x in a)) if a else '0'


TABLE = []     # (real zstd frame or raw bytes, what zstd::decode_all makes of it): appended to every run line for the model driver


def run_line(s, pre, cmds, table=None):
    l = 'run %s %d %s %d %s' % (s, len(pre), ' '.join('%s %s' % (hx(k), hx(v)) for k, v in pre), len(cmds), ' '.join(cmds))
    l = re.sub(' +', ' ', l).strip()
    table = table if table is not None else TABLE
    if table:
        l += ' D %d %s' % (len(table), ' '.join('%s %s' % (hx(r), 'x' if d is None else hx(d)) for r, d in table))
    return l


RESTRICTED = ['APPEND', 'BITCOUNT', 'BITFIELD', 'BITOP', 'BITPOS', 'DECR', 'DECRBY', 'GETBIT', 'GETRANGE', 'INCR', 'INCRBY',
              'INCRBYFLOAT', 'SETBIT', 'SETRANGE', 'STRLEN']
NINE = ['GET', 'GETSET', 'SET', 'SETNX', 'SETEX', 'PSETEX', 'MSET', 'MSETNX', 'MGET']
RESTRICTED_MSG = b'unsupported string command when compression is enabled'.hex()


def values(chk):
    r = chk.rng
    vs = [b'', b'a', b'hello', b'\x00', bytes(range(256)), b'x' * 1000, b'0', b'-1', b'OK', b'\r\n', b'$5\r\nhello\r\n',
          bytes(r.getrandbits(8) for _ in range(256)), bytes(r.getrandbits(8) for _ in range(4096)),
          b'\x28\xb5\x2f\xfd', b'\x28\xb5\x2f\xfd' + bytes(r.getrandbits(8) for _ in range(20)), b'\x28\xb5\x2f\xfd\x00\x00\x00',
          ('lorem ipsum dolor sit amet ' * 40).encode()]
    return vs


def big_values(chk):
    r = chk.rng
    k64 = bytes(r.getrandbits(8) for _ in range(65536))
    return [k64, (b'abcdefgh' * 8192)]


def write_cmds(k, v, r=None):
    """(label, [commands]) for every write command and argument shape writing v at key k (on a store without k)"""
    k2, k3 = T + 'other1', T + 'other2'
    return [
        ('SET', [cmd('SET', k, v)]),
        ('SET+EX', [cmd('SET', k, v, 'EX', '10')]),
        ('set+px+nx', [cmd('set', k, v, 'PX', '9999', 'NX')]),
        ('SETNX', [cmd('SETNX', k, v)]),
        ('SETEX', [cmd('SETEX', k, '10', v)]),
        ('PSETEX', [cmd('PsetEx', k, '10000', v)]),
        ('GETSET', [cmd('GETSET', k, v)]),
        ('MSET1', [cmd('MSET', k, v)]),
        ('MSET3', [cmd('MSET', k2, 'o1', k, v, k3, 'o2')]),
        ('MSETNX1', [cmd('MSETNX', k, v)]),
        ('MSETNX3', [cmd('msetnx', k2, 'o1', k3, '', k, v)]),
    ]


def read_cmds(k):
    return [('GET', cmd('GET', k), 0), ('GETSET', cmd('GETSET', k, 'after'), 0), ('MGET1', cmd('MGET', k), 1),
            ('MGET3', cmd('mget', T + 'none', k, T + 'other1'), 2)]


def resp_bulk_values(tok):
    """all bulk payloads (hex) of a reply in token notation, in order, None for nil"""
    t = tok.split()
    out = []
    i = 0
    while i < len(t):
        if t[i] == 'B': out.append(t[i + 1]); i += 2
        elif t[i] == 'BN': out.append(None); i += 1
        elif t[i] in ('S', 'E', 'I'): i += 2
        elif t[i] == 'A': i += 2
        else: i += 1
    return out


def split_run(out):
    if not out.startswith('run '): return None, None
    body, _, dump = out[4:].partition(' | ')
    return body.split(' ; '), dict(kv.split('=', 1) for kv in dump.split()) if dump.strip() else {}


def gen_pairs(chk, vals):
    """all write x read pairs x strategies x values; returns list of (case, meta)"""
    out = []
    k = T + 'key'
    for v in vals:
        for wl, ws in write_cmds(k, v):
            for rl, rc, pos in read_cmds(k):
                for s in 'dsa':
                    out.append((run_line(s, [], ws + [rc]), {'kind': 'pair', 's': s, 'w': wl, 'r': rl, 'v': v, 'k': k, 'pos': pos}))
    return out


NAMES_POOL = NINE + RESTRICTED + ['SUBSTR', 'GETDEL', 'GETEX', 'DEL', 'EXISTS', 'TTL', 'LPUSH', 'HSET', 'FOO']


def rand_case(name, r):
    return ''.join(ch.lower() if r.random() < 0.3 else ch for ch in name)


def gen_sequences(chk, vals, n):
    r = chk.rng
    out = []
    keys = [T + 'k%d' % i for i in range(4)]
    for _ in range(n):
        pure = r.random() < 0.6          # only the nine commands, value positions present
        cmds = []
        for _ in range(r.randint(1, 10)):
            k = r.choice(keys)
            v = r.choice(vals[:12]) if r.random() < 0.9 else r.choice(vals)
            x = r.random()
            if x < 0.62 or pure:
                name = r.choice(NINE)
                nm = rand_case(name, r)
                if name == 'GET': c = cmd(nm, k) if (pure or r.random() < 0.9) else cmd(nm, k, 'extra')
                elif name == 'GETSET': c = cmd(nm, k, v) if (pure or r.random() < 0.85) else r.choice([cmd(nm, k), cmd(nm, k, v, 'extra')])
                elif name == 'SET':
                    opts = r.choice([[], ['EX', '10'], ['PX', '5', 'NX'], ['KEEPTTL'], ['extra', 'args', 'here']])
                    c = cmd(nm, k, v, *opts) if (pure or r.random() < 0.9) else cmd(nm, k)
                elif name == 'SETNX': c = cmd(nm, k, v) if (pure or r.random() < 0.85) else r.choice([cmd(nm, k), cmd(nm, k, v, 'x')])
                elif name in ('SETEX', 'PSETEX'):
                    c = cmd(nm, k, '100', v) if (pure or r.random() < 0.85) else r.choice([cmd(nm, k, '100'), cmd(nm, k), cmd(nm, k, '1', v, 'x')])
                elif name in ('MSET', 'MSETNX'):
                    ps = []
                    for kk in r.sample(keys, r.randint(1, 3)) if r.random() < 0.8 else [k, k]:
                        ps += [kk, r.choice(vals[:12])]
                    if not pure and r.random() < 0.2: ps = ps[:-1]          # missing value
                    if not pure and r.random() < 0.05: ps = []
                    c = cmd(nm, *ps)
                else:
                    ks = [r.choice(keys + [T + 'none']) for _ in range(r.randint(1, 4))]
                    if not pure and r.random() < 0.05: ks = []
                    c = cmd(nm, *ks)
            elif x < 0.85:
                name = r.choice(RESTRICTED)
                c = cmd(rand_case(name, r), k, *([v] if name in ('APPEND', 'SETRANGE', 'BITOP') else []))
            else:
                c = cmd(r.choice(['SUBSTR', 'GETDEL', 'GETEX', 'FOO', 'STRLENX', 'G' * 65]), k)
            cmds.append(c)
        pre = []
        if not pure and r.random() < 0.3:
            pre = [(r.choice(keys), r.choice([b'plain', b'', b'\x28\xb5\x2f\xfdjunk', b'12']))]
        for s in 'dsa':
            out.append((run_line(s, pre, cmds), {'kind': 'seq', 's': s, 'pure': pure and not pre, 'cmds': cmds, 'pre': pre}))
    return out


def cmd_names(line_cmd):
    t = line_cmd.split()
    return bytes.fromhex(t[1]).decode('latin1').upper() if len(t) > 1 and t[1] != '-' else ''


def run(chk):
    ok = vlib.standard_proof_phase(chk, TRUSTED, 'compress')
    chk.cov['rule'] = ('case = one proxy with a compression strategy + a command sequence through the handler (replies and stored bytes), or one '
                       'direct compressor/decompressor/classification call; non-trivial = distinct case with compression enabled in which at '
                       'least one value is stored compressed and read back, or a command is refused, or a raw value is read')
    if not ok:
        return
    quick = chk.tier == 'quick'
    r = chk.rng
    vals = values(chk)
    bigs = big_values(chk)
    # ---- phase 0: real frames for cases about raw values that happen to be zstd frames; the round trip on every value ----
    pre_cases = ['zenc ' + hx(v) for v in [b'secret', b'', b'x' * 50]] + ['zdec ' + hx(v) for v in [b'plain', b'', b'\x28\xb5\x2f\xfdjunk', b'12']]
    _, pre_out = chk.run_impl('compress', pre_cases)
    frames = []
    for c, o in zip(pre_cases[:3], pre_out[:3]):
        frames.append((bytes.fromhex(c.split()[1]) if c.split()[1] != '-' else b'', bytes.fromhex(o.split()[1])))
    rawdec = {}
    for c, o in zip(pre_cases[3:], pre_out[3:]):
        raw = bytes.fromhex(c.split()[1]) if c.split()[1] != '-' else b''
        rawdec[raw] = (bytes.fromhex(o.split()[2]) if o.split()[2] != '-' else b'') if o.startswith('zdec ok') else None
    table = [(f, v) for v, f in frames] + [(raw, d) for raw, d in rawdec.items()]
    TABLE[:] = table
    cases = []          # (line, meta)
    for v in vals + bigs + [f for _, f in frames]:
        cases.append(('zrt ' + hx(v), {'kind': 'zrt'}))
    # ---- write x read pairs ----
    pair_vals = vals + [f for _, f in frames] + (bigs if quick else bigs)
    cases += gen_pairs(chk, pair_vals if not quick else vals[:9] + [vals[11], vals[14], frames[0][1], bigs[0]])
    # ---- raw values (not written through the compressor): plain text, empty, real frames, magic + garbage ----
    for s in 'dsa':
        for raw, dec in table:
            k = T + 'raw'
            cmds = [cmd('GET', k), cmd('MGET', k, T + 'none'), cmd('GETSET', k, 'new'), cmd('GET', k), cmd('STRLEN', k), cmd('APPEND', k, 'zz'), cmd('GET', k)]
            cases.append((run_line(s, [(k, raw)], cmds, table), {'kind': 'raw', 's': s, 'raw': raw, 'dec': dec}))
    # ---- random sequences ----
    cases += gen_sequences(chk, vals + [frames[0][1]], 150 if quick else 4000)
    # ---- the compressor / decompressor alone; classification; strategy parsing ----
    tbl = json.load(open('/repo/docs/command_table.json'))
    names = sorted(set(list(tbl.keys()) + [n.lower() for n in NAMES_POOL]))
    name_cases = []
    for n in names:
        for variant in {n, n.upper(), n.capitalize()}:
            name_cases.append(variant)
    name_cases += ['G' * 64, 'G' * 65, 'GET' + 'x' * 62, '', 'GET ', 'SÉT', 'ſet', 'get\x00']
    for n in name_cases:
        cases.append(('type ' + hx(n), {'kind': 'type', 'name': n}))
        for s in 'dsa':
            for args in ([], ['k'], ['k', 'v'], ['k', 'v1', 'k2'], ['k', 'v1', 'k2', 'v2', 'k3'], ['k', '10', 'v', 'x']):
                cases.append(('cc %s %s' % (s, cmd(n, *args)), {'kind': 'cc', 's': s, 'name': n, 'args': args}))
    for t in ['disabled', 'set_get_only', 'allow_all', 'DISABLED', 'Set_Get_Only', 'ALLOW_ALL', 'allow-all', '', 'enabled', 'allow_all ', 'setgetonly', 'disable']:
        cases.append(('strat ' + hx(t), {'kind': 'strat'}))
    fr = frames[0][1]
    dtab = ' D %d %s' % (len(table), ' '.join('%s %s' % (hx(rw), 'x' if d is None else hx(d)) for rw, d in table))
    replies = ['B ' + hx(fr), 'B ' + hx(b'plain'), 'B -', 'BN', 'I 31', 'E 455252', 'S 4f4b', 'AN', 'A 0',
               'A 3 B %s BN B %s' % (hx(fr), hx(frames[2][1])), 'A 2 B %s B %s' % (hx(fr), hx(b'plain')), 'A 2 I 31 B %s' % hx(fr),
               'A 1 A 1 B %s' % hx(fr)]
    for s in 'dsa':
        for n in ['GET', 'get', 'GETSET', 'MGET', 'SET', 'STRLEN', 'HGET', 'GETRANGE']:
            for rp in replies:
                cases.append(('dr %s %s %s%s' % (s, hx(n), rp, dtab), {'kind': 'dr', 's': s, 'name': n, 'reply': rp}))
    lines = [c for c, _ in cases]
    # the few cases with 64 KiB values dominate the run time: spread them over the worker processes
    import random as _random
    perm = list(range(len(lines)))
    _random.Random(chk.seed).shuffle(perm)
    shuffled = [lines[j] for j in perm]
    rc1, impl_s = chk.run_impl('compress', shuffled, jobs=8)
    rc2, model_s = chk.run_model('compress', shuffled, jobs=8)
    impl, model = ['<no output>'] * len(lines), ['<no output>'] * len(lines)
    for pos, j in enumerate(perm):
        if pos < len(impl_s): impl[j] = impl_s[pos]
        if pos < len(model_s): model[j] = model_s[pos]
    # ---- monitors ----
    hist = {}
    nfail = 0
    disagreements = []
    by_line = {}
    for i, (c, meta) in enumerate(cases):
        o = impl[i] if i < len(impl) else '<no output>'
        by_line[c] = o
    def fail(i, c, o, m, what):
        nonlocal nfail
        nfail += 1
        chk.violation({'kind': 'monitor', 'case': c[:4000], 'impl': o[:2000], 'model': m[:2000], 'what': what})
    for i, (c, meta) in enumerate(cases):
        o = impl[i] if i < len(impl) else '<no output>'
        m = model[i] if i < len(model) else '<no output>'
        kind = meta['kind']
        hist[kind] = hist.get(kind, 0) + 1
        bad = None
        nontrivial = False
        if kind == 'zrt':
            if o != 'zrt ok': bad = 'zstd round trip premise fails on the real library: ' + o
        elif kind == 'pair':
            reps, dump = split_run(o)
            if reps is None or len(reps) < 2: bad = 'malformed output'
            else:
                got = resp_bulk_values(reps[-1])
                want = hx(meta['v'])
                idx = {'GET': 0, 'GETSET': 0, 'MGET1': 0, 'MGET3': 1}[meta['r']]
                if len(got) <= idx or got[idx] != want:
                    bad = 'value written by %s is not returned byte-identical by %s under strategy %s: got %s' % (
                        meta['w'], meta['r'], meta['s'], (got[idx][:80] if len(got) > idx and got[idx] else got[:1]))
                # equality with the run with compression disabled
                dline = 'run d' + c[5:]
                dref = by_line.get(dline)
                if not bad and dref is not None and meta['s'] != 'd':
                    dreps, ddump = split_run(dref)
                    if dreps != reps: bad = 'replies differ from the same commands with compression disabled'
                    elif set(ddump) != set(dump): bad = 'stored keys differ from the run with compression disabled'
                    else:
                        for kk, tok in dump.items():
                            dt = ddump[kk]
                            keyname = bytes.fromhex(kk).decode('latin1')
                            # every stored value is the zstd frame of what the uncompressed system stores
                            if not (tok.startswith('c:') and dt.startswith('r:') and tok[2:] == dt[2:]):
                                bad = 'stored bytes for key %s: %s; with compression disabled: %s' % (keyname, tok[:60], dt[:60]); break
                nontrivial = meta['s'] != 'd'
        elif kind == 'seq':
            reps, dump = split_run(o)
            if reps is None or len(reps) != len(meta['cmds']): bad = 'malformed output'
            else:
                # refusals in restricted mode; nothing refused otherwise
                for cc, rp in zip(meta['cmds'], reps):
                    nm = cmd_names(cc)
                    refused = rp == 'E ' + RESTRICTED_MSG
                    if meta['s'] == 's' and nm in RESTRICTED and not refused:
                        bad = '%s is not refused in set_get_only mode: %s' % (nm, rp[:80]); break
                    if refused and not (meta['s'] == 's' and nm in RESTRICTED):
                        bad = '%s refused under strategy %s' % (nm, meta['s']); break
                    if refused: nontrivial = True
                if not bad and meta['pure'] and meta['s'] != 'd':
                    dref = by_line.get('run d' + c[5:])
                    if dref is not None:
                        dreps, ddump = split_run(dref)
                        if dreps != reps: bad = 'replies differ from the same commands with compression disabled (transparency)'
                        elif set(ddump) != set(dump): bad = 'stored keys differ from the run with compression disabled'
                        else:
                            for kk, tok in dump.items():
                                if not (tok.startswith('c:') and ddump[kk].startswith('r:') and tok[2:] == ddump[kk][2:]):
                                    bad = 'stored bytes for key %s are not the compressed image of the uncompressed store' % kk; break
                        nontrivial = nontrivial or bool(dump)
        elif kind == 'raw':
            reps, dump = split_run(o)
            if reps is None or len(reps) != 7: bad = 'malformed output'
            elif meta['s'] == 'd':
                if resp_bulk_values(reps[0]) != [hx(meta['raw'])]: bad = 'raw value not returned with compression disabled'
            else:
                # what a value that did not go through the compressor reads as is not part of the property text:
                # compared with the model only (C20_raw_value_read), a difference is a correspondence disagreement
                nontrivial = True
        elif kind == 'cc':
            t = o.split()
            up = meta['name'].upper() if all(ord(ch) < 128 for ch in meta['name']) else None
            if t[:2] == ['cc', 'fwd']:
                els = t[2:]
                if len(els) != 1 + len(meta['args']): bad = 'forwarded command has another length'
                else:
                    for j, e in enumerate(els):
                        isval = False
                        if meta['s'] != 'd' and up is not None:
                            if up in ('SET', 'SETNX', 'GETSET'): isval = j == 2
                            elif up in ('SETEX', 'PSETEX'): isval = j == 3
                            elif up in ('MSET', 'MSETNX'): isval = j >= 2 and j % 2 == 0
                        src = meta['args'][j - 1] if j >= 1 else meta['name']
                        if isval and e != 'c:' + hx(src): bad = 'value position %d is not the compressed argument: %s' % (j, e[:40]); break
                        if not isval and e != '=': bad = 'position %d (not a value position) was altered: %s' % (j, e[:40]); break
                if meta['s'] == 's' and up in RESTRICTED + ['MGET']: bad = bad or 'restricted command forwarded by the compressor in set_get_only mode'
            elif t[:2] == ['cc', 'restricted']:
                if not (meta['s'] == 's' and up in RESTRICTED + ['MGET']): bad = 'compressor refused %r under strategy %s' % (meta['name'], meta['s'])
                nontrivial = True
            elif t[:2] == ['cc', 'invalid']:
                need = {'SET': 2, 'SETNX': 2, 'GETSET': 2, 'SETEX': 3, 'PSETEX': 3}.get(up)
                if not (meta['s'] != 'd' and need is not None and len(meta['args']) < need): bad = 'compressor answered invalid request unexpectedly'
            else: bad = 'malformed output'
        elif kind == 'dr':
            if meta['s'] == 'd' or meta['name'].upper() not in ('GET', 'GETSET', 'MGET'):
                if o != 'dr ' + meta['reply']: bad = 'reply altered although strategy is disabled or the command is not GET/GETSET/MGET'
            elif meta['name'].upper() in ('GET', 'GETSET') and not meta['reply'].startswith('B '):
                if o != 'dr ' + meta['reply']: bad = 'non-bulk reply of GET/GETSET altered'
            elif meta['name'].upper() == 'MGET' and not meta['reply'].startswith('A '):
                if o != 'dr ' + meta['reply']: bad = 'non-array reply of MGET altered'
        chk.count(c[:2000], nontrivial)
        if bad:
            fail(i, c, o, m, bad)
        elif o != m:
            disagreements.append({'case': c[:4000], 'impl': o[:2000], 'model': m[:2000]})
        if i % 997 == 0:
            chk.sample({'case': c[:200], 'impl': o[:200], 'model': m[:200]})
    # ---- thorough: 1 MiB values through the real proxy only (monitor: byte-identical read-back) ----
    nbig = 0
    if not quick:
        mib = [bytes(r.getrandbits(8) for _ in range(1 << 20)), b'0123456789abcdef' * 65536]
        bcases = gen_pairs(chk, mib)
        _, bout = chk.run_impl('compress', [c for c, _ in bcases], jobs=8)
        for (c, meta), o in zip(bcases, bout):
            reps, dump = split_run(o)
            got = resp_bulk_values(reps[-1]) if reps else []
            idx = {'GET': 0, 'GETSET': 0, 'MGET1': 0, 'MGET3': 1}[meta['r']]
            nbig += 1
            chk.count(c[:200] + str(nbig), meta['s'] != 'd')
            if len(got) <= idx or got[idx] != hx(meta['v']):
                nfail += 1
                chk.violation({'kind': 'monitor', 'case': c[:300] + '...(1 MiB value)', 'what': '1 MiB value written by %s not returned byte-identical by %s under %s' % (meta['w'], meta['r'], meta['s'])})
    chk.cov['traces_validated_against_impl'] = len(cases) - len(disagreements)
    chk.sub('distribution', kinds=hist, values=len(vals) + len(bigs), value_sizes=sorted(set(len(v) for v in vals + bigs)), mib_pairs=nbig,
            names_classified=len(name_cases), exhaustive_names='every name of docs/command_table.json x 3 letter cases + boundary names')
    chk.sub('summary', monitor_failures=nfail, disagreements=len(disagreements))
    if disagreements and not nfail:
        chk.violation({'kind': 'correspondence', 'correspondence': 'Model/Compress.v (exec / compress_cmd / decompress_reply / cmd_type / parse_strategy) vs proxy/compress.rs, reply.rs, executor.rs, command.rs, config.rs',
                       'first': disagreements[0], 'count': len(disagreements),
                       'search': 'the property monitors were evaluated on all %d implementation outputs incl. the disagreeing ones: no property failure' % len(cases)},
                      no_input=True)


def replay(data):
    chk = vlib.Check('C20', 'quick', 0)
    c = data.get('case') or (data.get('first') or {}).get('case')
    if not c:
        print(data); return 0
    chk.build_impl('compress')
    _, impl = chk.run_impl('compress', [c]); _, model = chk.run_model('compress', [c])
    print('case :', c[:3000]); print('impl :', [x[:3000] for x in impl]); print('model:', [x[:3000] for x in model])
    same = impl == model
    print('agree:', same)
    return 0 if same and data.get('kind') != 'monitor' else 1
