"""C13 Broker state loss is recoverable by epoch recovery (store level).
Proof: coq/Props/C13.v over Model/Broker.v (recover_epoch, step, run, view_proxy); proofs in coq/Proofs/BrokerEpochMain.v on top
of the C04 development; service layer / restart from the meta file: coq/Proofs/BrokerSvc.v.
Correspondence and monitors: checks/broker_common.py + harness/broker + harness/brokersvc (real HTTP service, meta file, restart)."""
import broker_common as bc

MANIFEST = {
  'text': 'Theorems about Model/Broker.v: C13_recovered_epoch (for EVERY store s - the snapshot the broker restarted from, i.e. any crash point - and every m: after '
          'recover_service s m = recover_epoch s (m+1+1), which is how service.rs recover_epoch (max_epoch + 1) and storage.rs recover_epoch (+ 1) compose before '
          'store.rs recover_epoch, every served proxy view under every migration limit and the global epoch are > m); C13_recovered_epoch_general (same for any '
          'argument e > m); C13_stays_above (+ _general: if s satisfies epoch_inv, the same holds after any Restore-free operation list applied to the recovered '
          'store; by the C04 relation); C13_snapshot_inv (every reachable snapshot satisfies epoch_inv). '
          'The model is tied to the code by the shared broker histories (recover / forcebump / restore operations included) run on the real MetaStore and the '
          'extracted model with the store text and all views compared after every operation; the C13 monitor checks on the real views after every recover e that '
          'every served epoch is >= e and > the previous global epoch. The service composition is executed too: `svcrecover m` restarts a real MemBrokerService from the '
          'current store as its snapshot (MemBrokerService::new restores it), runs hook H4 recover_epoch_with_max(m) (the production statement '
          'self.storage.recover_epoch(max_epoch + 1) without the TCP fetch) and reads the store back; the model runs recover_epoch (m+2); the monitor demands every '
          'served epoch and the global epoch to be > m. The production body is pinned textually. '
          'SERVICE LAYER / restart from the meta file (coq/Proofs/BrokerSvc.v over (memory, meta file) pairs): C13_service_restart_is_file (the restart the code performs - '
          'MetaStore::new(ordered).restore(loaded file) - is always accepted and yields exactly the file), C13_service_restarts_are_identity (+ _init: under the contract '
          '"file := memory after every call" restarts inserted ANYWHERE in a history change nothing: final memory = run of the history without the restarts, file = memory), '
          'C13_service_handlers_meet_contract (the handlers as written - handler_persists mirrors which handler reaches trigger_update() for which reply - equal the contract '
          'on every call that is persisted or leaves the store unchanged) and C13_service_stale_witness (that premise is needed on the unchanged tree: refused migrate_slots). '
          'Tied to the code by harness/brokersvc (real run_server + MemBrokerService + JsonFileStorage, op svcrestart; see C18 text): after every request file = memory, after '
          'every restart store = store before, model = service with the restarts removed.',
  'note': 'Trusted: Coq kernel (closed under the global context), extraction + OCaml driver, harness/broker, hook H1. '
          'PARTIAL: fetch_max_epoch over TCP, '
          'unreachable proxies holding larger epochs, proxies registered after the snapshot (not polled) and u64 overflow of max_epoch + 2 are outside the model - '
          'the hypothesis "m is the largest epoch held by any proxy" is exactly what those would break. Re-convergence of the proxies (C13_reconverge of the design) '
          'belongs to the control-plane model and is not part of these theorems. '
          'Service layer: trusted harness/brokersvc; known class refused-migration-call-burns-global-epoch (file one global epoch behind after a refused migrate / scale-down; '
          'a restart then takes the global epoch, i.e. the epoch served to free proxies, back by one) and the non-persisted calls auto-scale-refused, PUT /epoch/recovery, '
          'GET /failures pruning are replayed as observations on every run and are outside the gating histories (proposed repair: work/fix_service_persist.diff).',
  'technique': 'Coq proof over a hand-written model + differential correspondence check against the real code',
}


def pins():
    import re
    svc = open('/repo/src/broker/service.rs').read()
    sto = open('/repo/src/broker/storage.rs').read()
    m = re.search(r'pub async fn recover_epoch\(&self\) -> Result<Vec<String>, MetaStoreError> \{(.*?)\n    \}', svc, re.S)
    body = m.group(1) if m else ''
    probs = []
    if 'fetch_max_epoch(proxy_addresses)' not in body or 'self.storage.recover_epoch(max_epoch + 1).await?' not in body:
        probs.append('service.rs recover_epoch no longer reads: fetch_max_epoch(..); self.storage.recover_epoch(max_epoch + 1)')
    if 'self.store.write().recover_epoch(exsting_largest_epoch + 1);' not in sto:
        probs.append('storage.rs MemoryStorage::recover_epoch no longer calls store.recover_epoch(exsting_largest_epoch + 1)')
    return probs


def scenarios():
    base = 'H 0 ; ' + ' ; '.join('addproxy %d %d -' % (i, 10 + (i % 3)) for i in range(1, 9))
    return [base + ' ; addcluster 1 4 1 ? ; addnodes 1 4 ? ; migrate 1 ; svcrecover 100 ; commitnth 1 0 1 ; svcrecover 3 ; replace 1 0 ? ; svcrecover 102 ; svcrecover 0',
            base + ' ; addcluster 1 8 1 ? ; forcebump 77 ; restore 9 ; svcrecover 77 ; svcrecover 78 ; rmproxy 8 ; addproxy 8 10 -']


def run(chk):
    st = bc.standard_run(chk, 'C13', extra_histories=scenarios())
    if st is not None:
        for p in pins():
            chk.violation({'kind': 'correspondence', 'correspondence': 'production recover_epoch body vs hook H4 / Coq recover_service', 'detail': p}, no_input=True)
        # re-convergence of the REAL proxies after a state loss that changed cluster membership: scenarios of the ctrl group (checks/C07.py,
        # harness/ctrl: real coordinator rounds + real MetaStore + real proxies), model side = Props/C07.v C13_reconverge(_broker)
        import C07
        C07.run_membership_recovery(chk)


def replay(data):
    if data.get('harness') == 'ctrl':
        import C07
        return C07.replay(data)
    return bc.replay('C13', data)
