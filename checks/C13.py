"""C13 Broker state loss is recoverable by epoch recovery (store level).
Proof: coq/Props/C13.v over Model/Broker.v (recover_epoch, step, run, view_proxy); proofs in coq/Proofs/BrokerEpochMain.v on top
of the C04 development.  Correspondence and monitors: checks/broker_common.py + harness/broker."""
import broker_common as bc

MANIFEST = {
  'text': 'Theorems about Model/Broker.v: C13_recovered_epoch (for EVERY store s - the snapshot the broker restarted from, i.e. any crash point - and every m: after '
          'recover_service s m = recover_epoch s (m+1+1), which is how service.rs recover_epoch (max_epoch + 1) and storage.rs recover_epoch (+ 1) compose before '
          'store.rs recover_epoch, every served proxy view under every migration limit and the global epoch are > m); C13_recovered_epoch_general (same for any '
          'argument e > m); C13_stays_above (+ _general: if s satisfies epoch_inv, the same holds after any Restore-free operation list applied to the recovered '
          'store; by the C04 relation); C13_snapshot_inv (every reachable snapshot satisfies epoch_inv). '
          'The model is tied to the code by the shared broker histories (recover / forcebump / restore operations included) run on the real MetaStore and the '
          'extracted model with the store text and all views compared after every operation; the C13 monitor checks on the real views after every recover e that '
          'every served epoch is >= e and > the previous global epoch.',
  'note': 'Trusted: Coq kernel (closed under the global context), extraction + OCaml driver, harness/broker, hook H1. '
          'PARTIAL (store level only): the service/storage composition (max_epoch + 1, + 1) is read from service.rs:680 and storage.rs:334 and restated as the '
          'Coq definition recover_service, it is not executed by this check (the harness calls MetaStore::recover_epoch directly); fetch_max_epoch over TCP, '
          'unreachable proxies holding larger epochs, proxies registered after the snapshot (not polled) and u64 overflow of max_epoch + 2 are outside the model - '
          'the hypothesis "m is the largest epoch held by any proxy" is exactly what those would break. Re-convergence of the proxies (C13_reconverge of the design) '
          'belongs to the control-plane model and is not part of these theorems.',
  'technique': 'Coq proof over a hand-written model + differential correspondence check against the real code',
}


def run(chk): bc.standard_run(chk, 'C13')


def replay(data): return bc.replay('C13', data)
