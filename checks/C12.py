import broker_common as bc
MANIFEST = {'text': 'accounting invariant of the broker model preserved by every operation (work in progress: further theorems are added below)',
            'note': 'in progress', 'technique': 'Coq proof over a hand-written model + differential correspondence check against the real code'}
def run(chk): bc.standard_run(chk, 'C12')
def replay(data): return bc.replay('C12', data)
