import broker_common as bc
MANIFEST = {
    'text': ('Coq theorems over Model/Broker.v (step / run, every operation of the broker): '
             'C12_accounting / _explicit / _closed / C12_complement: from an empty store, after ANY operation history (restored snapshots must '
             'satisfy the invariant, or be reachable themselves in the _closed variant) every chunk proxy of every cluster is registered and tagged '
             'with that cluster and the chunk records its host and node addresses, every tagged proxy occurs in its cluster\'s chunks, the list of '
             'all chunk positions has no duplicate, tagged/untagged is the exact complement of membership, and the model of check_metadata returns true; '
             'C12_refusal_atomic: OAddCluster/OAutoAddNodes/OAutoScaleUp that do not answer ok leave the store unchanged; '
             'C12_two_hosts (+ _autochange): in host-aware mode every chunk appended by a successful creation/scale-out has ck_host0 <> ck_host1, for '
             'every oracle choice list the model accepts; '
             'C12_no_panic / C12_allocator_no_panic / C12_alloc_progress / C12_link_entry: no expect() of generate_free_chunks/allocate_chunk can fire '
             '(progress invariant 2*max <= sum+1 /\\ 2*pairs_left <= sum on the trimmed per-host counts; link table covers every pair of hosts with a '
             'free proxy), for any store and any request; C12_replace_no_panic: replace_failed_proxy never panics under the invariant; '
             'C12_allocated_registered: both allocators return pairwise distinct, registered, untagged proxies (the get-back expect()s are unreachable); '
             'C12_replacement_host / _chunk / C12_partner_host_sound: a successful replacement is a free healthy proxy and is NOT on the surviving partner\'s host whenever some other '
             'host has a free healthy proxy. '
             'Correspondence: seeded random operation histories (plus a hand-written corpus) run on the real MetaStore and on the extracted model; '
             'after every operation the canonical store text and all cluster/proxy views are compared, and the monitors of harness/broker/src/mon.rs '
             '(labels C12, C12repl: real check_metadata, accounting predicate, two-host and replacement-host predicates, catch_unwind) run on the real state.'),
    'note': ('Trusted base: Coq kernel; the hand-written model Model/Broker.v and its correspondence to src/broker/{store,update,migrate,query}.rs '
             '(differential, not proved); hash-order dependent allocator choices are an oracle read from the implementation and validated by the '
             'model (alloc_one, generate_new_free_proxy) - the theorems quantify over every choice the model accepts. '
             'Scope: C12_two_hosts and C12_replacement_host are for st_ordered = false (ordered-proxy mode pairs consecutive indices by design and '
             'never replaces). C12_refusal_atomic covers the three allocation operations only: migrate_slots / scale-down bump the global epoch before '
             'failing and OAutoChange releases free chunks before its scale-up can be refused (both as in the code). C12_no_panic covers the '
             'allocator and replace_failed_proxy; panics of the migration planners (remove_slots_from_src*, assign_dst_slots) and of the views belong '
             'to C10/C01. ORestore: the snapshot must satisfy the invariant (restore copies it verbatim, as the code does). '
             'All theorems: Print Assumptions = Closed under the global context.'),
    'technique': 'Coq proof over a hand-written model + differential correspondence check against the real code'}
def run(chk): bc.standard_run(chk, 'C12')
def replay(data): return bc.replay('C12', data)
