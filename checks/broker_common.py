"""Shared by the broker properties C01 C04 C06 C10 C12 C13 C18: history generator, impl/model pipeline, monitor parsing."""
import vlib, random, re

TRUSTED = ['Coq 8.16.1 kernel (coqc; coqchk in the thorough tier); Print Assumptions of every theorem: closed under the global context',
           'extraction with ExtrOcamlBasic only + ocaml/vio.ml, d_broker.ml, driver_lib.ml',
           'harness/broker (dom.rs: drives the real MetaStore through hook H1 and prints canonical state/view text; mon.rs: the properties '
           'evaluated on the real views, independent of the model)',
           'oracle for hash-order dependent allocator choices: read from the implementation result, validated by the model (alloc_one, generate_new_free_proxy)',
           'identifiers are numbers on the model side (proxy p<i>:1, nodes n<2i>:1 n<2i+1>:1, hosts h<j>, clusters c<k>); config reduced to one field (migration_scan_count)',
           'clock: report ages are multiples of 1000 s so that the real clock drift during a run cannot cross a ttl boundary',
           'service layer (C18 C13 C04 C12): harness/brokersvc (svc.rs: real run_server + MemBrokerService + JsonFileStorage over loopback HTTP; repeats the meta-file load of '
           'src/bin/mem_broker.rs main(); includes harness/broker dom.rs / mon.rs); restarts are removed from the history given to the model (C13_service_restarts_are_identity)']


def gen_history(rng, tier):
    ordered = rng.random() < 0.12
    nhosts = rng.randint(2, 6)
    layout = rng.choice(['uniform', 'skewed', 'odd'])
    per = []
    for h in range(nhosts):
        if layout == 'uniform': per.append(rng.randint(2, 4))
        elif layout == 'skewed': per.append(rng.choice([1, 1, 2, 5, 6]))
        else: per.append(rng.choice([1, 3, 3, 2]))
    ops = []
    proxies = []
    pid = 1
    hosts = {}
    for h, k in enumerate(per):
        for _ in range(k):
            hosts[pid] = 10 + h
            proxies.append(pid)
            pid += 1
    if ordered:
        order = proxies[:]
    else:
        order = proxies[:]
        rng.shuffle(order)
    for i, p in enumerate(order):
        host = '-' if rng.random() < 0.1 else str(hosts[p])
        ops.append('addproxy %d %s %s' % (p, host, str(i) if (ordered or rng.random() < 0.2) else '-'))
    clusters = [1] if (ordered or rng.random() < 0.7) else [1, 2]
    total = len(proxies)
    for c in clusters:
        k = rng.choice([4, 4, 8, 8, 12, 16])
        k = min(k, max(4, (total // len(clusters)) * 2 // 4 * 4))
        ops.append('addcluster %d %d %d ?' % (c, k, rng.randint(1, 9)))
    if not ordered and rng.random() < 0.15:
        # use up every proxy, then force same-host replacements and allocate again with fresh spares on the largest host
        big = max(set(hosts.values()), key=lambda h: sum(1 for q in proxies if hosts[q] == h))
        for c in clusters[:1]:
            ops.append('addnodes %d %d ?' % (c, 4 * 8))
            ops.append('addnodes %d %d ?' % (c, 4))
        for k in range(rng.randint(1, 3)):
            q = 70 + k
            ops.append('addproxy %d %d -' % (q, big)); hosts[q] = big; proxies.append(q)
            ops.append('replace %d 0 ?' % rng.choice(proxies[:max(1, len(proxies) - 4)]))
        for k in range(rng.randint(2, 5)):
            q = 80 + k
            hq = big if k < 3 else rng.choice(list(set(hosts.values())))
            ops.append('addproxy %d %d -' % (q, hq)); hosts[q] = hq; proxies.append(q)
        ops.append('addnodes %d 4 ?' % clusters[0])
        ops.append('addcluster 3 4 1 ?')
    n = rng.randint(10, 45 if tier == 'quick' else 70)
    epochs_seen = list(range(1, 30))
    for _ in range(n):
        c = rng.choice(clusters)
        x = rng.random()
        p = rng.choice(proxies)
        if x < 0.10:
            ops.append('addnodes %d %d ?' % (c, rng.choice([4, 4, 8, 2, 0])))
            ops.append('migrate %d' % c)
        elif x < 0.16:
            ops.append('autochange %d %d ?' % (c, rng.choice([4, 8, 12, 16, 20, 6])))
            if rng.random() < 0.8:
                ops.append('autoscaleout %d %d' % (c, rng.choice([8, 12, 16, 20])))
        elif x < 0.21:
            ops.append('scaledown %d %d' % (c, rng.choice([4, 8, 12, 0, 6])))
        elif x < 0.42:
            ops.append('commitnth %d %d %d' % (c, rng.randint(0, 5), rng.random() < 0.6))
        elif x < 0.45:
            # a delayed duplicate of an older commit: same ranges, older epoch
            ops.append('commitstale %d %d %d %d' % (c, rng.randint(0, 5), rng.random() < 0.6, rng.choice([1, 1, 2, 5, 100])))
        elif x < 0.60:
            ops.append('replace %d %d ?' % (p, rng.randint(0, 2)))
            y = rng.random()
            if y < 0.25:
                ops.append('replace %d %d ?' % (p, rng.randint(0, 2)))
            elif y < 0.33:
                ops.append('replacemember %d %d %d ?' % (c, rng.randint(0, 7), rng.randint(0, 2)))
                for _ in range(rng.randint(1, 3)):
                    ops.append('replacelast %d ?' % rng.randint(0, 2))
                if rng.random() < 0.5: ops.append('balance %d' % c)
            elif y < 0.40:
                # retry after a spare was registered (the first call may have failed for lack of resources)
                q = 60 + rng.randint(0, 5)
                ops.append('addproxy %d %d %s' % (q, 10 + rng.randint(0, 5), str(q - 1) if ordered else '-'))
                ops.append('replace %d %d ?' % (p, rng.randint(0, 2)))
        elif x < 0.65:
            ops.append('balance %d' % c)
        elif x < 0.69:
            ops.append('config %d %d %d' % (c, rng.random() < 0.8, rng.randint(1, 50)))
        elif x < 0.75:
            y = rng.random()
            if y < 0.75:
                ops.append('addfail %d %d %d' % (p, rng.randint(1, 4), rng.choice([0, 1000, 2000, 5000, -1000])))
            elif y < 0.9:
                # reports for an address that is not registered when they arrive (just removed, or never seen), then registration
                q = rng.choice([p, 90 + rng.randint(0, 3)])
                ops.append('rmproxy %d' % q)
                for rep in range(rng.randint(1, 3)):
                    ops.append('addfail %d %d %d' % (q, rep + 1, rng.choice([0, 1000])))
                ops.append('addproxy %d %s %s' % (q, hosts.get(q, 10), str(q - 1) if ordered else '-'))
                ops.append('getfail %d %d' % (rng.choice([2000, 9000]), rng.randint(1, 3)))
            else:
                ops.append('addfail %d %d %d' % (90 + rng.randint(0, 3), rng.randint(1, 4), rng.choice([0, 1000])))
        elif x < 0.80:
            ops.append('%s %d %d' % (rng.choice(['getfail', 'getfail', 'cleanfail']), rng.choice([0, 1000, 2000, 3000, 9000]), rng.randint(1, 4)))
        elif x < 0.84:
            ops.append('addproxy %d %s %s' % (p, hosts[p], str(p - 1) if ordered else '-'))
        elif x < 0.87:
            ops.append('rmproxy %d' % p)
        elif x < 0.90:
            ops.append('delfree %d' % c)
        elif x < 0.92:
            ops.append('migrate %d' % c)
        elif x < 0.94:
            ops.append('commit %d %d %s %d %s' % (c, rng.choice(epochs_seen), rng.choice('mmin'), rng.random() < 0.5,
                                                 rng.choice(['0-100', '8192-16383', '4096-8191', '-', '12288-16383', '0-4095,8192-12287'])))
        elif x < 0.955:
            if rng.random() < 0.5:
                ops.append('recover %d' % rng.choice([0, 5, 50, 500]))
            else:
                ops.append('svcrecover %d' % rng.choice([0, 7, 40, 41, 400]))
        elif x < 0.97:
            ops.append('forcebump %d' % rng.choice([3, 30, 300, 3000]))
        elif x < 0.985:
            ops.append('restore %d' % rng.randint(0, max(1, len(ops) - 1)))
        elif x < 0.993:
            ops.append('rmcluster %d' % c)
            ops.append('addcluster %d %d %d ?' % (c, rng.choice([4, 8]), rng.randint(1, 9)))
        else:
            ops.append('scaleup %d %d ?' % (c, rng.choice([8, 12, 16])))
    return 'H %d ; ' % ordered + ' ; '.join(ops)


def scenario_histories():
    """hand-written corpus: always runs first"""
    base = 'H 0 ; ' + ' ; '.join('addproxy %d %d -' % (i, 10 + (i % 3)) for i in range(1, 13))
    hs = [
        base + ' ; addcluster 1 4 1 ? ; addnodes 1 4 ? ; migrate 1 ; commitnth 1 0 0 ; commitnth 1 0 0 ; scaledown 1 4 ; commitnth 1 1 1 ; commitnth 1 0 1',
        base + ' ; addcluster 1 8 1 ? ; replace 1 0 ? ; replace 2 0 ? ; replace 3 1 ? ; replace 4 2 ? ; balance 1 ; replace 1 0 ?',
        # second failover of one chunk during a migration (FirstChunkMaster -> SecondChunkMaster)
        base + ' ; addcluster 1 4 1 ? ; addnodes 1 4 ? ; migrate 1 ; replace 1 0 ? ; replace 2 0 ? ; replace 3 0 ? ; replace 4 0 ? ; replace 5 0 ? ; replace 6 0 ?'
             + ' ; replace 7 0 ? ; replace 8 0 ? ; replace 1 0 ? ; replace 2 0 ? ; commitnth 1 0 1 ; commitnth 1 0 1',
        base + ' ; addcluster 1 4 1 ? ; addfail 1 1 0 ; addfail 1 1 0 ; addfail 1 2 1000 ; getfail 2000 2 ; getfail 1000 2 ; getfail 1000 1 ; addproxy 1 10 - ; getfail 9000 1',
        base + ' ; addcluster 1 8 1 ? ; recover 100 ; forcebump 50 ; forcebump 500 ; restore 3 ; restore 14 ; recover 0',
        # skewed hosts A:8 B:4 C:4 fully used; the only spare is on A, so a failed B proxy is (legitimately) replaced on its partner's host,
        # which creates a same-host chunk (self link); later spares make A the largest host again and a scale-out allocates
        'H 0 ; ' + ' ; '.join('addproxy %d %d -' % (i, 10 if i <= 8 else (11 if i <= 12 else 12)) for i in range(1, 17))
        + ' ; addcluster 1 32 1 ? ; addproxy 17 10 - ; replace 9 0 ? ; addproxy 18 10 - ; addproxy 19 10 - ; addproxy 20 11 - ; addproxy 21 12 - ; addnodes 1 4 ?'
        + ' ; addproxy 22 10 - ; addproxy 23 10 - ; addproxy 24 12 - ; addproxy 25 11 - ; addcluster 2 4 1 ?',
        # a replacement proxy (holding only replicas) fails in turn, several times; later allocations must not pick the failed ones
        base + ' ; addcluster 1 4 1 ? ; replacemember 1 0 0 ? ; replacelast 0 ? ; replacelast 0 ? ; replacemember 1 1 0 ? ; replacelast 0 ? ; replacelast 0 ? ; replacelast 1 ? ; replacelast 0 ? ; replacelast 0 ? ; replacelast 0 ?'
             + ' ; replacelast 0 ? ; replacelast 0 ? ; balance 1 ; addnodes 1 4 ? ; addcluster 2 4 1 ? ; replace 3 0 ? ; balance 1',
        # scale out, commit, scale back in: the same ranges migrate back under a newer epoch; a delayed duplicate of the old commit must be refused
        base + ' ; addcluster 1 4 1 ? ; addnodes 1 4 ? ; migrate 1 ; commitnth 1 0 0 ; commitnth 1 0 0 ; scaledown 1 4 ; commitstale 1 0 0 1 ; commitstale 1 1 0 2 ; commitstale 1 0 1 7 ; commitnth 1 0 1 ; commitstale 1 0 1 1 ; commitnth 1 0 1',
        # failover without a spare, then a spare is registered and the failover is retried
        'H 0 ; addproxy 1 10 - ; addproxy 2 11 - ; addcluster 1 4 1 ? ; replace 1 0 ? ; addproxy 3 12 - ; replace 1 0 ? ; replace 2 1 ? ; addproxy 4 10 - ; replace 2 2 ?',
        # scale-in freeing two chunks; an earlier source chunk drains first and a commit asks to clear free nodes mid-migration
        base + ' ; addcluster 1 12 1 ? ; scaledown 1 4 ; commitnth 1 0 1 ; commitnth 1 0 1 ; delfree 1 ; commitnth 1 0 1 ; commitnth 1 0 1 ; delfree 1',
        # reports arriving for unregistered addresses (removed / never registered), then registration and a query
        base + ' ; rmproxy 12 ; addfail 12 1 0 ; addfail 12 2 0 ; addproxy 12 10 - ; getfail 9000 2 ; addfail 50 1 0 ; addfail 50 2 1000 ; getfail 9000 1 ; addproxy 50 11 - ; getfail 9000 2',
        'H 1 ; ' + ' ; '.join('addproxy %d %d %d' % (i, 10 + (i % 2), i - 1) for i in range(1, 9)) + ' ; addcluster 1 4 2 ? ; addnodes 1 4 ? ; migrate 1 ; replace 1 0 ? ; commitnth 1 0 1 ; commitnth 1 0 1',
        # skewed hosts: one host holds most proxies
        'H 0 ; ' + ' ; '.join('addproxy %d %d -' % (i, 10 if i < 7 else 11 + (i % 2)) for i in range(1, 11)) + ' ; addcluster 1 8 1 ? ; addcluster 2 4 1 ? ; addnodes 1 4 ?',
    ]
    return hs


LABELS = {'C01': ('C01',), 'C04': ('C04',), 'C06': ('C06', 'C06epoch', 'C01'), 'C10': ('C10', 'C01'), 'C12': ('C12', 'C12repl'),
          'C13': ('C13',), 'C18': ('C18',)}


def run_histories(chk, histories, jobs=8):
    """returns list of dicts per history: ops (resolved), impl segments, model segments"""
    rc, impl = chk.run_impl('broker', histories, jobs=jobs, timeout=14000)
    resolved, impl_out = [], []
    for i, h in enumerate(histories):
        line = impl[i] if i < len(impl) else ''
        if ' ## O ' in line and line.startswith('R '):
            r, o = line.split(' ## O ', 1)
            resolved.append(r[2:])
            impl_out.append([s.strip() for s in o.split(' ; ')])
        else:
            resolved.append(h.replace('?', '-'))
            impl_out.append(['harness-output-missing: ' + line[:200]])
    rc2, model = chk.run_model('broker', resolved, jobs=jobs, timeout=14000)
    out = []
    for i, h in enumerate(histories):
        m = model[i] if i < len(model) else ''
        mseg = [s.strip() for s in m[2:].split(' ; ')] if m.startswith('O ') else ['model-output-missing: ' + m[:200]]
        out.append({'history': h, 'resolved': resolved[i], 'impl': impl_out[i], 'model': mseg})
    return out


def analyse(chk, prop, results):
    """monitor failures for this property -> violations; first disagreement -> correspondence violation.
    Returns statistics."""
    labels = LABELS[prop]
    stats = {'histories': len(results), 'ops': 0, 'op_kinds': {}, 'results': {}, 'disagreements': 0, 'monitor_failures': 0,
             'failover_ok': 0, 'commits_ok': 0}
    first_dis = None
    for r in results:
        ops = [s.strip() for s in r['resolved'].split(' ; ')][1:]
        nontrivial = False
        diverged = False
        for j, seg in enumerate(r['impl']):
            opn = ops[j] if j < len(ops) else '?'
            kind = opn.split()[0] if opn.split() else '?'
            stats['ops'] += 1
            stats['op_kinds'][kind] = stats['op_kinds'].get(kind, 0) + 1
            toks = seg.split()
            res = toks[0] if toks else '?'
            stats['results'][res.split(':')[0] + (':' + res.split(':')[1] if res.startswith('err:') else '')] = \
                stats['results'].get(res.split(':')[0] + (':' + res.split(':')[1] if res.startswith('err:') else ''), 0) + 1
            if res == 'err:MIGRATION_RUNNING': stats['refused_while_migrating'] = stats.get('refused_while_migrating', 0) + 1
            if kind == 'replace' and res.startswith('repl'): stats['failover_ok'] += 1; nontrivial = True
            if kind in ('commit', 'commitnth') and res == 'ok': stats['commits_ok'] += 1; nontrivial = True
            mon = toks[3] if len(toks) > 3 else 'm=?'
            if mon != 'm=ok':
                for f in mon[2:].split('|'):
                    lab = f.split(':')[0]
                    if lab in labels or lab == 'ANY':   # a panicking operation or view fails every broker property
                        stats['monitor_failures'] += 1
                        known = None
                        if lab == 'C12repl': known = 'replacement-on-partner-host'
                        chk.violation({'kind': 'monitor', 'what': f.replace('_', ' '), 'history': ' ; '.join(['H ' + r['resolved'].split(' ; ')[0][2:]] + ops[:j + 1]),
                                       'failing_op_index': j, 'failing_op': opn, 'known_id': known})
            mseg = r['model'][j] if j < len(r['model']) else '<missing>'
            if seg.split()[:3] != mseg.split()[:3] and first_dis is None:
                first_dis = {'history': ' ; '.join(r['resolved'].split(' ; ')[:j + 2]), 'op_index': j, 'op': opn, 'impl': seg, 'model': mseg}
            if seg.split()[:3] != mseg.split()[:3]:
                if not diverged: stats['disagreements'] += 1
                diverged = True      # keep evaluating the monitors on the implementation's later states
                continue
            mmon = mseg.split()[3] if len(mseg.split()) > 3 else 'm=?'
            if mmon != 'm=ok':
                chk.violation({'kind': 'model-monitor', 'what': 'extracted predicate false on the model state: ' + mmon, 'history': r['resolved'], 'op_index': j}, no_input=True)
        chk.count(r['history'], nontrivial)
    if first_dis and not stats['monitor_failures']:
        chk.violation(dict(first_dis, kind='correspondence', correspondence='Model/Broker.v step / view_cluster / view_proxy vs the real MetaStore',
                           search='all %d monitors of %s evaluated on every implementation state of %d histories: no property failure' % (stats['ops'], prop, len(results))),
                      no_input=True)
    chk.cov['traces_validated_against_impl'] = len(results) - stats['disagreements']
    return stats


def standard_run(chk, prop, extra_histories=(), nquick=250, nthorough=4000):
    ok = vlib.standard_proof_phase(chk, TRUSTED, 'broker')
    chk.cov['rule'] = ('cases = operation histories on the broker (corpus scenarios first, then seeded random histories of 15-90 operations over 2-6 hosts, '
                       'uniform/skewed/odd layouts, ordered mode 12%); after EVERY operation the canonical store text and every cluster view and proxy view under '
                       'migration limits 0,1,2 are compared between model and implementation (by hash) and the property monitors run on the real views; '
                       'non-trivial = distinct history containing at least one successful commit or failover')
    if not ok:
        return None
    n = nquick if chk.tier == 'quick' else nthorough
    hs = scenario_histories() + list(extra_histories) + [gen_history(chk.rng, chk.tier) for _ in range(n)]
    results = run_histories(chk, hs, jobs=14)
    stats = analyse(chk, prop, results)
    chk.sub('distribution', **stats)
    for r in results[:3]:
        chk.sample({'history': r['resolved'][:600], 'impl_tail': r['impl'][-1], 'model_tail': r['model'][-1]})
    if prop in SERVICE_PROPS:
        stats['service'] = service_histories(chk, prop)
    return stats


def replay(prop, data):
    chk = vlib.Check(prop, 'quick', 0)
    h = data.get('history')
    if not h:
        print(data); return 0
    if data.get('service'):
        return service_replay(chk, prop, h)
    chk.build_impl('broker'); chk.build_models('broker')
    res = run_histories(chk, [h if h.startswith('H ') else 'H 0 ; ' + h], jobs=1)[0]
    ops = res['resolved'].split(' ; ')[1:]
    bad = 0
    for j, seg in enumerate(res['impl']):
        m = res['model'][j] if j < len(res['model']) else '<missing>'
        flag = '' if seg.split()[:3] == m.split()[:3] else '   <-- model differs: ' + m
        print('%-40s impl: %s%s' % (ops[j] if j < len(ops) else '?', seg, flag))
        mon = seg.split()[3] if len(seg.split()) > 3 else ''
        if any(f.split(':')[0] in LABELS[prop] for f in mon[2:].split('|')): bad = 1
    return bad


# ---------------------------------------------------------------------------------------------------------------------
# Service layer (src/broker/service.rs): the same histories through the real HTTP server + meta file persistence + restart.
# harness/brokersvc drives `run_server` + MemBrokerService{auto_update_meta_file} + JsonFileStorage; op `svcrestart` stops the
# server and starts a new one from the meta file (recover_from_meta_file = true, as src/bin/mem_broker.rs does).
# Model side: the extracted broker model on the resolved history WITHOUT the restarts (coq/Proofs/BrokerSvc.v: svc_run_strip:
# a restart is the identity on service states whose file equals the memory, and every svc_step re-establishes that).
# Demanded after every op: result + store text + all views equal the model's; file store == in-memory store (also after calls
# that return an error); store after a restart == store before it; a re-registered proxy stays clear of reports / failed mark
# until a new report or failover names it (across restarts); every GET view served over HTTP == the store's own view.
#
# Where the service is not the bare MetaStore call, the harness writes what the service did into the resolved op (see the header of
# harness/brokersvc/src/svc.rs): cluster config = the service's default_cluster_config, failure ttl / quorum / migration limit =
# MemBrokerConfig, commit always with clear_free_nodes = false, reports stamped by the broker's clock (age 0 only), add_failure's
# bool dropped (result `ok`), scale_lock never contended (sequential requests).
# Not in the gating histories (recorded as observations, see SERVICE_OBSERVED): API calls that change the in-memory store without
# trigger_update() on the unchanged tree.
SERVICE_PROPS = ('C18', 'C13', 'C04', 'C12')
SERVICE_TTL = (2000, 9000)        # seconds; reports of a run are seconds old, so nothing expires (expiry: store-level histories)


def _reg(n, nhosts, ordered=False):
    return ['addproxy %d %d %s' % (i, 10 + (i % nhosts), str(i - 1) if ordered else '-') for i in range(1, n + 1)]


def service_scenarios():
    """directed service histories (<= 25 ops): always run"""
    hs = [
        # reports reach the quorum, the STILL registered proxy registers again (AlreadyExisted clears them), restart: they must stay cleared
        ['H 0'] + _reg(4, 3) + ['addcluster 1 4 3 ?', 'addfail 1 1 0', 'addfail 1 2 0', 'getfail 2000 2', 'addproxy 1 10 -', 'getfail 2000 2',
                                'svcrestart', 'getfail 2000 2', 'addfail 1 1 0', 'svcrestart', 'getfail 2000 2', 'addfail 1 2 0', 'getfail 2000 2',
                                'svcrestart', 'getfail 2000 2'],
        # a free proxy: reported, re-registered, restart; the failed mark (failover without a spare) cleared by re-registration, restart, allocation
        ['H 0'] + _reg(5, 2) + ['addfail 5 1 0', 'getfail 9000 1', 'addproxy 5 11 -', 'svcrestart', 'getfail 9000 1', 'addcluster 1 4 2 ?', 'replace 1 1 ?',
                                'replace 2 1 ?', 'svcrestart', 'addproxy 2 10 -', 'svcrestart', 'getfail 9000 1', 'addproxy 1 11 -', 'svcrestart', 'balance 1',
                                'svcrestart', 'addnodes 1 4 ?', 'svcrestart'],
        # every refused call followed by a restart (refusals that have already changed the store included: replace without a spare)
        ['H 0'] + _reg(4, 2) + ['addcluster 1 4 1 ?', 'rmproxy 1', 'svcrestart', 'addcluster 1 4 1 ?', 'svcrestart', 'addcluster 2 4 1 ?', 'svcrestart',
                                'addnodes 1 2 ?', 'svcrestart', 'delfree 1', 'svcrestart', 'replace 1 1 ?', 'svcrestart', 'replace 77 1 ?', 'svcrestart',
                                'config 1 0 5', 'svcrestart', 'forcebump 2', 'svcrestart', 'addproxy 1 10 -', 'svcrestart'],
        ['H 0'] + _reg(4, 2) + ['addcluster 1 4 1 ?', 'commit 1 7 m 0 0-100', 'svcrestart', 'commit 1 7 i 0 -', 'svcrestart',
                                'commitnth 1 0 0', 'svcrestart', 'rmcluster 9', 'svcrestart', 'rmproxy 9', 'svcrestart', 'scaleup 1 4 ?', 'svcrestart',
                                'balance 9', 'svcrestart', 'addfail 9 1 0', 'svcrestart', 'addproxy 9 10 -', 'svcrestart', 'addnodes 9 4 ?', 'svcrestart'],
        # commits, restart in the middle of a migration, scale back in, release
        ['H 0'] + _reg(8, 3) + ['addcluster 1 4 2 ?', 'addnodes 1 4 ?', 'migrate 1', 'svcrestart', 'commitnth 1 0 0', 'commitnth 1 0 0', 'svcrestart',
                                'scaledown 1 4', 'commitnth 1 1 0', 'svcrestart', 'commitstale 1 0 0 1', 'svcrestart', 'commitnth 1 0 0', 'delfree 1', 'svcrestart',
                                'rmcluster 1', 'svcrestart'],
        # forced epochs and config changes, then restart
        ['H 0'] + _reg(4, 2) + ['forcebump 30', 'svcrestart', 'addcluster 1 4 7 ?', 'forcebump 300', 'svcrestart', 'config 1 1 9', 'svcrestart', 'forcebump 300',
                                'svcrestart', 'forcebump 3000', 'config 1 1 11', 'svcrestart', 'rmcluster 1', 'forcebump 3001', 'svcrestart'],
        # ordered mode: missing index (nothing touched), re-registration, restart keeps the ordered flag from the file
        ['H 1'] + _reg(4, 2, True) + ['addcluster 1 4 1 ?', 'addproxy 2 10 -', 'svcrestart', 'addfail 2 1 0', 'addproxy 2 10 1', 'svcrestart', 'getfail 2000 1',
                                      'addcluster 2 4 1 ?', 'svcrestart', 'replace 1 1 ?', 'svcrestart', 'addproxy 1 11 0', 'svcrestart', 'getfail 2000 1'],
        # failover with a spare, reports on the replacement, balance, restart after each
        ['H 0'] + _reg(6, 3) + ['addcluster 1 4 1 ?', 'addfail 1 1 0', 'getfail 2000 1', 'replace 1 1 ?', 'svcrestart', 'replacelast 1 ?', 'svcrestart',
                                'addproxy 1 11 -', 'svcrestart', 'balance 1', 'svcrestart', 'rmproxy 1', 'svcrestart', 'addproxy 1 11 -', 'getfail 2000 1', 'svcrestart'],
    ]
    return [' ; '.join(h) for h in hs]


def gen_service_history(rng):
    """random service history, <= 25 ops; restart after 40% of the steps.  A rough picture of the cluster (node count, pending
    migration) keeps `migrate` / `scaledown` mostly acceptable: a REFUSED one is the known class SERVICE_KNOWN_CLASS, which ends the
    analysed part of a history."""
    ordered = rng.random() < 0.15
    n = rng.randint(5, 8)
    nh = rng.randint(2, 3)
    ttl, q = rng.choice(SERVICE_TTL), rng.randint(1, 2)
    scan = rng.randint(1, 9)
    ops = _reg(n, nh, ordered)
    nodes, pending = 0, 0
    if rng.random() < 0.85:
        ops.append('addcluster 1 4 %d ?' % scan); nodes = 4
    budget = 25 - len(ops)
    while budget > 1:
        p = rng.randint(1, n)
        x = rng.random()
        reg = 'addproxy %d %d %s' % (p, 10 + (p % nh), str(p - 1) if ordered else '-')
        if x < 0.22: new = ['addfail %d %d 0' % (p, rng.randint(1, 3)) for _ in range(rng.randint(1, 2))] + [reg]
        elif x < 0.30: new = ['getfail %d %d' % (ttl, q)]
        elif x < 0.38: new = ['replace %d 1 ?' % p]
        elif x < 0.44: new = [reg]
        elif x < 0.50: new = ['rmproxy %d' % p]
        elif x < 0.60:
            if nodes == 4 and not pending and n >= 6: new = ['addnodes 1 4 ?', 'migrate 1']; nodes, pending = 8, 2
            elif nodes == 8 and not pending: new = ['scaledown 1 4']; pending = 2
            else: new = ['commitnth 1 0 0']; pending = max(0, pending - 1)
        elif x < 0.72: new = ['commitnth 1 %d 0' % rng.randint(0, 3)]; pending = max(0, pending - 1)
        elif x < 0.78: new = ['delfree 1']
        elif x < 0.84: new = ['balance 1']
        elif x < 0.90: new = ['forcebump %d' % rng.choice([3, 30, 300])]
        elif x < 0.94: new = ['config 1 %d %d' % (rng.random() < 0.7, rng.randint(1, 50))]
        elif x < 0.97: new = ['addcluster %d 4 %d ?' % (rng.choice([1, 2]), scan)]
        else: new = ['rmcluster 1', 'addcluster 1 4 %d ?' % scan]; nodes, pending = 4, 0
        if rng.random() < 0.4: new.append('svcrestart')
        if len(new) > budget: break
        ops += new; budget -= len(new)
    if ops[-1] != 'svcrestart': ops.append('svcrestart')
    return 'H %d ; ' % ordered + ' ; '.join(ops)


# KNOWN CLASS on the unchanged tree (found by this phase; witness = SERVICE_OBSERVED[0..1]; proposed repair work/fix_service_persist.diff):
# MetaStoreMigrate::migrate_slots / migrate_slots_to_scale_down take a new global epoch BEFORE they validate the request, and the
# handlers (service.rs migrate_slots, migrate_slots_to_scale_down) skip trigger_update() when the call is refused: memory is one
# global epoch ahead of the meta file, a restart from the file takes the global epoch (= the epoch served to free proxies) back by one.
# Exactly this - refused migrate/scaledown, file and memory equal except for the global epoch number (harness label SVCEPOCH) - is the
# class; the analysed part of a history ends there (the file stays behind until the next accepted call).  Anything else is a violation.
SERVICE_KNOWN_CLASS = {'id': 'refused-migration-call-burns-global-epoch', 'ops': ('migrate', 'scaledown')}


# Inputs on which the UNCHANGED tree changes the in-memory store without updating the meta file (recorded, not gating; DESIGN.md section 13):
SERVICE_OBSERVED = [
    ('refused migrate / scale-down: global epoch taken in memory, meta file one epoch behind, restart takes the epoch back',
     'H 0 ; ' + ' ; '.join(_reg(4, 2)) + ' ; addcluster 1 4 1 ? ; migrate 1 ; svcrestart ; scaledown 1 2 ; svcrestart ; scaledown 9 4 ; svcrestart'),
    ('auto-scale refused after it changed the store',
     'H 0 ; ' + ' ; '.join(_reg(8, 3)) + ' ; addcluster 1 8 1 ? ; scaledown 1 4 ; commitnth 1 0 0 ; commitnth 1 0 0 ; autochange 1 6 ? ; svcrestart'),
    ('epoch recovery is not written to the meta file',
     'H 0 ; ' + ' ; '.join(_reg(4, 2)) + ' ; addcluster 1 4 1 ? ; svcrecover 0 ; svcrestart'),
    ('GET /failures prunes expired reports in memory only',
     'H 0 ; ' + ' ; '.join(_reg(4, 2)) + ' ; addfail 1 1 0 ; getfail 0 1 ; svcrestart ; getfail 0 1'),
]


def _norm_model_res(op, res):
    k = op.split()[0] if op.split() else '?'
    if k == 'addfail' and res.startswith('bool:'): return 'ok'                 # the service drops add_failure's bool
    if k == 'autochange':
        if res in ('scale:noop', 'scale:down'): return 'ok'                       # the ScaleOp is not part of the HTTP reply
        if res == 'scale:out': return 'err:PROXY_NOT_SYNC'                        # the harness' proxy addresses are unreachable
    return res


def run_service(chk, histories, jobs=3):
    """-> list of dicts: history, skipped, ops (resolved, with restarts), segs [{op, impl, model, expect}]"""
    rc, impl = chk.run_impl('brokersvc', histories, jobs=jobs, timeout=3000)
    parsed, model_in = [], []
    for i, h in enumerate(histories):
        line = impl[i] if i < len(impl) else ''
        if line.startswith('R ') and ' ## O ' in line:
            r, o = line.split(' ## O ', 1)
            ops = [x.strip() for x in r[2:].split(' ; ')]
            parsed.append({'history': h, 'header': ops[0], 'ops': ops[1:], 'impl': [x.strip() for x in o.split(' ; ')], 'skipped': None})
            model_in.append(' ; '.join([ops[0]] + [x for x in ops[1:] if x != 'svcrestart']))
        else:
            parsed.append({'history': h, 'header': 'H 0', 'ops': [], 'impl': [], 'skipped': line[:200] or 'harness-output-missing'})
            model_in.append('H 0')
    rc2, model = chk.run_model('broker', model_in, jobs=jobs, timeout=3000)
    for i, pr in enumerate(parsed):
        m = model[i] if i < len(model) else ''
        mseg = [x.strip() for x in m[2:].split(' ; ')] if m.startswith('O ') and len(m) > 2 else []
        segs, j, last = [], 0, None
        for k, seg in enumerate(pr['impl']):
            op = pr['ops'][k] if k < len(pr['ops']) else '?'
            if op == 'svcrestart':
                # model: a restart is the identity (svc_run_strip); before any op the store is the initial one (no model line to compare with)
                segs.append({'op': op, 'impl': seg, 'expect': (['restarted'] + last) if last else None})
            else:
                ms = mseg[j].split() if j < len(mseg) else ['<model-output-missing>']
                j += 1
                exp = [_norm_model_res(op, ms[0])] + ms[1:3]
                last = ms[1:3]
                segs.append({'op': op, 'impl': seg, 'expect': exp, 'model_mon': ms[3] if len(ms) > 3 else 'm=?'})
        pr['segs'] = segs
    return parsed


def service_analyse(chk, prop, parsed, report=True):
    labels = set(LABELS[prop]) | {'SVC', 'ANY'}
    st = {'histories': 0, 'skipped': 0, 'ops': 0, 'restarts': 0, 'refused_calls': 0, 'refused_then_restart': 0, 'reregistered_already_existed': 0,
          'commits_ok': 0, 'monitor_failures': 0, 'disagreements': 0, 'op_kinds': {}, 'results': {},
          'known_class': SERVICE_KNOWN_CLASS['id'], 'known_class_hits': 0, 'ops_not_analysed_after_known_class': 0}
    first_dis = None
    for pr in parsed:
        if pr['skipped']:
            st['skipped'] += 1
            if report:
                chk.violation({'kind': 'correspondence', 'correspondence': 'harness/brokersvc produced no result for a generated service history', 'history': pr['history'],
                               'service': True, 'detail': pr['skipped']}, no_input=True)
            continue
        st['histories'] += 1
        prefix = lambda k: ' ; '.join([pr['header']] + pr['ops'][:k + 1])
        prev_hash, prev_res, diverged, nontrivial = None, '', False, False
        stale, prev_fh = False, None
        for k, sg in enumerate(pr['segs']):
            toks = sg['impl'].split()
            res, hs, hv = (toks + ['?', '?', '?'])[:3]
            mon = toks[3] if len(toks) > 3 else 'm=?'
            fh = toks[4][2:] if len(toks) > 4 and toks[4].startswith('f=') else '?'
            kind = sg['op'].split()[0] if sg['op'].split() else '?'
            st['ops'] += 1
            st['op_kinds'][kind] = st['op_kinds'].get(kind, 0) + 1
            st['results'][res.split(':')[0] + (':' + res.split(':', 1)[1] if res.startswith('err:') else '')] = \
                st['results'].get(res.split(':')[0] + (':' + res.split(':', 1)[1] if res.startswith('err:') else ''), 0) + 1
            if kind == 'svcrestart':
                st['restarts'] += 1
                if prev_res.startswith('err:'): st['refused_then_restart'] += 1
            if res.startswith('err:'): st['refused_calls'] += 1
            if kind == 'addproxy' and res == 'err:ALREADY_EXISTED': st['reregistered_already_existed'] += 1; nontrivial = True
            if kind.startswith('commit') and res == 'ok': st['commits_ok'] += 1; nontrivial = True
            fails = [f for f in mon[2:].split('|')] if mon != 'm=ok' else []
            if (kind in SERVICE_KNOWN_CLASS['ops'] and res.startswith('err:') and fh != hs and prev_hash is not None
                    and any(f.startswith('SVCEPOCH:meta_file') for f in fails) and not any(f.startswith('SVC:') for f in fails)):
                st['known_class_hits'] += 1
                st['ops_not_analysed_after_known_class'] += len(pr['segs']) - k - 1
                break
            fails = [('SVC:' + f[9:] + '_(global_epoch_only)') if f.startswith('SVCEPOCH:') else f for f in fails]
            # the contract itself, recomputed from the printed hashes (independent of the harness' own comparison)
            if fh != hs and not any('meta_file_differs' in f for f in fails):
                fails.append('SVC:meta_file_hash_%s_differs_from_the_in-memory_store_hash_%s_after_%s_(%s)' % (fh, hs, kind, res))
            if kind == 'svcrestart' and prev_hash is not None and hs != prev_hash and not any('store_after_restart_differs' in f for f in fails):
                fails.append('SVC:store_hash_after_restart_%s_differs_from_the_hash_before_%s' % (hs, prev_hash))
            # a file that was already behind before this call is reported where it fell behind, not again after every later call that does not write
            if stale and fh != hs and fh == prev_fh:
                fails = [f for f in fails if 'meta_file' not in f]
            stale, prev_fh = (fh != hs), fh
            seen = set()
            for f in fails:
                lab = f.split(':')[0]
                if lab in labels and f not in seen:
                    seen.add(f)
                    st['monitor_failures'] += 1
                    if report:
                        chk.violation({'kind': 'monitor', 'service': True, 'what': f.replace('_', ' '), 'history': prefix(k), 'failing_op_index': k,
                                       'failing_op': sg['op'], 'layer': 'src/broker/service.rs: HTTP handler + trigger_update / restart from the meta file'})
            exp = sg['expect']
            if exp is not None and [res, hs, hv] != exp:
                if not diverged: st['disagreements'] += 1
                diverged = True
                if first_dis is None:
                    first_dis = {'history': prefix(k), 'op_index': k, 'op': sg['op'], 'impl': sg['impl'], 'model_expected': ' '.join(exp)}
            elif exp is not None and sg.get('model_mon', 'm=ok') != 'm=ok' and report:
                chk.violation({'kind': 'model-monitor', 'service': True, 'what': 'extracted predicate false on the model state: ' + sg['model_mon'],
                               'history': prefix(k), 'op_index': k}, no_input=True)
            prev_hash, prev_res = hs, res
        chk.count('svc ' + pr['history'], nontrivial)
    if first_dis and not st['monitor_failures'] and report:
        chk.violation(dict(first_dis, kind='correspondence', service=True,
                           correspondence='Model/Broker.v step (restarts = identity, Proofs/BrokerSvc.v svc_run_strip) vs the real HTTP service '
                                          '(run_server + MemBrokerService + JsonFileStorage)',
                           search='service monitors of %s evaluated after every one of %d requests / restarts of %d histories: no property failure'
                                  % (prop, st['ops'], st['histories'])), no_input=True)
    return st


def service_histories(chk, label):
    """phase run by standard_run for SERVICE_PROPS"""
    ip = chk.build_impl('brokersvc')
    for p in ip:
        chk.violation({'kind': 'correspondence-build', 'correspondence': 'harness/brokersvc against /repo working tree', 'detail': p,
                       'log': '%s/cargo_%s.log' % (vlib.WORK, chk.prop)}, no_input=True)
    if ip:
        return None
    rng = random.Random(chk.seed * 1000003 + 18)      # own stream: the store-level histories stay what they were
    n = 4 if chk.tier == 'quick' else 150
    hs = service_scenarios() + [gen_service_history(rng) for _ in range(n)]
    parsed = run_service(chk, hs, jobs=3 if chk.tier == 'quick' else 8)
    st = service_analyse(chk, label, parsed)
    # recorded observations: inputs on which the unchanged tree leaves the meta file behind the memory (never gating)
    obs = run_service(chk, [h for _, h in SERVICE_OBSERVED], jobs=1)
    seen = []
    for (what, _), pr in zip(SERVICE_OBSERVED, obs):
        o = service_analyse(chk, label, [pr], report=False) if not pr['skipped'] else {'monitor_failures': 0}
        first = next((sg['op'] + ' -> ' + sg['impl'].split()[0] for sg in pr.get('segs', [])
                      if len(sg['impl'].split()) > 3 and ('SVC:' in sg['impl'].split()[3] or 'SVCEPOCH:' in sg['impl'].split()[3])), None)
        seen.append({'what': what, 'history': pr['history'], 'file_behind_memory_at': first, 'reobserved': bool(o['monitor_failures'] or o.get('known_class_hits'))})
    st['observed_not_gating'] = seen
    chk.sub('service_layer', **st)
    chk.cov['rule'] += ('; service layer (labels %s): %d directed + %d random histories of <= 25 requests through the real HTTP server with meta-file persistence, '
                        'a restart from the file after refused calls / commits / forced epochs; same comparison + file == memory after every request + restart = identity'
                        % (', '.join(SERVICE_PROPS), len(service_scenarios()), n))
    if parsed:
        pr = parsed[0]
        chk.sample({'service_history': ' ; '.join([pr['header']] + pr['ops'])[:600], 'impl_tail': pr['impl'][-1] if pr['impl'] else pr['skipped']})
    return st


def service_replay(chk, prop, h):
    chk.build_impl('brokersvc'); chk.build_models('broker')
    pr = run_service(chk, [h if h.startswith('H ') else 'H 0 ; ' + h], jobs=1)[0]
    if pr['skipped']:
        print('harness/brokersvc: ' + pr['skipped']); return 1
    labels = set(LABELS[prop]) | {'SVC', 'ANY'}
    bad, prev = 0, None
    for sg in pr['segs']:
        toks = sg['impl'].split()
        exp = sg['expect']
        flag = '' if exp is None or toks[:3] == exp else '   <-- model expects: ' + ' '.join(exp)
        print('%-36s svc: %s%s' % (sg['op'], sg['impl'], flag))
        mon = toks[3] if len(toks) > 3 else ''
        if any(f.split(':')[0] in labels for f in mon[2:].split('|')): bad = 1
        if len(toks) > 4 and toks[4] != 'f=' + toks[1]: bad = 1
        if sg['op'] == 'svcrestart' and prev is not None and toks[1] != prev: bad = 1
        prev = toks[1] if len(toks) > 1 else prev
    return bad
