"""Shared by the broker properties C01 C04 C06 C10 C12 C13 C18: history generator, impl/model pipeline, monitor parsing."""
import vlib, random, re

TRUSTED = ['Coq 8.16.1 kernel (coqc; coqchk in the thorough tier); Print Assumptions of every theorem: closed under the global context',
           'extraction with ExtrOcamlBasic only + ocaml/vio.ml, d_broker.ml, driver_lib.ml',
           'harness/broker (dom.rs: drives the real MetaStore through hook H1 and prints canonical state/view text; mon.rs: the properties '
           'evaluated on the real views, independent of the model)',
           'oracle for hash-order dependent allocator choices: read from the implementation result, validated by the model (alloc_one, generate_new_free_proxy)',
           'identifiers are numbers on the model side (proxy p<i>:1, nodes n<2i>:1 n<2i+1>:1, hosts h<j>, clusters c<k>); config reduced to one field (migration_scan_count)',
           'clock: report ages are multiples of 1000 s so that the real clock drift during a run cannot cross a ttl boundary']


def gen_history(rng, tier):
    ordered = rng.random() < 0.12
    nhosts = rng.randint(2, 6)
    layout = rng.choice(['uniform', 'skewed', 'odd'])
    per = []
    for h in range(nhosts):
        if layout == 'uniform': per.append(rng.randint(2, 4))
        elif layout == 'skewed': per.append(rng.choice([1, 1, 2, 5, 6]))
        else: per.append(rng.choice([1, 3, 3, 2]))
    ops = []
    proxies = []
    pid = 1
    hosts = {}
    for h, k in enumerate(per):
        for _ in range(k):
            hosts[pid] = 10 + h
            proxies.append(pid)
            pid += 1
    if ordered:
        order = proxies[:]
    else:
        order = proxies[:]
        rng.shuffle(order)
    for i, p in enumerate(order):
        host = '-' if rng.random() < 0.1 else str(hosts[p])
        ops.append('addproxy %d %s %s' % (p, host, str(i) if (ordered or rng.random() < 0.2) else '-'))
    clusters = [1] if (ordered or rng.random() < 0.7) else [1, 2]
    total = len(proxies)
    for c in clusters:
        k = rng.choice([4, 4, 8, 8, 12, 16])
        k = min(k, max(4, (total // len(clusters)) * 2 // 4 * 4))
        ops.append('addcluster %d %d %d ?' % (c, k, rng.randint(1, 9)))
    if not ordered and rng.random() < 0.15:
        # use up every proxy, then force same-host replacements and allocate again with fresh spares on the largest host
        big = max(set(hosts.values()), key=lambda h: sum(1 for q in proxies if hosts[q] == h))
        for c in clusters[:1]:
            ops.append('addnodes %d %d ?' % (c, 4 * 8))
            ops.append('addnodes %d %d ?' % (c, 4))
        for k in range(rng.randint(1, 3)):
            q = 70 + k
            ops.append('addproxy %d %d -' % (q, big)); hosts[q] = big; proxies.append(q)
            ops.append('replace %d 0 ?' % rng.choice(proxies[:max(1, len(proxies) - 4)]))
        for k in range(rng.randint(2, 5)):
            q = 80 + k
            hq = big if k < 3 else rng.choice(list(set(hosts.values())))
            ops.append('addproxy %d %d -' % (q, hq)); hosts[q] = hq; proxies.append(q)
        ops.append('addnodes %d 4 ?' % clusters[0])
        ops.append('addcluster 3 4 1 ?')
    n = rng.randint(10, 45 if tier == 'quick' else 70)
    epochs_seen = list(range(1, 30))
    for _ in range(n):
        c = rng.choice(clusters)
        x = rng.random()
        p = rng.choice(proxies)
        if x < 0.10:
            ops.append('addnodes %d %d ?' % (c, rng.choice([4, 4, 8, 2, 0])))
            ops.append('migrate %d' % c)
        elif x < 0.16:
            ops.append('autochange %d %d ?' % (c, rng.choice([4, 8, 12, 16, 20, 6])))
            if rng.random() < 0.8:
                ops.append('autoscaleout %d %d' % (c, rng.choice([8, 12, 16, 20])))
        elif x < 0.21:
            ops.append('scaledown %d %d' % (c, rng.choice([4, 8, 12, 0, 6])))
        elif x < 0.42:
            ops.append('commitnth %d %d %d' % (c, rng.randint(0, 5), rng.random() < 0.6))
        elif x < 0.45:
            # a delayed duplicate of an older commit: same ranges, older epoch
            ops.append('commitstale %d %d %d %d' % (c, rng.randint(0, 5), rng.random() < 0.6, rng.choice([1, 1, 2, 5, 100])))
        elif x < 0.60:
            ops.append('replace %d %d ?' % (p, rng.randint(0, 2)))
            y = rng.random()
            if y < 0.25:
                ops.append('replace %d %d ?' % (p, rng.randint(0, 2)))
            elif y < 0.33:
                ops.append('replacemember %d %d %d ?' % (c, rng.randint(0, 7), rng.randint(0, 2)))
                for _ in range(rng.randint(1, 3)):
                    ops.append('replacelast %d ?' % rng.randint(0, 2))
                if rng.random() < 0.5: ops.append('balance %d' % c)
            elif y < 0.40:
                # retry after a spare was registered (the first call may have failed for lack of resources)
                q = 60 + rng.randint(0, 5)
                ops.append('addproxy %d %d %s' % (q, 10 + rng.randint(0, 5), str(q - 1) if ordered else '-'))
                ops.append('replace %d %d ?' % (p, rng.randint(0, 2)))
        elif x < 0.65:
            ops.append('balance %d' % c)
        elif x < 0.69:
            ops.append('config %d %d %d' % (c, rng.random() < 0.8, rng.randint(1, 50)))
        elif x < 0.75:
            y = rng.random()
            if y < 0.75:
                ops.append('addfail %d %d %d' % (p, rng.randint(1, 4), rng.choice([0, 1000, 2000, 5000, -1000])))
            elif y < 0.9:
                # reports for an address that is not registered when they arrive (just removed, or never seen), then registration
                q = rng.choice([p, 90 + rng.randint(0, 3)])
                ops.append('rmproxy %d' % q)
                for rep in range(rng.randint(1, 3)):
                    ops.append('addfail %d %d %d' % (q, rep + 1, rng.choice([0, 1000])))
                ops.append('addproxy %d %s %s' % (q, hosts.get(q, 10), str(q - 1) if ordered else '-'))
                ops.append('getfail %d %d' % (rng.choice([2000, 9000]), rng.randint(1, 3)))
            else:
                ops.append('addfail %d %d %d' % (90 + rng.randint(0, 3), rng.randint(1, 4), rng.choice([0, 1000])))
        elif x < 0.80:
            ops.append('%s %d %d' % (rng.choice(['getfail', 'getfail', 'cleanfail']), rng.choice([0, 1000, 2000, 3000, 9000]), rng.randint(1, 4)))
        elif x < 0.84:
            ops.append('addproxy %d %s %s' % (p, hosts[p], str(p - 1) if ordered else '-'))
        elif x < 0.87:
            ops.append('rmproxy %d' % p)
        elif x < 0.90:
            ops.append('delfree %d' % c)
        elif x < 0.92:
            ops.append('migrate %d' % c)
        elif x < 0.94:
            ops.append('commit %d %d %s %d %s' % (c, rng.choice(epochs_seen), rng.choice('mmin'), rng.random() < 0.5,
                                                 rng.choice(['0-100', '8192-16383', '4096-8191', '-', '12288-16383', '0-4095,8192-12287'])))
        elif x < 0.955:
            if rng.random() < 0.5:
                ops.append('recover %d' % rng.choice([0, 5, 50, 500]))
            else:
                ops.append('svcrecover %d' % rng.choice([0, 7, 40, 41, 400]))
        elif x < 0.97:
            ops.append('forcebump %d' % rng.choice([3, 30, 300, 3000]))
        elif x < 0.985:
            ops.append('restore %d' % rng.randint(0, max(1, len(ops) - 1)))
        elif x < 0.993:
            ops.append('rmcluster %d' % c)
            ops.append('addcluster %d %d %d ?' % (c, rng.choice([4, 8]), rng.randint(1, 9)))
        else:
            ops.append('scaleup %d %d ?' % (c, rng.choice([8, 12, 16])))
    return 'H %d ; ' % ordered + ' ; '.join(ops)


def scenario_histories():
    """hand-written corpus: always runs first"""
    base = 'H 0 ; ' + ' ; '.join('addproxy %d %d -' % (i, 10 + (i % 3)) for i in range(1, 13))
    hs = [
        base + ' ; addcluster 1 4 1 ? ; addnodes 1 4 ? ; migrate 1 ; commitnth 1 0 0 ; commitnth 1 0 0 ; scaledown 1 4 ; commitnth 1 1 1 ; commitnth 1 0 1',
        base + ' ; addcluster 1 8 1 ? ; replace 1 0 ? ; replace 2 0 ? ; replace 3 1 ? ; replace 4 2 ? ; balance 1 ; replace 1 0 ?',
        # second failover of one chunk during a migration (FirstChunkMaster -> SecondChunkMaster)
        base + ' ; addcluster 1 4 1 ? ; addnodes 1 4 ? ; migrate 1 ; replace 1 0 ? ; replace 2 0 ? ; replace 3 0 ? ; replace 4 0 ? ; replace 5 0 ? ; replace 6 0 ?'
             + ' ; replace 7 0 ? ; replace 8 0 ? ; replace 1 0 ? ; replace 2 0 ? ; commitnth 1 0 1 ; commitnth 1 0 1',
        base + ' ; addcluster 1 4 1 ? ; addfail 1 1 0 ; addfail 1 1 0 ; addfail 1 2 1000 ; getfail 2000 2 ; getfail 1000 2 ; getfail 1000 1 ; addproxy 1 10 - ; getfail 9000 1',
        base + ' ; addcluster 1 8 1 ? ; recover 100 ; forcebump 50 ; forcebump 500 ; restore 3 ; restore 14 ; recover 0',
        # skewed hosts A:8 B:4 C:4 fully used; the only spare is on A, so a failed B proxy is (legitimately) replaced on its partner's host,
        # which creates a same-host chunk (self link); later spares make A the largest host again and a scale-out allocates
        'H 0 ; ' + ' ; '.join('addproxy %d %d -' % (i, 10 if i <= 8 else (11 if i <= 12 else 12)) for i in range(1, 17))
        + ' ; addcluster 1 32 1 ? ; addproxy 17 10 - ; replace 9 0 ? ; addproxy 18 10 - ; addproxy 19 10 - ; addproxy 20 11 - ; addproxy 21 12 - ; addnodes 1 4 ?'
        + ' ; addproxy 22 10 - ; addproxy 23 10 - ; addproxy 24 12 - ; addproxy 25 11 - ; addcluster 2 4 1 ?',
        # a replacement proxy (holding only replicas) fails in turn, several times; later allocations must not pick the failed ones
        base + ' ; addcluster 1 4 1 ? ; replacemember 1 0 0 ? ; replacelast 0 ? ; replacelast 0 ? ; replacemember 1 1 0 ? ; replacelast 0 ? ; replacelast 0 ? ; replacelast 1 ? ; replacelast 0 ? ; replacelast 0 ? ; replacelast 0 ?'
             + ' ; replacelast 0 ? ; replacelast 0 ? ; balance 1 ; addnodes 1 4 ? ; addcluster 2 4 1 ? ; replace 3 0 ? ; balance 1',
        # scale out, commit, scale back in: the same ranges migrate back under a newer epoch; a delayed duplicate of the old commit must be refused
        base + ' ; addcluster 1 4 1 ? ; addnodes 1 4 ? ; migrate 1 ; commitnth 1 0 0 ; commitnth 1 0 0 ; scaledown 1 4 ; commitstale 1 0 0 1 ; commitstale 1 1 0 2 ; commitstale 1 0 1 7 ; commitnth 1 0 1 ; commitstale 1 0 1 1 ; commitnth 1 0 1',
        # failover without a spare, then a spare is registered and the failover is retried
        'H 0 ; addproxy 1 10 - ; addproxy 2 11 - ; addcluster 1 4 1 ? ; replace 1 0 ? ; addproxy 3 12 - ; replace 1 0 ? ; replace 2 1 ? ; addproxy 4 10 - ; replace 2 2 ?',
        # scale-in freeing two chunks; an earlier source chunk drains first and a commit asks to clear free nodes mid-migration
        base + ' ; addcluster 1 12 1 ? ; scaledown 1 4 ; commitnth 1 0 1 ; commitnth 1 0 1 ; delfree 1 ; commitnth 1 0 1 ; commitnth 1 0 1 ; delfree 1',
        # reports arriving for unregistered addresses (removed / never registered), then registration and a query
        base + ' ; rmproxy 12 ; addfail 12 1 0 ; addfail 12 2 0 ; addproxy 12 10 - ; getfail 9000 2 ; addfail 50 1 0 ; addfail 50 2 1000 ; getfail 9000 1 ; addproxy 50 11 - ; getfail 9000 2',
        'H 1 ; ' + ' ; '.join('addproxy %d %d %d' % (i, 10 + (i % 2), i - 1) for i in range(1, 9)) + ' ; addcluster 1 4 2 ? ; addnodes 1 4 ? ; migrate 1 ; replace 1 0 ? ; commitnth 1 0 1 ; commitnth 1 0 1',
        # skewed hosts: one host holds most proxies
        'H 0 ; ' + ' ; '.join('addproxy %d %d -' % (i, 10 if i < 7 else 11 + (i % 2)) for i in range(1, 11)) + ' ; addcluster 1 8 1 ? ; addcluster 2 4 1 ? ; addnodes 1 4 ?',
    ]
    return hs


LABELS = {'C01': ('C01',), 'C04': ('C04',), 'C06': ('C06', 'C06epoch'), 'C10': ('C10', 'C01'), 'C12': ('C12', 'C12repl'),
          'C13': ('C13',), 'C18': ('C18',)}


def run_histories(chk, histories, jobs=8):
    """returns list of dicts per history: ops (resolved), impl segments, model segments"""
    rc, impl = chk.run_impl('broker', histories, jobs=jobs, timeout=14000)
    resolved, impl_out = [], []
    for i, h in enumerate(histories):
        line = impl[i] if i < len(impl) else ''
        if ' ## O ' in line and line.startswith('R '):
            r, o = line.split(' ## O ', 1)
            resolved.append(r[2:])
            impl_out.append([s.strip() for s in o.split(' ; ')])
        else:
            resolved.append(h.replace('?', '-'))
            impl_out.append(['harness-output-missing: ' + line[:200]])
    rc2, model = chk.run_model('broker', resolved, jobs=jobs, timeout=14000)
    out = []
    for i, h in enumerate(histories):
        m = model[i] if i < len(model) else ''
        mseg = [s.strip() for s in m[2:].split(' ; ')] if m.startswith('O ') else ['model-output-missing: ' + m[:200]]
        out.append({'history': h, 'resolved': resolved[i], 'impl': impl_out[i], 'model': mseg})
    return out


def analyse(chk, prop, results):
    """monitor failures for this property -> violations; first disagreement -> correspondence violation.
    Returns statistics."""
    labels = LABELS[prop]
    stats = {'histories': len(results), 'ops': 0, 'op_kinds': {}, 'results': {}, 'disagreements': 0, 'monitor_failures': 0,
             'failover_ok': 0, 'commits_ok': 0}
    first_dis = None
    for r in results:
        ops = [s.strip() for s in r['resolved'].split(' ; ')][1:]
        nontrivial = False
        diverged = False
        for j, seg in enumerate(r['impl']):
            opn = ops[j] if j < len(ops) else '?'
            kind = opn.split()[0] if opn.split() else '?'
            stats['ops'] += 1
            stats['op_kinds'][kind] = stats['op_kinds'].get(kind, 0) + 1
            toks = seg.split()
            res = toks[0] if toks else '?'
            stats['results'][res.split(':')[0] + (':' + res.split(':')[1] if res.startswith('err:') else '')] = \
                stats['results'].get(res.split(':')[0] + (':' + res.split(':')[1] if res.startswith('err:') else ''), 0) + 1
            if res == 'err:MIGRATION_RUNNING': stats['refused_while_migrating'] = stats.get('refused_while_migrating', 0) + 1
            if kind == 'replace' and res.startswith('repl'): stats['failover_ok'] += 1; nontrivial = True
            if kind in ('commit', 'commitnth') and res == 'ok': stats['commits_ok'] += 1; nontrivial = True
            mon = toks[3] if len(toks) > 3 else 'm=?'
            if mon != 'm=ok':
                for f in mon[2:].split('|'):
                    lab = f.split(':')[0]
                    if lab in labels or lab == 'ANY':   # a panicking operation or view fails every broker property
                        stats['monitor_failures'] += 1
                        known = None
                        if lab == 'C12repl': known = 'replacement-on-partner-host'
                        chk.violation({'kind': 'monitor', 'what': f.replace('_', ' '), 'history': ' ; '.join(['H ' + r['resolved'].split(' ; ')[0][2:]] + ops[:j + 1]),
                                       'failing_op_index': j, 'failing_op': opn, 'known_id': known})
            mseg = r['model'][j] if j < len(r['model']) else '<missing>'
            if seg.split()[:3] != mseg.split()[:3] and first_dis is None:
                first_dis = {'history': ' ; '.join(r['resolved'].split(' ; ')[:j + 2]), 'op_index': j, 'op': opn, 'impl': seg, 'model': mseg}
            if seg.split()[:3] != mseg.split()[:3]:
                if not diverged: stats['disagreements'] += 1
                diverged = True      # keep evaluating the monitors on the implementation's later states
                continue
            mmon = mseg.split()[3] if len(mseg.split()) > 3 else 'm=?'
            if mmon != 'm=ok':
                chk.violation({'kind': 'model-monitor', 'what': 'extracted predicate false on the model state: ' + mmon, 'history': r['resolved'], 'op_index': j}, no_input=True)
        chk.count(r['history'], nontrivial)
    if first_dis and not stats['monitor_failures']:
        chk.violation(dict(first_dis, kind='correspondence', correspondence='Model/Broker.v step / view_cluster / view_proxy vs the real MetaStore',
                           search='all %d monitors of %s evaluated on every implementation state of %d histories: no property failure' % (stats['ops'], prop, len(results))),
                      no_input=True)
    chk.cov['traces_validated_against_impl'] = len(results) - stats['disagreements']
    return stats


def standard_run(chk, prop, extra_histories=(), nquick=250, nthorough=4000):
    ok = vlib.standard_proof_phase(chk, TRUSTED, 'broker')
    chk.cov['rule'] = ('cases = operation histories on the broker (corpus scenarios first, then seeded random histories of 15-90 operations over 2-6 hosts, '
                       'uniform/skewed/odd layouts, ordered mode 12%); after EVERY operation the canonical store text and every cluster view and proxy view under '
                       'migration limits 0,1,2 are compared between model and implementation (by hash) and the property monitors run on the real views; '
                       'non-trivial = distinct history containing at least one successful commit or failover')
    if not ok:
        return None
    n = nquick if chk.tier == 'quick' else nthorough
    hs = scenario_histories() + list(extra_histories) + [gen_history(chk.rng, chk.tier) for _ in range(n)]
    results = run_histories(chk, hs, jobs=14)
    stats = analyse(chk, prop, results)
    chk.sub('distribution', **stats)
    for r in results[:3]:
        chk.sample({'history': r['resolved'][:600], 'impl_tail': r['impl'][-1], 'model_tail': r['model'][-1]})
    return stats


def replay(prop, data):
    chk = vlib.Check(prop, 'quick', 0)
    h = data.get('history')
    if not h:
        print(data); return 0
    chk.build_impl('broker'); chk.build_models('broker')
    res = run_histories(chk, [h if h.startswith('H ') else 'H 0 ; ' + h], jobs=1)[0]
    ops = res['resolved'].split(' ; ')[1:]
    bad = 0
    for j, seg in enumerate(res['impl']):
        m = res['model'][j] if j < len(res['model']) else '<missing>'
        flag = '' if seg.split()[:3] == m.split()[:3] else '   <-- model differs: ' + m
        print('%-40s impl: %s%s' % (ops[j] if j < len(ops) else '?', seg, flag))
        mon = seg.split()[3] if len(seg.split()) > 3 else ''
        if any(f.split(':')[0] in LABELS[prop] for f in mon[2:].split('|')): bad = 1
    return bad
