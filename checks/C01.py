import broker_common as bc
import C10
MANIFEST = {
 'text': 'Theorems C01_any_history_cluster_view / _proxy_view (UNCONDITIONAL: every finite sequence of the 22 broker operations from the empty store, all oracle choices '
         'the allocator model accepts, Restore of any such store), C01_no_operation_panics (no operation panics on such a store: allocator, planners, failover, views), '
         'C01_invariant_step, C01_cluster_view, C01_proxy_view about Model/Broker.v: for every such store and every migration limit, the served cluster view and every '
         'per-proxy view own each of the 16384 slots exactly once among Stable/Migrating ranges of masters, replicas own nothing, and each Migrating entry has exactly '
         'one Importing twin (equal ranges, epoch, addresses) on the destination master. Proved through a store invariant (part_inv: counting semantics of ranges, '
         'twin relation, master count <= 16384) preserved by every operation incl. the two slot planners, commit, failover, limit_migration. The model is tied to '
         'the real MetaStore on every run: canonical store text and all views (limits 0,1,2) compared after every operation of generated histories, and an '
         'independent Rust monitor evaluates the partition property on the real views.',
 'note': 'Coq kernel; all theorems closed under the global context; extraction (ExtrOcamlBasic) + OCaml driver; harness/broker + hook H1; oracle for the '
         'hash-order dependent allocator choices is validated by the model. ExternalHttpStorage and the HTTP layer are outside.',
 'technique': 'Coq proof over a hand-written model + differential correspondence check against the real code',
}
def run(chk): bc.standard_run(chk, 'C01', extra_histories=[C10.big_scale_down()] if chk.tier == 'thorough' else [])
def replay(data): return bc.replay('C01', data)
