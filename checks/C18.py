"""C18 Failover needs a quorum of fresh, distinct reports.
Proof: coq/Props/C18.v over Model/Broker.v (add_failure, get_failures, add_proxy, step, run); proofs in
coq/Proofs/BrokerEpochFail.v and BrokerEpochReach.v; service layer coq/Proofs/BrokerSvc.v.
Correspondence and monitors: checks/broker_common.py + harness/broker (store level) + harness/brokersvc (real HTTP service, meta file, restart)."""
import broker_common as bc

MANIFEST = {
  'text': 'Theorems about Model/Broker.v (mirror of update.rs add_failure / get_failures / add_proxy): '
          'C18_quorum (for ALL stores, times, ttl, quorum: an address listed by get_failures is registered and its stored report list holds >= quorum '
          'reports with now - t < ttl), C18_quorum_distinct (on a well-formed store that list is the one stored under the address and its reporters are '
          'pairwise distinct, NoDup), C18_failures_wf_step / _run / _reachable (well-formedness = strictly sorted address keys, reporter keys and failed set, '
          'i.e. one report per reporter; preserved by every one of the 22 operations, hence true after ALL operation lists from the initial store and of '
          'every inductively reachable store), C18_once_per_reporter + C18_known_reporter_ignored + C18_first_timestamp_kept (a repeated report leaves the '
          'store equal, answers false, first timestamp stays), C18_expired_discarded (after a query every stored report is fresh, no address keeps an empty '
          'list, and exactly the fresh reports survive), C18_reregister_clears (add_proxy with outcome Done or AlreadyExisted leaves the address with no '
          'reports, no failed mark, and registered) + C18_missing_index_is_noop. '
          'The model is tied to the code by running seeded random operation histories (registrations, removals, reports with ages, queries with quorum 1..4 '
          'and several ttl values, failovers, restores ...) on the real MetaStore and on the extracted model and comparing the canonical store text and all '
          'views after every operation; the C18 monitors (listed => registered and >= quorum fresh reports; nothing expired or empty kept; re-registration '
          'clears; report count grows by exactly one per new reporter) are evaluated on the real store after every operation. '
          'SERVICE LAYER (src/broker/service.rs): C18_service_file_current (contract model svc_step over (memory, meta file): after every call, every result, file = '
          'memory = the store operation\'s result) and C18_service_reregister_stays_clear (after OAddProxy a through the service - AlreadyExisted included - and ANY number '
          'of restarts from the meta file, a has no reports, no failed mark, is registered and is not listed by get_failures for any clock / ttl / quorum; derived from '
          'C18_reregister_clears + C18_quorum; restarts removable by C13_service_restarts_are_identity). Tied to the code by harness/brokersvc: the same history syntax '
          'driven as real HTTP requests against the real run_server + MemBrokerService (auto_update_meta_file) + JsonFileStorage on a temp file, op svcrestart = stop '
          'and start again with recover_from_meta_file; after EVERY request: reply + store text + all views = extracted model (restarts removed), meta file = memory '
          '(also after refused calls), store after restart = store before, every GET view served = the store\'s view, and a re-registered proxy stays clear of reports / '
          'failed mark across restarts until a new report or failover names it.',
  'note': 'Trusted: Coq kernel (all theorems closed under the global context), extraction + OCaml driver, harness/broker (dom.rs, mon.rs), hook H1. '
          'ORestore installs an arbitrary snapshot: the invariant theorems require the snapshot to be well-formed (op_wf) or, in the inductive form, reachable. '
          'C18_reregister_clears excludes the MissingIndex rejection of ordered mode, which returns before anything is touched (the real code does the same). '
          'Partial: the clock is an input of the model (Utc::now() in the code; the harness ages reports by rewriting stored timestamps in 1000 s steps); '
          'chrono conversion of out-of-range stored timestamps (NaiveDateTime::from_timestamp panic) is outside the model; the coordinator side that '
          'produces the reports (detector.rs) is not part of this property. '
          'Service layer: trusted harness/brokersvc (svc.rs; includes harness/broker dom.rs / mon.rs unchanged), the five lines of src/bin/mem_broker.rs main() that load the '
          'meta file are repeated in the harness; over HTTP only age-0 reports exist (the broker stamps its own clock) and ttl / quorum / migration limit / cluster config are '
          'per-process (MemBrokerConfig), so expiry stays with the store-level histories. Known class on the unchanged tree, excluded from the gating histories and replayed as '
          'an observation on every run (evidence service_layer.observed_not_gating): a REFUSED migrate / scale-down call has already taken a global epoch and its handler skips '
          'trigger_update(), so the file is one global epoch behind until the next accepted call (C13_service_stale_witness); likewise the auto-scale call refused after releasing '
          'free chunks, PUT /epoch/recovery and GET /failures pruning are not persisted. auto-scale (needs live proxies), PUT /metadata and recovery are outside the gating set.',
  'technique': 'Coq proof over a hand-written model + differential correspondence check against the real code',
}


def run(chk): bc.standard_run(chk, 'C18')


def replay(data): return bc.replay('C18', data)
