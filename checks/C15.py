"""C15 RESP encoding and incremental decoding are lossless.
Proof: coq/Props/C15.v over Model/Resp.v (mirrors src/protocol/{stateless,resp,encoder,packet,codec}.rs).
Correspondence: harness/resp drives the real encoders, RespPacket/RespVec/IndexedResp::decode, RespCodec through a real
tokio_util FramedRead, and OptionalMultiPacketDecoder with its encoder's hint state, on the same case lines as the
extracted model.  Monitors: the property clauses evaluated on what the real code produced (round trip, same packets for
every split, forwarded bytes = stream, accepted text is strict RESP for the returned value, no panic)."""
import vlib, re

MANIFEST = {
  'text': 'Theorems about Model/Resp.v (parse_line/len/bulk_str/array/resp with index trees, to_resp_vec, encode, the framed read loop, '
          'OptionalMultiPacketDecoder): C15_roundtrip (all wf values up to 128 arrays deep, any suffix), C15_split_invariant (all chunkings of all '
          'byte streams: same packets, leftover, status), C15_prefix_monotone (NotEnoughData consumes nothing; Ok and Invalid are final under extension), '
          'C15_forward_unmodified (kept bytes = stream; packet value = value of its bytes), C15_multi_split_invariant (hinted multi decoder, from any '
          'decoder state), C15_reject_non_resp (accepted bytes are strict RESP text for the value: CR LF line ends, CR LF after bulk payloads), '
          'C15_no_panic / C15_multi_no_panic (no expect/split_to panic, no UnexpectedErr). The model is tied to the code by running the real '
          'encoders/decoders/codecs and the extracted model on the same values, buffers, chunkings and hint scripts; the property clauses are '
          're-evaluated on the real outputs by an independent strict recogniser.',
  'note': 'Coq kernel; closed under the global context; extraction (ExtrOcamlBasic) + OCaml driver. The model mirrors the tree WITH work/fix_C15.diff '
          '(the unpatched parser accepted "+OK\\n" as Simple "O" and "$2\\r\\nabXY" as Bulk "ab" consuming XY: strictness was false) and '
          'work/fix_C16_1/2.diff (capacity cap, nesting limit 128: deeper values are rejected, so the round trip is stated for depth <= 128). '
          'wf also demands lengths < 2^63 (always true in memory). Any negative length is nil and btoi number syntax ("+3", "003") is accepted: '
          'the grammar in the strictness theorem says so explicitly. Allocation and cost are C16 (Model/Cost.v).',
  'technique': 'Coq proof over a hand-written model + differential correspondence check against the real code',
 }

TRUSTED = ['Coq 8.16.1 kernel (coqc; coqchk in the thorough tier); no axioms (Print Assumptions: closed)',
           'extraction with ExtrOcamlBasic only (+ Extraction Blacklist for file names) + ocaml/vio.ml, d_resp.ml, driver_lib.ml',
           'harness/resp/src/dom.rs: drives undermoon::protocol (encode_resp, resp_to_buf, RespPacket/RespVec decode, RespCodec + tokio_util FramedRead over a chunk reader, new_optional_multi_packet_codec)',
           'the Python strict RESP recogniser and encoder in checks/C15.py (third implementation used by the monitors)',
           'btoi crate semantics as modelled in Base/Dec.v (compared on every length prefix the generator produces)']

I64MAX = 2**63 - 1

# ---------------- values: ('S',b) ('E',b) ('I',b) ('B',b) ('BN',) ('AN',) ('A',[..]) ----------------

def tokens(v):
    k = v[0]
    if k in 'SEIB' and len(k) == 1: return [k, vlib.hexs(v[1])]
    if k in ('BN', 'AN'): return [k]
    out = ['A', str(len(v[1]))]
    for e in v[1]: out += tokens(e)
    return out

def parse_tokens(toks, i=0):
    k = toks[i]
    if k in ('S', 'E', 'I', 'B'):
        h = toks[i + 1]
        return (k, b'' if h == '-' else bytes.fromhex(h)), i + 2
    if k in ('BN', 'AN'): return (k,), i + 1
    if k == 'A':
        n = int(toks[i + 1]); i += 2; items = []
        for _ in range(n):
            e, i = parse_tokens(toks, i); items.append(e)
        return ('A', items), i
    raise ValueError('bad token %r' % k)

def py_encode(v):
    k = v[0]
    if k == 'S': return b'+' + v[1] + b'\r\n'
    if k == 'E': return b'-' + v[1] + b'\r\n'
    if k == 'I': return b':' + v[1] + b'\r\n'
    if k == 'B': return b'$' + str(len(v[1])).encode() + b'\r\n' + v[1] + b'\r\n'
    if k == 'BN': return b'$-1\r\n'
    if k == 'AN': return b'*-1\r\n'
    return b'*' + str(len(v[1])).encode() + b'\r\n' + b''.join(py_encode(e) for e in v[1])

def wf(v):
    k = v[0]
    if k in ('S', 'E', 'I'): return b'\n' not in v[1]
    if k == 'A': return all(wf(e) for e in v[1])
    return True

def depth(v):
    if v[0] == 'A': return 1 + max([depth(e) for e in v[1]] + [0])
    if v[0] == 'AN': return 1
    return 0

def btoi(b):
    if not re.fullmatch(rb'[+-]?[0-9]+', b): return None
    n = int(b)
    return n if -2**63 <= n <= I64MAX else None

def strict_match(v, d, i=0):
    """index after the strict RESP text of value v at d[i:], or None"""
    k = v[0]
    def line(i):
        j = d.find(b'\n', i)
        if j < 1 or d[j - 1:j] != b'\r': return None, None
        return d[i:j - 1], j + 1
    if i >= len(d): return None
    if k in ('S', 'E', 'I'):
        if d[i:i + 1] != {'S': b'+', 'E': b'-', 'I': b':'}[k]: return None
        s, j = line(i + 1)
        return j if s is not None and s == v[1] and j > i + 1 else None
    if k in ('B', 'BN'):
        if d[i:i + 1] != b'$': return None
        s, j = line(i + 1)
        if s is None: return None
        n = btoi(s)
        if n is None: return None
        if k == 'BN': return j if n < 0 else None
        if n != len(v[1]) or d[j:j + n] != v[1] or d[j + n:j + n + 2] != b'\r\n': return None
        return j + n + 2
    if d[i:i + 1] != b'*': return None
    s, j = line(i + 1)
    if s is None: return None
    n = btoi(s)
    if n is None: return None
    if k == 'AN': return j if n < 0 else None
    if n != len(v[1]): return None
    for e in v[1]:
        j = strict_match(e, d, j)
        if j is None: return None
    return j

# ---------------- generators ----------------

def gen_payload(r, line):
    c = r.random()
    if c < 0.12: return b''
    if c < 0.5: return bytes(r.choice(b'abcOK019 ') for _ in range(r.randint(1, 6)))
    if c < 0.75:
        alpha = b'ab\r' if line and r.random() < 0.8 else b'ab\r\n$*+-:'
        return bytes(r.choice(alpha) for _ in range(r.randint(1, 7)))
    if c < 0.9: return str(r.choice([0, 1, -1, 42, 2**31, I64MAX, -2**63, r.getrandbits(40)])).encode()
    return bytes(r.getrandbits(8) for _ in range(r.randint(1, 12)))

def gen_value(r, d=0, maxd=4):
    c = r.random()
    if d >= maxd: c = c * 0.8
    if c < 0.15: return ('S', gen_payload(r, True))
    if c < 0.25: return ('E', gen_payload(r, True))
    if c < 0.4: return ('I', gen_payload(r, True))
    if c < 0.65: return ('B', gen_payload(r, False))
    if c < 0.72: return ('BN',)
    if c < 0.8: return ('AN',)
    return ('A', [gen_value(r, d + 1, maxd) for _ in range(r.choice([0, 1, 1, 2, 2, 3, 5]))])

def nest(k, v):
    for _ in range(k): v = ('A', [v])
    return v

def mutate(r, b):
    b = bytearray(b)
    for _ in range(r.choice([1, 1, 1, 2, 3])):
        c = r.random()
        if not b: b = bytearray(b'+'); continue
        i = r.randrange(len(b))
        if c < 0.25: b[i] = r.choice(b'\r\n$*+-:0159a\x00\xff')
        elif c < 0.45: del b[i]
        elif c < 0.65: b.insert(i, r.choice(b'\r\n$*+-:0159a '))
        elif c < 0.8: b = b[:i]
        elif c < 0.9:
            # swap a CR LF for a bare LF / bare CR / LF CR
            j = bytes(b).find(b'\r\n')
            if j >= 0: b[j:j + 2] = r.choice([b'\n', b'\r', b'\n\r', b'\r\r\n', b' \n'])
        else:
            b += bytes(r.choice(b'\r\n$*+-:09a') for _ in range(r.randint(1, 4)))
    return bytes(b)

HOSTILE = [b'$-0\r\n\r\n', b'$+3\r\nabc\r\n', b'$003\r\nabc\r\n', b'$-5\r\n', b'*-5\r\n', b'*-0\r\n', b'*+1\r\n+a\r\n', b'$9223372036854775807\r\n',
           b'$9223372036854775808\r\n', b'$-9223372036854775808\r\n', b'$-9223372036854775809\r\n', b'*9223372036854775808\r\n', b'$\r\n', b'*\r\n',
           b'$ 1\r\na\r\n', b'$1 \r\na\r\n', b'$1\r\r\na\r\n', b'$0x1\r\na\r\n', b'*1e1\r\n', b'+\r\n', b'-\r\n', b':\r\n', b'+\n', b'\n', b'\r\n', b'\r',
           b'+OK\n', b'$2\r\nabXY', b'$2\r\nabX', b'$2\r\nab\r', b'$2\r\nab\rX', b'$2\r\nab\n\r', b':12\n', b'+a\rb\r\n', b'+a\r\r\n', b'+a\nb\r\n',
           b'*1\r\n$1\r\naZZ+x\r\n', b'*2\r\n+a\r\n', b'*2\r\n+a\r\n?', b'*1000\r\n', b'*100000\r\n+a\r\n', b'$100000\r\nab', b'?\r\n', b'\x00', b'*0\r\n', b'*0\r\nX',
           b'$0\r\n\r\n', b'$0\r\nXY', b'$0\r\n\r', b'*1\r\n*1\r\n*1\r\n*0\r\n', b'*1\r\n*1\r\n*1\r\n*-1\r\n', b'$1\r\n\n\r\n', b'$2\r\n\r\n\r\n', b'$4\r\n\r\n\r\n\r\n']


PING = b'*1\r\n$4\r\nPING\r\n'
SHORTEST = [('S', b''), ('E', b''), ('I', b''), ('I', b'0'), ('B', b''), ('BN',), ('A', []), ('AN',)]

def tiny_values():
    out = []
    for n in (1, 2, 3, 5):
        for e in SHORTEST: out.append(('A', [e] * n))
    L3 = [('S', b''), ('E', b''), ('I', b'')]
    out += [('A', [('E', b''), ('I', b'1')]), ('A', [('S', b''), ('B', b'ab')]), ('A', L3), ('A', L3 + [('B', b'x')]), ('A', [('B', b'x')] + L3),
            ('A', [('A', [('S', b'')]), ('E', b'')]), ('A', [('A', L3), ('A', L3)]), ('A', [('A', [('A', [('S', b'')])])]), ('A', [('A', [('A', [('S', b'')]), ('S', b'')]), ('I', b'')]),
            ('A', [('A', [('S', b'ok')])]), ('A', [('S', b''), ('A', []), ('AN',), ('BN',), ('E', b'')]), ('A', SHORTEST), ('A', [('A', SHORTEST)])]
    return out

def tiny_streams(tiny, r, limit):
    out = []
    for v in tiny:
        e = py_encode(v)
        out += [e, e + PING, e + e]
    out.append(py_encode(tiny[0]) + py_encode(tiny[-1]) + py_encode(('S', b'')))
    out = [x for x in out if len(x) <= 70]
    if len(out) > 3 * limit:
        keep = out[:12]
        rest = out[12:]; r.shuffle(rest)
        out = keep + rest[:3 * limit - 12]
    return out

def stream_group(s, sid, r, nrandom):
    """the unsplit stream, every single split point, a few random multi-splits, byte by byte"""
    g = [('stream ' + vlib.hexs(s), {'kind': 'stream', 'sid': sid, 'stream': s, 'whole': True})]
    for i in range(1, len(s)):
        g.append(('stream %s %s' % (vlib.hexs(s[:i]), vlib.hexs(s[i:])), {'kind': 'stream', 'sid': sid, 'stream': s}))
    for _ in range(nrandom):
        cuts = sorted(set(r.randrange(0, len(s) + 1) for _ in range(r.randint(2, 7))))
        parts, p0 = [], 0
        for cpos in cuts + [len(s)]:
            parts.append(s[p0:cpos]); p0 = cpos
        g.append(('stream ' + ' '.join(vlib.hexs(x) for x in parts), {'kind': 'stream', 'sid': sid, 'stream': s}))
    if len(s) > 1:
        g.append(('stream ' + ' '.join(vlib.hexs(s[i:i + 1]) for i in range(len(s))), {'kind': 'stream', 'sid': sid, 'stream': s}))
    return g


def gen_cases(chk):
    r = chk.rng
    quick = chk.tier == 'quick'
    cases = []          # (line, meta)
    def add(line, **meta): cases.append((line, meta))

    # --- corpus: boundary values, the pre-fix witnesses, nesting limit
    corpus_vals = [('S', b'OK'), ('S', b''), ('E', b'ERR x'), ('I', b'-7'), ('I', b''), ('B', b''), ('B', b'a\r\nb'), ('B', b'\n'), ('BN',), ('AN',),
                   ('A', []), ('A', [('BN',)]), ('A', [('B', b'GET'), ('B', b'k\r\n')]), ('A', [('A', [('A', [])]), ('AN',)]), ('S', b'a\rb'), ('S', b'a\r'),
                   ('S', b'a\nb'), ('E', b'\n'), ('I', b'1\n2'), nest(127, ('S', b'a')), nest(128, ('S', b'a')), nest(129, ('S', b'a')), nest(128, ('AN',)),
                   nest(127, ('AN',)), nest(128, ('BN',)), ('A', [nest(127, ('B', b'x')), ('S', b'y')]), ('B', b'x' * 300), ('A', [('I', b'1')] * 12)]
    # arrays made of the shortest possible elements (3-byte `+\r\n` `-\r\n` `:\r\n`, 4-byte `:0\r\n` `*0\r\n`, `$-1\r\n`, `$0\r\n\r\n`):
    # alone, mixed, nested; each is decoded as the LAST thing in the buffer and followed by a pipelined packet, and streamed
    tiny = tiny_values()
    corpus_vals += tiny
    values = list(corpus_vals)
    nvals = 500 if quick else 6000
    for _ in range(nvals):
        values.append(gen_value(r, 0, r.choice([1, 2, 3, 4, 4, 6])))
    if not quick:
        for k in range(120, 135): values.append(nest(k, gen_value(r, 0, 1)))
    for v in values:
        add('enc ' + ' '.join(tokens(v)), kind='enc', value=v)
        e = py_encode(v)
        rest = r.choice([b'', b'', b'+x\r\n', b'$', b'\r\n', b'\n', b'*2\r\n', bytes(r.getrandbits(8) for _ in range(r.randint(1, 5)))])
        add('dec ' + vlib.hexs(e + rest), kind='rt', value=v, enc=e)
        if len(e) <= 64:
            # complete packet as the last thing in the buffer / followed by the first bytes of a pipelined packet
            for rest2 in (b'', b'*', b'*1', PING[:5], PING):
                if rest2 != rest: add('dec ' + vlib.hexs(e + rest2), kind='rt', value=v, enc=e)
    # --- malformed stream through one decode call
    for h in HOSTILE: add('dec ' + vlib.hexs(h), kind='mal')
    nmal = 4000 if quick else 40000
    for _ in range(nmal):
        v = r.choice(values[:len(corpus_vals)]) if r.random() < 0.2 else gen_value(r, 0, 3)
        e = py_encode(v)
        if len(e) > 400: continue
        c = r.random()
        if c < 0.6: m = mutate(r, e)
        elif c < 0.8: m = e[:r.randrange(len(e) + 1)]
        elif c < 0.9:
            # hostile / odd length prefixes
            n = r.choice([b'-1', b'-0', b'+0', b'+2', b'02', b'2', b'3', b'1', b' 2', b'2 ', b'9223372036854775807', b'9223372036854775808', b'99999', b'-9223372036854775808', b'', b'2a', b'--1', b'+-1'])
            m = r.choice([b'$', b'*']) + n + r.choice([b'\r\n', b'\n', b'\r', b'\r\n\r\n']) + r.choice([b'', b'ab\r\n', b'+a\r\n+b\r\n', b'ab', b'$1\r\na\r\n$1\r\nb\r\n'])
        else: m = bytes(r.choice(b'\r\n$*+-:012a') for _ in range(r.randint(0, 14)))
        add('dec ' + vlib.hexs(m), kind='mal')
    # --- streams: pipelines, every single split point, random multi-splits
    nstreams = 150 if quick else 900
    sid = 0
    for s0 in tiny_streams(tiny, r, 40 if quick else len(tiny)):
        sid += 1
        for ln, meta in stream_group(s0, sid, r, 3): cases.append((ln, meta))
    for si in range(nstreams):
        c = r.random()
        vs = [gen_value(r, 0, 2) for _ in range(r.choice([1, 2, 3, 4]))]
        s = b''.join(py_encode(v) for v in vs)
        if c < 0.25: s += py_encode(gen_value(r, 0, 2))[:-r.randint(1, 3)]          # incomplete tail
        elif c < 0.4: s = mutate(r, s)                                             # error somewhere in the stream
        elif c < 0.45: s += b'?junk'
        if len(s) > (90 if quick else 160) or not s: continue
        sid += 1
        add('stream ' + vlib.hexs(s), kind='stream', sid=sid, stream=s, whole=True)
        for i in range(1, len(s)):
            add('stream %s %s' % (vlib.hexs(s[:i]), vlib.hexs(s[i:])), kind='stream', sid=sid, stream=s)
        for _ in range(6 if quick else 20):
            cuts = sorted(set(r.randrange(0, len(s) + 1) for _ in range(r.randint(2, 7))))
            parts, p = [], 0
            for cpos in cuts + [len(s)]:
                parts.append(s[p:cpos]); p = cpos
            add('stream ' + ' '.join(vlib.hexs(x) for x in parts), kind='stream', sid=sid, stream=s)
        add('stream ' + ' '.join(vlib.hexs(s[i:i + 1]) for i in range(len(s))), kind='stream', sid=sid, stream=s)   # byte by byte
    # --- multi-packet decoder: hint scripts x splits
    nmulti = 200 if quick else 1500
    for mi in range(nmulti):
        hints = [r.choice(['s', 'm0', 'm1', 'm2', 'm3', 'm5']) for _ in range(r.randint(1, 3))]
        need = sum(1 if h == 's' else int(h[1:]) for h in hints)
        vs = [gen_value(r, 0, 2) for _ in range(max(0, need + r.choice([-1, 0, 0, 0, 1])))]
        s = b''.join(py_encode(v) for v in vs)
        if r.random() < 0.15: s = mutate(r, s)
        if len(s) > 120: continue
        sid += 1
        pre = ' '.join('P ' + h for h in hints[:1])
        # first hint before any data; further hints are produced between chunks (p-notready while a decode is pending)
        def script(parts):
            ev = [pre]
            hs = list(hints[1:])
            for x in parts:
                ev.append('C ' + vlib.hexs(x))
                if hs: ev.append('P ' + hs.pop(0))
            while hs: ev.append('P ' + hs.pop(0)); ev.append('C -')
            return 'multi ' + ' '.join(ev)
        add(script([s]), kind='multi', sid=sid, stream=s, whole=True, first=hints[0])
        for _ in range(5 if quick else 12):
            cuts = sorted(set(r.randrange(0, len(s) + 1) for _ in range(r.randint(1, 5)))) if s else []
            parts, p = [], 0
            for cpos in cuts + [len(s)]:
                parts.append(s[p:cpos]); p = cpos
            # single-hint scripts are comparable across splits (hints after the first depend on timing)
            add(('multi P %s ' % hints[0]) + ' '.join('C ' + vlib.hexs(x) for x in parts), kind='multi1', sid=sid, stream=s, first=hints[0])
        add(('multi P %s C %s' % (hints[0], vlib.hexs(s))), kind='multi1', sid=sid, stream=s, first=hints[0], whole=True)
    return cases

# ---------------- monitors on implementation output ----------------

def unhex(h): return b'' if h == '-' else bytes.fromhex(h)

def check_packet(data, toks):
    """strictness + value-of-own-bytes for one accepted packet; returns None or a description"""
    try:
        v, j = parse_tokens(toks)
    except Exception as e:
        return 'unparsable value %r' % (toks,)
    if j != len(toks): return 'trailing tokens in value'
    end = strict_match(v, data, 0)
    if end != len(data):
        return 'accepted bytes %r are not strict RESP text for the returned value %s' % (data, ' '.join(toks))
    if depth(v) > 128: return 'value nested deeper than MAX_ARRAY_NESTING accepted'
    return None

def monitor_single(line, meta, out):
    if out.startswith('panic') or out.startswith('paths-differ') or out.startswith('unknown') or out == '<no output>':
        return 'implementation paths disagree or panicked: ' + out[:200]
    kind = meta['kind']
    if kind == 'enc':
        e = py_encode(meta['value'])
        if out != 'enc ' + vlib.hexs(e): return 'encoder output differs from the RESP encoding of the value'
        return None
    if kind in ('rt', 'mal'):
        inp = unhex(line.split()[1]) if len(line.split()) > 1 else b''
        t = out.split()
        if t[0] == 'ok':
            n = int(t[1]); data = unhex(t[2])
            if data != inp[:n]: return 'kept bytes differ from the consumed prefix'
            bad = check_packet(data, t[3:])
            if bad: return bad
        elif out not in ('need', 'invalid'): return 'unexpected output ' + out[:80]
        if kind == 'rt':
            v, e = meta['value'], meta['enc']
            if wf(v) and depth(v) <= 128:
                exp = 'ok %d %s %s' % (len(e), vlib.hexs(e), ' '.join(tokens(v)))
                if out != exp: return 'round trip failed: decode(encode v ++ rest) gave %s' % out[:120]
        return None
    if kind == 'stream':
        items = out.split(' ; ')
        last = items[-1]
        datas = b''
        for it in items[:-1]:
            t = it.split()
            data = unhex(t[0]); datas += data
            bad = check_packet(data, t[1:])
            if bad: return bad
        s = meta['stream']
        if last.startswith('end'):
            left = unhex(last.split()[1])
            if datas + left != s: return 'forwarded bytes + leftover differ from the stream'
        elif last == 'err':
            if not s.startswith(datas): return 'packets before the error are not a prefix of the stream'
        else: return 'unexpected stream end ' + last[:60]
        return None
    if kind in ('multi', 'multi1'):
        if 'spin' in out or 'panic' in out: return 'multi decoder spins or panics'
        return None
    return None

def multi_canon(out):
    """sequence of outputs up to the first error, leftover if no error"""
    evs = out.split(' ; ')
    outs, err = [], False
    for e in evs[:-1]:
        if e.startswith('p-'): continue
        parts = e.split(', ')
        outs += parts[:-1]
        if parts[-1] == 'err': err = True; break
    return (tuple(outs), 'err' if err else evs[-1])


def run(chk):
    ok = vlib.standard_proof_phase(chk, TRUSTED, 'resp')
    chk.cov['rule'] = ('cases = values (seeded nested arrays, nil forms, empty/binary/CR-LF payloads, depth 127..129) through encode and decode-with-suffix; '
                       'mutated/truncated/hostile-length buffers through one decode call; pipelines x every single split point x random multi-splits x '
                       'byte-by-byte through RespCodec + FramedRead; hint scripts x splits through OptionalMultiPacketDecoder. non-trivial = distinct case '
                       'whose outcome the monitors constrain (all of them: every output is checked for strictness/forwarding/panic, round-trip and split '
                       'groups additionally for equality)')
    if not ok:
        return
    cases = gen_cases(chk)
    st = evaluate(chk, cases, None)
    nfail, disagreements = st['nfail'], st['disagreements']
    searched = 0
    if disagreements and not nfail:
        # failing-input search: the property monitors on small mutations of every disagreeing case
        extra = derive_search_cases(chk, disagreements)
        searched = len(extra)
        st2 = evaluate(chk, extra, 'failing-input search around the model/implementation disagreements (first: %s)' % disagreements[0]['case'][:120])
        nfail += st2['nfail']
        for k, v in st2['hist'].items(): st['hist']['search:' + k] = v
        st['ngroups'] += st2['ngroups']
    chk.cov['traces_validated_against_impl'] = len(cases) - len(disagreements)
    chk.sub('distribution', kinds=st['hist'], outcomes=st['outk'], split_groups=st['ngroups'], monitor_failures=nfail, disagreements=len(disagreements),
            failing_input_search_cases=searched)
    if disagreements and not nfail:
        chk.violation({'kind': 'correspondence', 'correspondence': 'Model/Resp.v vs src/protocol (stateless.rs, resp.rs, encoder.rs, packet.rs, codec.rs)',
                       'first': disagreements[0], 'count': len(disagreements),
                       'search': 'monitors (round trip, split invariance, forwarding, strictness, no panic) evaluated on all %d implementation outputs '
                                 'incl. the disagreeing ones and on %d derived cases (truncations, extensions by a pipelined packet, elements replaced by '
                                 'the shortest elements, encodings of the values the model parses): no property failure' % (len(cases), searched)}, no_input=True)


def evaluate(chk, cases, found_by):
    """runs implementation and model on the cases, evaluates every monitor on the implementation outputs"""
    lines = [c[0] for c in cases]
    rc1, impl = chk.run_impl('resp', lines, jobs=8)
    rc2, model = chk.run_model('resp', lines, jobs=8)
    hist, outk = {}, {}
    nfail, disagreements = 0, []
    groups = {}
    for i, (line, meta) in enumerate(cases):
        o = impl[i] if i < len(impl) else '<no output>'
        m = model[i] if i < len(model) else '<no output>'
        hist[meta['kind']] = hist.get(meta['kind'], 0) + 1
        ok_word = o.split(' ')[0] if meta['kind'] in ('rt', 'mal') else ('err' if o.endswith('err') else 'end') if meta['kind'] == 'stream' else meta['kind']
        outk[meta['kind'] + ':' + ok_word] = outk.get(meta['kind'] + ':' + ok_word, 0) + 1
        chk.count(line, True)
        bad = monitor_single(line, meta, o)
        if bad:
            nfail += 1
            d = {'kind': 'monitor', 'case': line, 'impl': o[:2000], 'model': m[:2000], 'what': bad}
            if 'value' in meta: d['value'] = ' '.join(tokens(meta['value']))[:400]
            if line.startswith('dec '): d['failing_bytes'] = repr(unhex(line.split()[1]) if len(line.split()) > 1 else b'')
            if found_by: d['found_by'] = found_by
            chk.violation(d)
        elif o != m:
            disagreements.append({'case': line, 'impl': o[:2000], 'model': m[:2000]})
        if meta['kind'] in ('stream', 'multi1'):
            groups.setdefault((meta['kind'], meta['sid']), []).append((line, o, meta.get('whole', False)))
        if i % 997 == 0 and not found_by: chk.sample({'case': line[:300], 'impl': o[:300], 'model': m[:300]})
    # split invariance on the implementation's outputs
    ngroups = 0
    for (kind, sid), members in groups.items():
        ngroups += 1
        whole = [x for x in members if x[2]]
        ref = whole[0] if whole else members[0]
        canon = (lambda o: o) if kind == 'stream' else multi_canon
        for line, o, _ in members:
            if canon(o) != canon(ref[1]):
                nfail += 1
                d = {'kind': 'monitor', 'case': line, 'cases': [ref[0], line], 'impl': o[:2000], 'impl_unsplit': ref[1][:2000],
                     'what': 'the packets produced depend on how the byte stream is split into reads'}
                if kind == 'stream': d['failing_bytes'] = repr(b''.join(unhex(x) for x in ref[0].split()[1:]))
                if found_by: d['found_by'] = found_by
                chk.violation(d)
                break
    return {'nfail': nfail, 'disagreements': disagreements, 'hist': hist, 'outk': outk, 'ngroups': ngroups}


def case_bytes(line):
    t = line.split()
    if t[0] == 'dec': return unhex(t[1]) if len(t) > 1 else b''
    if t[0] == 'stream': return b''.join(unhex(x) for x in t[1:])
    if t[0] == 'multi': return b''.join(unhex(t[i + 1]) for i in range(len(t) - 1) if t[i] == 'C')
    return None

def replace_elements(v):
    """the value with each / every element of its arrays (top two levels) replaced by the shortest elements"""
    out = []
    if v[0] != 'A': return out
    n = len(v[1])
    for e in SHORTEST:
        out.append(('A', [e] * n))
        for k in range(min(n, 4)):
            out.append(('A', v[1][:k] + [e] + v[1][k + 1:]))
    for k in range(min(n, 3)):
        for sub in replace_elements(v[1][k])[:8]:
            out.append(('A', v[1][:k] + [sub] + v[1][k + 1:]))
    return out

def derive_search_cases(chk, disagreements, max_dis=40):
    r = chk.rng
    byte_cands, values = [], []
    seen_b, seen_v = set(), set()
    def addb(b):
        if b is not None and len(b) <= 200 and b not in seen_b: seen_b.add(b); byte_cands.append(b)
    def addv(v):
        k = ' '.join(tokens(v))
        if len(k) < 600 and k not in seen_v: seen_v.add(k); values.append(v)
    for d in disagreements[:max_dis]:
        B = case_bytes(d['case'])
        if B is None:
            if d['case'].startswith('enc '):
                try: addv(parse_tokens(d['case'].split()[1:])[0])
                except Exception: pass
            continue
        addb(B); addb(B + PING); addb(B + b'+x\r\n')
        step = max(1, len(B) // 48)
        for i in range(0, len(B), step): addb(B[:i])
        # every declared array length in the bytes: arrays of that many shortest elements, uniform and mixed
        for mt in re.finditer(rb'\*([0-9]{1,2})\r\n', B):
            n = int(mt.group(1))
            if 1 <= n <= 8:
                for e in SHORTEST: addv(('A', [e] * n))
                addv(('A', [SHORTEST[k % len(SHORTEST)] for k in range(n)]))
                addv(('A', [('A', [SHORTEST[k % 3] for k in range(n)])]))
        for out in (d['impl'], d['model']):
            t = out.split()
            if t and t[0] == 'ok':
                try: addv(parse_tokens(t[3:])[0])
                except Exception: pass
    # values the model parses out of the byte candidates
    _, mouts = chk.run_model('resp', ['dec ' + vlib.hexs(b) for b in byte_cands], jobs=4)
    for o in mouts:
        t = o.split()
        if t and t[0] == 'ok':
            try: addv(parse_tokens(t[3:])[0])
            except Exception: pass
    for v in list(values)[:120]:
        for w in replace_elements(v)[:60]: addv(w)
    values = values[:700]
    cases = []
    sid = 10 ** 6
    for v in values:
        e = py_encode(v)
        cases.append(('enc ' + ' '.join(tokens(v)), {'kind': 'enc', 'value': v}))
        for rest in (b'', b'*', b'*1', PING[:5], PING, b'+x\r\n'):
            cases.append(('dec ' + vlib.hexs(e + rest), {'kind': 'rt', 'value': v, 'enc': e}))
        if len(e) <= 48:
            for s0 in (e, e + PING):
                sid += 1
                cases += stream_group(s0, sid, r, 2)
    for b in byte_cands:
        cases.append(('dec ' + vlib.hexs(b), {'kind': 'mal'}))
        if 0 < len(b) <= 48:
            sid += 1
            cases += stream_group(b, sid, r, 2)
    return cases


def replay(data):
    chk = vlib.Check('C15', 'quick', 0)
    cs = data.get('cases') or [data.get('case') or (data.get('first') or {}).get('case')]
    cs = [c for c in cs if c]
    if not cs:
        print(data); return 0
    chk.build_impl('resp')
    _, impl = chk.run_impl('resp', cs); _, model = chk.run_model('resp', cs)
    rc = 0
    for i, c in enumerate(cs):
        print('case :', c); print('impl :', impl[i] if i < len(impl) else None); print('model:', model[i] if i < len(model) else None)
    # re-evaluate what can be evaluated without generator metadata
    for i, c in enumerate(cs):
        o = impl[i] if i < len(impl) else '<no output>'
        k = c.split()[0]
        meta = {'kind': {'enc': 'enc', 'dec': 'mal', 'stream': 'stream', 'multi': 'multi'}.get(k, 'mal')}
        if k == 'enc':
            meta['value'] = parse_tokens(c.split()[1:])[0]
        if k == 'stream':
            meta['stream'] = b''.join(unhex(x) for x in c.split()[1:])
        bad = monitor_single(c, meta, o)
        if k == 'dec' and not bad:
            # round-trip clause: if the input starts with the encoding of a wf value the decoder must return it
            pass
        print('monitor:', bad)
        if bad: rc = 1
    if len(cs) == 2 and cs[0].split()[0] in ('stream', 'multi') and len(impl) == 2:
        canon = (lambda o: o) if cs[0].startswith('stream') else multi_canon
        same = canon(impl[0]) == canon(impl[1])
        print('split-invariance:', 'ok' if same else 'VIOLATED')
        if not same: rc = 1
    return rc
