import broker_common as bc
MANIFEST = {'text': ('Coq theorems (Props/C06.v, 15 theorems, all closed under the global context) about the executable broker model '
                     'Model/Broker.v: (1) C06_structure / C06_structure_cluster / C06_tag_names_owner - for every chunk in every role position '
                     'chunk_nodes yields exactly two masters and two replicas, each node\'s peer is on the other proxy with the opposite role and '
                     'mutually consistent peer records, replicas carry no slots, and the owner of part p is node part_node_index p role on proxy '
                     'part_proxy_index p role (the index tables of cluster_store_to_cluster and to_slot_range agree, so migration tags name the '
                     'actual masters); (2) C06_takeover_ownership / C06_takeover_view / C06_replace_ownership - takeover_master for the first chunk holding the failed '
                     'proxy changes only that chunk\'s role and mm_epoch fields: stable slots, range lists, directions, positions, node and proxy '
                     'addresses of every chunk are unchanged, every part owned on the failed proxy is owned afterwards by the old owner\'s '
                     'replication peer on the partner proxy, every other part keeps owner node and proxy, no node on the failed proxy of that '
                     'chunk is master, and the same owner statement holds across the whole of replace_failed_proxy including the replacement '
                     'loop; (3) C06_reissue - every entry list is mapped through reepoch_peers(moved positions): all entries of moved '
                     'parts get the new epoch, both parts when the chunk already had both masters on the failing proxy (the fixed defect), under '
                     'well-placed twin entries (mig_wf) every entry anywhere touching a moved part gets the new epoch, and mig_wf (equal metas of '
                     'out/in twins) is preserved; (4) C06_idempotent* - a second takeover / replace_failed_proxy for the same address changes '
                     'neither roles nor migration entries of any cluster; (5) C06_never_allocate_failed / C06_allocators_free - for every op '
                     'except ORestore a proxy that is in a cluster afterwards was in a cluster before or satisfied is_free (no cluster, not in '
                     'st_failed, no entry in st_failures); (6) C06_epoch_newer* - replace_failed_proxy re-issues with st_epoch+1, strictly greater '
                     'than every stored migration epoch under the invariant store_epochs_le, which replace_failed_proxy preserves. '
                     'Correspondence run (broker_common.standard_run): corpus scenarios + seeded random operation histories with a random failing '
                     'proxy at random points (before/during/after migrations, repeated calls, with/without spares, ordered mode); after every '
                     'operation the canonical store text and all cluster/proxy views under migration limits 0,1,2 of the real MetaStore and of '
                     'the extracted model are compared, and the C06/C06epoch monitors of harness/broker/src/mon.rs are evaluated on the real views.'),
            'note': ('Trusted base: the hand-written model Model/Broker.v (validated only differentially), extraction, the harness and its '
                     'monitors, the oracle for hash-order dependent allocator choices. Partial / not proved: store_epochs_le and mig_wf are stated '
                     'as hypotheses/invariants and proved preserved by replace_failed_proxy / takeover_master only, not for all reachable stores '
                     '(migrate_slots, commit_migration etc. are not covered here); theorems 2-3 are about takeover_master on the stored cluster '
                     '(node view via chunk_nodes), not composed with limit_migration; ORestore is excluded from C06_never_allocate_failed (it installs an arbitrary snapshot); "partner is healthy" is not '
                     'a model notion - the theorems hold regardless, the statement about no master on a failed proxy is per failing chunk.'),
            'technique': 'Coq proof over a hand-written model + differential correspondence check against the real code'}
def run(chk): bc.standard_run(chk, 'C06')
def replay(data): return bc.replay('C06', data)
