import broker_common as bc
MANIFEST = {'text': 'in progress', 'note': 'in progress', 'technique': 'Coq proof over a hand-written model + differential correspondence check against the real code'}
def run(chk): bc.standard_run(chk, 'C06')
def replay(data): return bc.replay('C06', data)
