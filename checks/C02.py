"""C02 Synced proxies route every key to the broker-designated master.
Proof: coq/Props/C02.v over Model/Route.v (on top of the served views of Model/Broker.v).
Correspondence: a scripted broker history on a real MetaStore, one REAL proxy (SharedForwardHandler) per cluster proxy in one
process, metadata delivered by the coordinator's real ProxyMetaRespSender (plain and compressed), migration phases pinned by
gating the real PRECHECK / PRESWITCH / SCAN / FINALSWITCH traffic, a GET for one key of each of the 16384 slots at every proxy;
the extracted model must allow the observed answer of every (proxy, slot).
Monitors: the property itself on the real answers (chase every slot from every proxy), computed from the real cluster view."""
import vlib, random

MANIFEST = {
  'text': 'Theorems C02_reachable_route / C02_reachable_route_dynamic / C02_reachable_views: for EVERY store reachable by any sequence of broker '
          'operations (BrokerTotal.reachable_any), every migration limit, every served cluster view, every proxy of the cluster holding what the '
          'coordinator makes it install from its own broker view, every slot, every start proxy, every phase assignment made of the eight handshake '
          'pairs and every chase incl. hash-order dependent choices: <= 1 redirection for a stable slot, <= 2 for a migrating one with phases fixed '
          'and <= 3 when the handshake advances during the chase (bound reached), end = execution on the broker-designated node or parked behind a '
          'raised barrier on an allowed node, never an error, never a node other than owner / source / destination. The only hypothesis left is '
          'phases_ok (the property\'s own "consistent pair of migration phases"); partition_ok is C01 and view_wfb is derived (RouteProofsBroker*.v) '
          'from C01, the C12 accounting invariant and a new store invariant proved for every operation. The view-level theorems C02_route, '
          'C02_route_dynamic, C02_no_stray_exec, C02_progress, C02_install_of_view are kept. Model/Route.v mirrors send_cmd_ctx / '
          'MigrationMap::send / the scan tasks\' send / SlotMap / RangeMap / TaskBlockingQueue::send; it is tied to the code by running real proxies '
          'fed by the real broker store through the real coordinator encoder in both encodings with the handshake pinned in each of the eight '
          'phase pairs and comparing every (proxy, slot) answer; the property monitor (chase from every proxy for every slot) runs on the real answers.',
  'note': 'Coq kernel; closed under the global context; extraction (ExtrOcamlBasic) + OCaml driver; in-process fake Redis nodes and fake control '
          'network. PARTIAL for phase races: all eight (source, destination) phase pairs are forced on the real tasks and probed while they are '
          'stable, but a phase change DURING a chase (the third redirection) is covered by C02_route_dynamic at model level only. The broker-level '
          'theorems are about Model/Broker.v, whose resources get the node addresses 2a, 2a+1 (distinct node addresses per proxy are an operator '
          'obligation in the real broker, where add_proxy takes them as arguments). Outside the eight pairs (reachable only through the '
          'max_blocking_time time-out of scan_task.rs) the model shows a MOVED ping-pong and a two-node split (Examples '
          'C02_*_outside_consistent_pairs, replayed on the real proxies: work/C02_witness_*.json); those are not claimed. active_redirection = false '
          'only. Parked commands are recognised by a quiescence time-out in the harness; a failing case is re-run once in isolation with a longer '
          'time-out before it is reported.',
  'technique': 'Coq proof over a hand-written model + differential correspondence check against real in-process proxies',
 }

TRUSTED = ['Coq 8.16.1 kernel (coqc; coqchk in the thorough tier); Print Assumptions of every theorem: closed under the global context',
           'extraction with ExtrOcamlBasic only + ocaml/vio.ml, d_route.ml, driver_lib.ml',
           'the broker-level theorems rest on the broker group\'s proofs (BrokerTotal, BrokerPartMain, BrokerAcct*, BrokerBalance*, '
           'BrokerCommitAccepts) - all closed; view_wfb, now a derived fact, is still evaluated on every real view by the extracted boolean',
           'harness/route: net.rs (fake Redis nodes answering GET nil / EXISTS 0 / DUMP nil / PTTL -2 / SCAN, fake control network that hands '
           'UMCTL commands to the target proxy\'s real handler and can hold or drop PRECHECK / PRESWITCH / FINALSWITCH), store.rs (broker ops, '
           'IP-literal address scheme), dom.rs (probing, quiescence detection for parked commands, monitor)',
           'a probe is reported as parked (Q) only on positive evidence: the scheduling hook of proxy/blocking.rs (common::verif_sched, label '
           '"enqueue" / "redispatch") counts the commands put into / taken out of a blocking queue, and probing of a proxy ends when answered + '
           'parked = 16384; the barrier flag of PRE_BLOCKING / SCANNING is established by a sentinel command and the same counters; no '
           'classification depends on a wall-clock wait (a machine so starved that nothing moves for 180 s yields a harness error, never a Q)',
           'phases of the real tasks are read back through UMCTL INFO; the barrier flag is derived from them (PRE_BLOCKING / PRE_SWITCH => raised), '
           'max_blocking_time is set to 600 s in the cluster config so that the barrier cannot time out during a case',
           'one probe key per slot: "{k<i>}:<proxy>" with generate_slot("k<i>") = slot (key -> slot hashing itself is C09)']

PINS = ['pc', 'pb', 'psh', 'psd', 'scan', 'fsh', 'fsd', 'sc']
PAIR = {'pc': 'PRE_CHECK/PRE_CHECK', 'pb': 'PRE_BLOCKING/PRE_CHECK', 'psh': 'PRE_SWITCH/PRE_CHECK', 'psd': 'PRE_SWITCH/PRE_SWITCH',
        'scan': 'SCANNING/PRE_SWITCH', 'fsh': 'FINAL_SWITCH/PRE_SWITCH', 'fsd': 'FINAL_SWITCH/SWITCH_COMMITTED',
        'sc': 'SWITCH_COMMITTED/SWITCH_COMMITTED'}


def base(n, hosts=3):
    return 'H 0 ; ' + ' ; '.join('addproxy %d %d -' % (i, 10 + (i % hosts)) for i in range(1, n + 1))


def corpus():
    """(name, history) hand-written states: always run"""
    return [
        ('scale-out-4-to-8', base(8) + ' ; addcluster 1 4 1 ? ; addnodes 1 4 ? ; migrate 1'),
        ('failover-then-scale-out-one-committed', base(12) + ' ; addcluster 1 8 1 ? ; replace 1 0 ? ; replace 2 0 ? ; replace 5 0 ? ; addnodes 1 4 ? ; migrate 1 ; commitnth 1 0 0'),
        ('scale-down-8-to-4', base(12) + ' ; addcluster 1 8 1 ? ; scaledown 1 4'),
        ('failover-during-migration', base(12) + ' ; addcluster 1 4 1 ? ; addnodes 1 4 ? ; migrate 1 ; replace 1 0 ? ; replace 2 0 ? ; replace 3 0 ? ; replace 4 0 ?'),
        ('scale-out-4-to-12', base(12) + ' ; addcluster 1 4 1 ? ; addnodes 1 8 ? ; migrate 1'),
        ('no-migration-after-failover', base(10) + ' ; addcluster 1 8 1 ? ; replace 3 0 ? ; replace 4 0 ? ; balance 1'),
    ]


COMMITS = ' ; '.join(['commitnth 1 0 0'] * 14)


def uneven():
    """(name, history): scale-outs / scale-ins where 16384 is not divisible by the new master count, so that the planners cut
    remainder pieces (one-slot ranges such as 16383-16383); each one mid-migration and after every commit"""
    out = []
    def both(name, n, ops):
        out.append((name + '-mid', base(n) + ' ; ' + ops))
        out.append((name + '-committed', base(n) + ' ; ' + ops + ' ; ' + COMMITS))
    both('uneven-4-to-12', 12, 'addcluster 1 4 1 ? ; addnodes 1 8 ? ; migrate 1')
    both('uneven-4-to-20', 20, 'addcluster 1 4 1 ? ; addnodes 1 16 ? ; migrate 1')
    both('uneven-8-to-12', 12, 'addcluster 1 8 1 ? ; addnodes 1 4 ? ; migrate 1')
    both('uneven-12-to-8', 12, 'addcluster 1 12 1 ? ; scaledown 1 8')
    both('uneven-4-to-12-to-8', 12, 'addcluster 1 4 1 ? ; addnodes 1 8 ? ; migrate 1 ; ' + COMMITS + ' ; scaledown 1 8')
    return out


RESYNC = ' ; sync ; balance 1'     # the coordinator's next round: same running tasks, higher epoch


def resync_states():
    """metadata applied twice while the same migrations are running (MigrationMap::update_from_old_task_map with reused tasks only)"""
    b = base(12) + ' ; addcluster 1 4 1 ? ; addnodes 1 8 ? ; migrate 1'
    return [
        ('resync-epoch-bump', b + RESYNC),
        ('resync-after-one-commit', b + ' ; sync ; commitnth 1 0 0'),
        ('resync-after-failover', b + ' ; sync ; replace 1 0 ? ; replace 2 0 ? ; replace 3 0 ?'),
        ('resync-twice', b + ' ; sync ; commitnth 1 1 0 ; balance 1'),
    ]


def gen_history(rng):
    n = rng.choice([8, 10, 12, 14, 16, 20, 24])
    hosts = rng.choice([2, 3, 4])
    ops = [base(n, hosts)]
    k0 = rng.choice([4, 4, 8, 8, 12])
    k0 = min(k0, (n // 2) * 2 // 4 * 4) or 4
    ops.append('addcluster 1 %d %d ?' % (k0, rng.randint(1, 9)))
    def failovers(m):
        for _ in range(m):
            ops.append('replace %d 0 ?' % rng.randint(1, n))
    failovers(rng.choice([0, 0, 1, 2, 3]))
    if rng.random() < 0.2:
        ops.append('balance 1')
    kind = rng.random()
    if kind < 0.55:
        ops.append('addnodes 1 %d ?' % rng.choice([4, 4, 8, 8, 12, 16]))
        ops.append('migrate 1')
    elif kind < 0.85 and k0 >= 8:
        ops.append('scaledown 1 %d' % rng.choice([4, k0 - 4]))
    else:
        ops.append('autochange 1 %d ?' % rng.choice([4, 8, 12]))
        ops.append('autoscaleout 1 %d' % rng.choice([8, 12, 16]))
    failovers(rng.choice([0, 0, 0, 1, 2]))
    ncommit = rng.choice([0, 0, 1, 1, 2, 14])
    for _ in range(ncommit):
        ops.append('commitnth 1 %d %d' % (rng.randint(0, 5) if ncommit < 14 else 0, rng.random() < 0.5 and ncommit < 14))
    if ncommit == 14 and rng.random() < 0.5:
        # a second, uneven resize on top of the committed one
        ops.append(rng.choice(['scaledown 1 4', 'scaledown 1 8', 'addnodes 1 4 ? ; migrate 1', 'addnodes 1 8 ? ; migrate 1']))
    if rng.random() < 0.15:
        failovers(1)
    if rng.random() < 0.35:
        ops.append('sync')
        ops.append(rng.choice(['balance 1', 'commitnth 1 0 0', 'replace %d 0 ?' % rng.randint(1, n), 'commitnth 1 1 1 ; balance 1']))
    return ' ; '.join(ops)


def gen_cases(chk):
    cases = []
    cor = corpus()
    if chk.tier == 'quick':
        # first state: all eight pairs in both encodings; the others: a rotating subset; limited views on two of them
        for pin in PINS:
            cases.append(('plain', 0, pin, cor[0]))
            cases.append(('comp', 0, pin, (cor[0][0] + '-resync', cor[0][1] + RESYNC)))
        rs = resync_states()
        for j, pin in enumerate(['scan', 'fsh', 'sc', 'pc', 'psd']):
            cases.append(('plain' if j % 2 else 'comp', 0, pin, rs[j % len(rs)]))
        for i, st in enumerate(cor[1:4]):
            for j, pin in enumerate(['pc', 'psd', 'scan', 'sc', 'pb', 'fsd']):
                enc = 'plain' if (i + j) % 2 == 0 else 'comp'
                lim = 1 if (i + j) % 3 == 2 else 0
                cases.append((enc, lim, pin, st))
        cases.append(('comp', 0, 'sc', cor[5]))
        cases.append(('plain', 0, 'pc', cor[5]))
        un = uneven()
        for j, pin in enumerate(PINS):      # 4 -> 12 mid-migration: every phase pair
            cases.append(('plain' if j % 2 else 'comp', 0, pin, un[0]))
        for i, st in enumerate(un[1:]):
            if st[0].endswith('-committed'):
                cases.append(('plain' if i % 2 else 'comp', 0, 'sc', st))
            else:
                for j, pin in enumerate([PINS[(2 * i + 1) % 8], PINS[(2 * i + 4) % 8]]):
                    cases.append(('comp' if (i + j) % 2 else 'plain', 1 if (i + j) % 4 == 3 else 0, pin, st))
        for k in range(3):
            h = ('random-%d' % k, gen_history(chk.rng))
            for pin in chk.rng.sample(PINS, 2):
                cases.append((chk.rng.choice(['plain', 'comp']), chk.rng.choice([0, 0, 1]), pin, h))
    else:
        for st in cor + uneven() + resync_states():
            for pin in (PINS if not st[0].endswith('-committed') else ['sc', 'pc']):
                for enc in ('plain', 'comp'):
                    cases.append((enc, 0, pin, st))
            for pin in ('pc', 'psd', 'sc'):
                cases.append(('comp', 1, pin, st))
                cases.append(('plain', 2, pin, st))
        for k in range(40):
            h = ('random-%d' % k, gen_history(chk.rng))
            for pin in PINS:
                cases.append((chk.rng.choice(['plain', 'comp']), chk.rng.choice([0, 0, 1, 2]), pin, h))
    return cases


def case_line(c):
    enc, lim, pin, (name, hist) = c
    # PreBlocking is pinned with a plug command per source node; a re-sync that re-creates tasks on other nodes cannot keep that pin
    if pin == 'pb' and ' sync ' in hist and not hist.endswith(RESYNC):
        pin = 'psh'
    return '%s %d %s | %s' % (enc, lim, pin, hist)


def split_impl(line):
    """R <hist> ## V h ## PH .. ## OBS .. ## MON .."""
    parts = line.split(' ## ')
    if len(parts) != 5 or not parts[0].startswith('R ') or not parts[4].startswith('MON '):
        return None
    return {'resolved': parts[0][2:], 'V': parts[1], 'PH': parts[2], 'OBS': parts[3], 'MON': parts[4][4:]}


def model_lines(lines, parsed):
    out = []
    for l, (p, o) in zip(lines, parsed):
        out.append(l.split('|')[0] + '| ' + p['resolved'] + ' ## ' + p['PH'] + ' ## ' + p['OBS'] if p else None)
    return out


def run_model_on(chk, mlines, jobs):
    todo = [m for m in mlines if m]
    rc2, model = chk.run_model('route', todo, jobs=jobs, timeout=3000) if todo else (0, [])
    it = iter(model)
    return [next(it, '') if m else '' for m in mlines]


def case_ok(p, m):
    if not p or not p['MON'].startswith('ok ') or ' note=' in p['MON']:
        return False
    mp = m.split(' ## ')
    return len(mp) == 4 and [p['V'], p['PH'], p['OBS']] == mp[:3]


def run_pipeline(chk, lines, jobs, retried=None):
    """every case through the real proxies, then through the model.  Only a case in which the HARNESS itself got stuck (no result line, a
    probe neither answered nor counted into a blocking queue for 180 s, phases that could not be pinned) is re-run once, alone; every
    other failure is reported as it is."""
    rc, impl = chk.run_impl('route', lines, jobs=jobs, timeout=3000)
    parsed = []
    for i, l in enumerate(lines):
        o = impl[i] if i < len(impl) else ''
        parsed.append((split_impl(o), o))
    mout = run_model_on(chk, model_lines(lines, parsed), jobs)
    def harness_trouble(p):
        return (not p) or 'harness_probe' in p['MON'] or ' note=' in p['MON']
    bad = [i for i in range(len(lines)) if harness_trouble(parsed[i][0])]
    for i in bad[:12]:
        rc, o = vlib.sh([vlib.UMH('route')], inp=lines[i] + '\n', timeout=600, env=dict(vlib.ENV))
        o = o.strip().split('\n')[-1] if o.strip() else ''
        p2 = (split_impl(o), o)
        m2 = run_model_on(chk, model_lines([lines[i]], [p2]), 1)[0]
        if retried is not None:
            retried.append({'case': lines[i][:200], 'first': (parsed[i][0] or {}).get('MON', parsed[i][1][:200])[:300],
                            'second': (p2[0] or {}).get('MON', o[:200])[:300], 'second_ok': case_ok(p2[0], m2)})
        parsed[i], mout[i] = p2, m2
    return parsed, mout


def analyse(chk, cases, lines, parsed, mout):
    stats = {'cases': len(cases), 'pins': {}, 'encodings': {}, 'limits': {}, 'states': {}, 'proxies_per_state': {}, 'migrations_per_case': {},
             'pairs_exercised_on_real_tasks': {}, 'chases_on_real_proxies': 0, 'max_redirections_stable': 0, 'max_redirections_migrating': 0,
             'chases_ended_parked': 0, 'parked_behind_other_migrations_barrier': 0, 'model_chases': 0,
             'one_slot_ranges_in_states': 0, 'ranges_shorter_than_4_slots_in_states': 0, 'cases_with_a_one_slot_range': 0,
             'cases_with_a_one_slot_range_mid_migration': 0,
             'disagreements': 0, 'monitor_failures': 0}
    first_dis = None
    for c, line, (p, raw), m in zip(cases, lines, parsed, mout):
        enc, lim, pin, (name, hist) = c
        for k, v in (('pins', pin), ('encodings', enc), ('limits', str(lim)), ('states', name)):
            stats[k][v] = stats[k].get(v, 0) + 1
        if not p:
            chk.violation({'kind': 'correspondence', 'correspondence': 'harness/route produced no result line', 'case': line, 'impl': raw[:500]}, no_input=True)
            stats['disagreements'] += 1
            continue
        nmig = 0 if p['PH'] == 'PH -' else len(p['PH'].split()) - 1
        stats['migrations_per_case'][str(nmig)] = stats['migrations_per_case'].get(str(nmig), 0) + 1
        stats['proxies_per_state'][name] = p['OBS'].count('=')
        for tok in (p['PH'].split()[1:] if nmig > 0 else []):
            pair = tok.split('=')[1] if '=' in tok else '?'
            stats['pairs_exercised_on_real_tasks'][pair] = stats['pairs_exercised_on_real_tasks'].get(pair, 0) + 1
        mon = p['MON']
        mtoks = dict(t.split('=', 1) for t in mon.split() if '=' in t)
        stats['chases_on_real_proxies'] += int(mtoks.get('chases', 0))
        stats['max_redirections_stable'] = max(stats['max_redirections_stable'], int(mtoks.get('maxredir_stable', 0)))
        stats['max_redirections_migrating'] = max(stats['max_redirections_migrating'], int(mtoks.get('maxredir_migrating', 0)))
        stats['chases_ended_parked'] += int(mtoks.get('ended_queued', 0))
        stats['parked_behind_other_migrations_barrier'] += int(mtoks.get('queued_node_barrier', 0))
        stats['one_slot_ranges_in_states'] += int(mtoks.get('one_slot_ranges', 0))
        stats['ranges_shorter_than_4_slots_in_states'] += int(mtoks.get('short_ranges', 0))
        if int(mtoks.get('one_slot_ranges', 0)) > 0:
            stats['cases_with_a_one_slot_range'] += 1
            if nmig > 0: stats['cases_with_a_one_slot_range_mid_migration'] += 1
        chk.count(line, nmig > 0)
        bad = None
        if not mon.startswith('ok '):
            bad = mon.split(' chases=')[0]
        elif 'note' in mtoks:
            # the handshake moved while the slots were being probed, or the coordinator's sender failed: the observation is not a snapshot
            chk.violation({'kind': 'correspondence', 'correspondence': 'harness/route could not pin the case', 'case': line, 'detail': mtoks['note']}, no_input=True)
        # (a re-sync that creates new tasks - failover, commit - lets those start under the already opened gates: no pin requirement there)
        if nmig > 0 and ' sync ' not in line and any(t.split('=')[1] != PAIR[pin] for t in p['PH'].split()[1:]):
            chk.violation({'kind': 'correspondence', 'correspondence': 'harness/route could not reach the pinned phase pair', 'case': line, 'observed': p['PH']}, no_input=True)
        if bad:
            stats['monitor_failures'] += 1
            chk.violation({'kind': 'monitor', 'case': line, 'what': bad.replace('_', ' '), 'phases': p['PH'], 'impl': raw[:2000], 'model': m[:2000]})
        mp = m.split(' ## ')
        agree = len(mp) == 4 and [p['V'], p['PH'], p['OBS']] == mp[:3]
        if not agree:
            stats['disagreements'] += 1
            if first_dis is None:
                first_dis = {'case': line, 'impl': ' ## '.join([p['V'], p['PH'], p['OBS']])[:3000], 'model': m[:3000]}
        if len(mp) == 4:
            mm = dict(t.split('=', 1) for t in mp[3].split() if '=' in t)
            stats['model_chases'] += int(mm.get('chases', 0))
            if mm.get('view_wf') != 'true':
                chk.violation({'kind': 'model-monitor', 'what': 'hypothesis view_wfb is false on a real broker view', 'case': line}, no_input=True)
            if mm.get('phases_ok') != 'true':
                chk.violation({'kind': 'model-monitor', 'what': 'the real tasks were observed in a phase pair outside the modelled eight', 'case': line, 'phases': p['PH']}, no_input=True)
            if mm.get('chase_bad', '0') != '0' or mm.get('phases_missing', '0') != '0':
                chk.violation({'kind': 'model-monitor', 'what': 'extracted chase_okb false on the model of a real state: ' + mp[3], 'case': line}, no_input=True)
        if len(chk.cov['samples']) < 4 and nmig > 0:
            chk.sample({'case': line[:300], 'phases': p['PH'], 'obs': p['OBS'][:400], 'monitor': mon, 'model_monitors': mp[3] if len(mp) == 4 else m[:200]})
    chk.cov['traces_validated_against_impl'] = len(cases) - stats['disagreements']
    if first_dis and not stats['monitor_failures']:
        chk.violation(dict(first_dis, kind='correspondence', correspondence='Model/Route.v route_step (over Model/Broker.v view_proxy) vs the real proxies',
                           count=stats['disagreements'],
                           search='property monitor evaluated on all %d real chases of %d cases: no property failure' % (stats['chases_on_real_proxies'], len(cases))),
                      no_input=True)
    return stats


def run(chk):
    ok = vlib.standard_proof_phase(chk, TRUSTED, 'route')
    chk.cov['rule'] = ('case = (broker history on a real MetaStore, metadata encoding plain|compressed, migration limit of the views, pinned phase pair); '
                       'per case every cluster proxy is a real SharedForwardHandler and every one of the 16384 slots is probed with a GET at every proxy; '
                       'the answer of each (proxy, slot) must be in the model\'s allowed set and the property monitor chases every slot from every proxy on the '
                       'real answers; non-trivial = distinct case with at least one migration in flight')
    if not ok:
        return
    cases = gen_cases(chk)
    lines = [case_line(c) for c in cases]
    jobs = 6
    retried = []
    parsed, mout = run_pipeline(chk, lines, jobs, retried)
    stats = analyse(chk, cases, lines, parsed, mout)
    stats['retried_cases'] = retried
    if stats['cases_with_a_one_slot_range_mid_migration'] == 0 or stats['cases_with_a_one_slot_range'] == stats['cases_with_a_one_slot_range_mid_migration']:
        chk.violation({'kind': 'coverage', 'detail': 'the generated broker states contain no one-slot range mid-migration and/or after the commits '
                       '(uneven resizes are part of the corpus): %r' % {k: stats[k] for k in stats if 'one_slot' in k}}, no_input=True)
    stats['pairs_only_at_model_level'] = [v for v in PAIR.values() if v not in stats['pairs_exercised_on_real_tasks']]
    stats['phase_change_during_a_chase'] = 'not exercised on the real code (model level only)'
    chk.sub('distribution', **stats)


def replay(data):
    """re-runs the case of a replay file; an optional "env" entry (UM_ROUTE_* knobs of harness/route) is passed to the harness - the two
    witnesses for phase pairs outside the consistent list (work/C02_witness_*.json) need a short max_blocking_time"""
    import os
    chk = vlib.Check('C02', 'quick', 0)
    c = data.get('case') or (data.get('first') or {}).get('case')
    if not c:
        print(data); return 0
    chk.build_impl('route'); chk.build_models('route')
    rc, o = vlib.sh([vlib.UMH('route')], inp=c + '\n', timeout=600, env=dict(vlib.ENV, **data.get('env', {})))
    raw = o.strip().split('\n')[-1] if o.strip() else ''
    p = split_impl(raw)
    m = run_model_on(chk, model_lines([c], [(p, raw)]), 1)[0]
    print('case :', c)
    print('impl :', raw[:4000])
    print('model:', m[:4000])
    if not p:
        return 1
    agree = [p['V'], p['PH'], p['OBS']] == m.split(' ## ')[:3]
    print('agree:', agree, '  monitor:', p['MON'][:600])
    return 0 if p['MON'].startswith('ok ') else 1
