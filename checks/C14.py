"""C14 CLUSTER NODES and CLUSTER SLOTS advertise each slot once and agree with routing.
Proof: coq/Props/C14.v over Model/Topo.v (+ Model/Slot.v for routing).  Correspondence: the real ClusterBackendMap
(gen_cluster_nodes both versions, gen_cluster_slots, send probed for one key of each of the 16384 slots) with arbitrary
HashMap<RangeList, MigrationState>, and a real in-process proxy (UMCTL SETCLUSTER creating real migration tasks, importing
tasks driven by real UMCTL PRECHECK/PRESWITCH/FINALSWITCH, CLUSTER NODES / CLUSTER SLOTS, states read back from UMCTL INFO)
against the extracted model.  Monitors: uniqueness, NODES == SLOTS, agreement with the routing probe, source/destination rule."""
import vlib, re

MANIFEST = {
  'text': 'Theorems C14_unique (well-formed view, EVERY state map: each covered slot is advertised under exactly one address), C14_agree (NODES in both versions and SLOTS '
          'advertise the same (address, slot) relation, for arbitrary metadata and states), C14_version_field, C14_matches_routing (a slot not under migration is advertised exactly at its '
          'claimant; a local claim iff Slot.route executes locally, a peer claim iff Slot.route answers MOVED / forwards to exactly that peer), C14_migrating (advertised at the source '
          'iff the proxy\'s task state for that range list is PreCheck, otherwise - later phases, or no task at all on a bystander - at the destination), C14_states about Model/Topo.v, '
          'which mirrors should_ignore_slots, gen_cluster_nodes_helper (V1/V2), gen_cluster_slots_helper, the local/remote composition in cluster.rs and MigrationMap::get_states. '
          'Over broker histories (Proofs/TopoProofsBroker*.v): meta_of_vproxy = what a proxy installs from the broker\'s per-proxy view (coordinator filter_proxy_masters + HashMap inserts + ProxyClusterMeta::new); '
          'C14_view_core_broker: for every store reached by ANY broker operation sequence, every limit, address and served proxy view, the installed claims satisfy wf_view_core (wf_view without NoDup; '
          'NoDup fails for duplicated EMPTY stable slot ranges of drained masters on one proxy and is not needed by any conclusion); C14_unique_broker / C14_migrating_broker: the conclusions of C14_unique / C14_migrating with '
          'reachable_any s and the view equation as the only hypotheses (every slot < 16384 of a proxy in a cluster is advertised exactly once; a visible MIGRATING entry is advertised at vm_src_proxy iff the task state is PreCheck, else at vm_dst_proxy). '
          'Sequences: on ONE installed metadata (no SETCLUSTER in between) a real proxy acting as migration source / destination / bystander is stepped through PreCheck, PreSwitch, Scanning, FinalSwitch, SwitchCommitted '
          '(source: gated control connections; destination: real UMCTL PRESWITCH / FINALSWITCH) and CLUSTER NODES + CLUSTER SLOTS are queried after every step in varying orders (first query early / late), each answer compared with the model under the '
          'live task states and with the proxy\'s own routing decision for a key of every migrating range at that moment. '
          'The model is tied to the code by running the real generators and a real proxy on the same layouts x every phase x both versions and comparing parsed output over all 16384 slots.',
  'note': 'Coq kernel; closed under the global context; extraction + OCaml driver; the NODES text / SLOTS reply parsers of the harness are trusted (node ids are only length-checked). '
          'wf_view: stable ranges disjoint from everything, a migrating slot claimed exactly twice (MIGRATING + IMPORTING slot range with the same range list). The bystander clause is the recorded reading '
          '(DESIGN.md C14): a proxy without a task for the range advertises the destination. Real-proxy phases reached: importing side PreCheck / PreSwitch / SwitchCommitted through real switch commands, '
          'migrating side PreCheck (its control client is a failing stand-in); all six phases on both sides are covered through ClusterBackendMap with an explicit state map. '
          'Ranges are printed unclipped by the code (a range beyond 16383 is advertised although never routed); theorems about routing assume s < 16384. Two tasks with the same range list on one proxy '
          '(source and destination node on the same proxy) share one get_states entry: the model takes the resulting map as input.',
  'technique': 'Coq proof over a hand-written model + differential correspondence check against the real code',
 }

TRUSTED = ['Coq 8.16.1 kernel (coqc; coqchk in the thorough tier); no axioms (Print Assumptions: closed)',
           'extraction with ExtrOcamlBasic only (Coq List functions inlined) + ocaml/vio.ml, d_slot.ml, driver_lib.ml',
           'harness/slot/src/topo.rs: parsers of the CLUSTER NODES text and the CLUSTER SLOTS reply, recording dummy senders, NullClientFactory (migration control connections always fail)',
           'Python monitors in checks/C14.py']

SLOT_NUM = 16384
SELF = '127.0.0.1:5299'
STATES = ['pc', 'pb', 'ps', 'sc', 'fs', 'cm']

def parse_tlayout(tok):
    if tok == '-': return []
    out = []
    for node in tok.split(';'):
        a, rest = node.split('@', 1)
        srs = []
        if rest:
            for sr in rest.split('+'):
                tag = sr[0]; rs = sr[2:]
                srs.append((tag, tuple(tuple(int(x) for x in r.split('-')) for r in rs.split(',')) if rs else ()))
        out.append((a, srs))
    return out

def fmt_tlayout(l):
    if not l: return '-'
    return ';'.join('%s@%s' % (a, '+'.join('%s:%s' % (t, ','.join('%d-%d' % r for r in rs)) for t, rs in srs)) for a, srs in l)

def parse_states(tok):
    if tok == '-': return {}
    d = {}
    for e in tok.split(';'):
        rs, st = e.split('=')
        d[tuple(tuple(int(x) for x in r.split('-')) for r in rs.split(',')) if rs else ()] = st
    return d

def fmt_states(d):
    if not d: return '-'
    return ';'.join('%s=%s' % (','.join('%d-%d' % r for r in rs), st) for rs, st in d.items())

def fill(arr, rs, val, merge):
    for a, b in rs:
        if a > b: continue
        for s in range(a, min(b, SLOT_NUM - 1) + 1):
            arr[s] = merge(arr[s], val)

def parse_addr_ranges(txt, nodes):
    """'a,m,7,v2=0-9,..;b,...' (nodes) or 'a=0-9;..' (slots) -> {addr: [ranges]}, plus line attributes"""
    out, attrs = {}, {}
    if not txt: return out, attrs
    for item in txt.split(';'):
        head, rs = item.split('=', 1)
        f = head.split(',')
        a = f[0]
        if nodes: attrs[a] = f[1:]
        out.setdefault(a, [])
        if rs:
            out[a] += [tuple(int(x) for x in r.split('-')) for r in rs.split(',')]
    return out, attrs

def expand_runs(txt):
    arr = [None] * SLOT_NUM
    for run in txt.split(','):
        rng, owner = run.split(':', 1)
        a, b = rng.split('-')
        for s in range(int(a), int(b) + 1): arr[s] = owner
    return arr

# ---------- scenario generator ----------
LOCAL_NODES = ['127.0.0.1:7000', '127.0.0.1:7001']
PEERS = ['127.0.%d.1:5299' % i for i in range(1, 6)]

def gen_scenario(r, force_role=None):
    """a well-formed view: segments of 0..16383 dealt to owners as stable ranges, or to (src, dst) pairs as migrations"""
    nloc = r.choice([1, 2]); npeer = r.choice([1, 2, 3, 5])
    owners = [('L', n) for n in LOCAL_NODES[:nloc]] + [('P', p) for p in r.sample(PEERS, npeer)]
    n = r.choice([2, 3, 5, 9, 16])
    cuts = sorted(set([0, SLOT_NUM] + [r.choice([1, 100, 5461, 8192, 10923, 16383, r.randrange(1, SLOT_NUM)]) for _ in range(n)]))
    segs = [(cuts[i], cuts[i + 1] - 1) for i in range(len(cuts) - 1)]
    local = {n: [] for k, n in owners if k == 'L'}
    peer = {p: [] for k, p in owners if k == 'P'}
    def add(o, tag, rs):
        (local if o[0] == 'L' else peer)[o[1]].append((tag, tuple(rs)))
    migs = []
    i = 0
    while i < len(segs):
        c = r.random()
        if c < 0.12: i += 1; continue                      # gap
        if c < 0.45 and len(owners) >= 2:
            k = 1 if r.random() < 0.7 or i + 2 >= len(segs) else 2
            rs = [segs[i]] if k == 1 else [segs[i], segs[i + 2]]
            src, dst = r.sample(owners, 2)
            if force_role == 'src': src = owners[0]
            if force_role == 'dst': dst = owners[0]
            if force_role == 'by':
                ps = [o for o in owners if o[0] == 'P']
                if len(ps) >= 2: src, dst = r.sample(ps, 2)
            if src == dst or (src[0] == 'L' and dst[0] == 'L'):
                add(src, 'n', [segs[i]]); i += 1; continue
            if any(m[0] == tuple(rs) for m in migs):
                add(src, 'n', [segs[i]]); i += 1; continue
            add(src, 'm', rs); add(dst, 'i', rs); migs.append((tuple(rs), src, dst))
            if k == 2:
                add(r.choice(owners), 'n', [segs[i + 1]])
                i += 3
            else: i += 1
            continue
        add(r.choice(owners), 'n', [segs[i]]); i += 1
    # several stable ranges of one owner are one slot range with a range list (as the broker sends them), sometimes split
    def pack(d):
        out = []
        for a, srs in d.items():
            st = sorted(x for t, rs in srs if t == 'n' for x in rs)
            merged = []
            for x in st:
                if merged and merged[-1][1] + 1 == x[0]: merged[-1] = (merged[-1][0], x[1])
                else: merged.append(x)
            res = [(t, rs) for t, rs in srs if t != 'n']
            if merged:
                if r.random() < 0.5: res.insert(0, ('n', tuple(merged)))
                else: res = [('n', (x,)) for x in merged] + res
            out.append((a, res))
        return out
    return pack(local), pack(peer), migs

def hand_built():
    """layouts outside wf_view: correspondence (and NODES == SLOTS) only"""
    return [
        ('127.0.0.1:7000@n:0-99+m:100-199', '-', {}),                                       # migrating without partner
        ('127.0.0.1:7000@n:0-99+i:100-199', '-', {((100, 199),): 'pc'}),                   # importing in PreCheck without partner: not advertised
        ('127.0.0.1:7000@n:0-9000', '127.0.1.1:5299@n:8000-16383', {}),                     # overlapping stable ranges
        ('127.0.0.1:7000@m:0-99+i:0-99', '-', {((0, 99),): 'ps'}),                          # both ends on this proxy
        ('127.0.0.1:7000@n:5-5,7-7,9-20', '127.0.1.1:5299@n:6-6,8-8;127.0.2.1:5299@', {}),
        ('127.0.0.1:7000@n:16380-16390', '127.0.1.1:5299@n:20000-30000', {}),               # beyond the table: printed, never routed
        ('127.0.0.1:7000@n:0-16383', 'nocolon@n:0-0', {}),                                 # invalid peer address: SLOTS is an error
        ('-', '-', {}), ('127.0.0.1:7000@', '127.0.1.1:5299@', {}),
        ('127.0.0.1:7000@m:0-99', '127.0.1.1:5299@i:0-99,200-299', {((0, 99),): 'pc'}),     # range lists differ
    ]

def gen_cases(chk):
    r = chk.rng
    quick = chk.tier == 'quick'
    cases, wf = [], []
    for lt, pt, st in hand_built():
        for v in ('1', '2'):
            cases.append('nodes %s 7 %s %s %s %s' % (v, SELF, lt, pt, fmt_states(st))); wf.append(False)
    nsc = 40 if quick else 600
    for i in range(nsc):
        local, peer, migs = gen_scenario(r, force_role=[None, 'src', 'dst', 'by'][i % 4])
        lt, pt = fmt_tlayout(local), fmt_tlayout(peer)
        epoch = r.choice([1, 7, 233, 2 ** 40])
        # every phase for every migration (exhaustive when there is one migration; sampled combinations otherwise)
        combos = []
        if len(migs) <= 1:
            for ph in STATES + [None]:
                combos.append({m[0]: ph for m in migs})
        else:
            for ph in STATES + [None]:
                combos.append({m[0]: ph for m in migs})
            for _ in range(4 if quick else 10):
                combos.append({m[0]: r.choice(STATES + [None]) for m in migs})
        for combo in combos:
            st = {k: v for k, v in combo.items() if v is not None}
            if r.random() < 0.2: st[((1, 2),)] = r.choice(STATES)          # an unrelated entry
            v = r.choice(['1', '2'])
            cases.append('nodes %s %d %s %s %s %s' % (v, epoch, SELF, lt, pt, fmt_states(st))); wf.append(True)
        # the same view on a real proxy: importing tasks driven to PreCheck / PreSwitch / SwitchCommitted
        if i % (2 if quick else 1) == 0:
            imp_local = [rs for rs, src, dst in migs if dst[0] == 'L']
            for _ in range(1 if quick else 2):
                drive = {rs: r.choice(['pc', 'ps', 'cm']) for rs in imp_local if r.random() < 0.8}
                cases.append('pnodes %s %d %s %s %s %s' % (r.choice(['1', '2']), min(epoch, 10 ** 6), SELF, lt, pt, fmt_states(drive))); wf.append(True)
    return cases, wf

# ---------- monitors ----------
def monitor(case, out, wf, expect=None):
    toks = case.split()
    kind, ver = toks[0], toks[1]
    local = parse_tlayout(toks[4]); peer = parse_tlayout(toks[5])
    parts = dict((p.split(' ', 1) + [''])[:2] for p in out.split(' | '))
    if 'nodes' not in parts or 'slots' not in parts: return 'malformed output %r' % out[:120]
    if 'bad' in parts['nodes'] or 'bad' in parts['slots']: return 'unparsable NODES/SLOTS output: %r' % out[:200]
    nodes, attrs = parse_addr_ranges(parts['nodes'], True)
    for a, f in attrs.items():
        if f[2] != 'v' + ver: return 'address field of %s is not in format version %s' % (a, ver)
        if f[1] != toks[2]: return 'NODES line of %s carries epoch %s, metadata epoch is %s' % (a, f[1], toks[2])
        if (f[0] == 'm') != (a == toks[3]): return 'myself flag wrong on line %s' % a
    nadv = [None] * SLOT_NUM
    for a, rs in nodes.items():
        fill(nadv, rs, a, lambda old, v: v if old is None else old + '|' + v)
    if parts['slots'] != 'err':
        slots, _ = parse_addr_ranges(parts['slots'], False)
        sadv = [None] * SLOT_NUM
        for a, rs in slots.items():
            fill(sadv, rs, a, lambda old, v: v if old is None else old + '|' + v)
        for s in range(SLOT_NUM):
            if sorted((nadv[s] or '').split('|')) != sorted((sadv[s] or '').split('|')):
                return 'slot %d: CLUSTER NODES advertises %r, CLUSTER SLOTS %r' % (s, nadv[s], sadv[s])
    if not wf: return None
    if kind == 'nodes': states = parse_states(toks[6])
    else:
        states = parse_states(parts.get('states', '-'))
        drive = parse_states(toks[6]) if expect is None else {}
        for a, srs in local:
            for t, rs in srs:
                if t == 'n': continue
                exp = (drive.get(rs, 'pc') if t == 'i' else 'pc') if expect is None else expect[t]
                if states.get(rs) != exp: return 'task %r (%s) is in state %r, driven to %r' % (rs, t, states.get(rs), exp)
    # claims per slot
    cl = [[] for _ in range(SLOT_NUM)]
    for a, srs in local:
        for t, rs in srs:
            fill(cl, rs, (toks[3], t, rs, a), lambda old, v: old + [v])
    for a, srs in peer:
        for t, rs in srs:
            fill(cl, rs, (a, t, rs, None), lambda old, v: old + [v])
    route = expand_runs(parts['route']) if 'route' in parts else None
    for s in range(SLOT_NUM):
        c = cl[s]
        if not c:
            if nadv[s] is not None: return 'slot %d is covered by nobody but advertised at %s' % (s, nadv[s])
            continue
        if len(c) == 1 and c[0][1] == 'n':
            exp = c[0][0]
            if nadv[s] != exp: return 'stable slot %d of %s is advertised at %r' % (s, exp, nadv[s])
            if route is not None:
                want = ('L' + c[0][3]) if c[0][3] else ('M' + exp)
                if route[s] != want: return 'slot %d: advertised at %s but routing says %s' % (s, exp, route[s])
        elif len(c) == 2 and sorted(x[1] for x in c) == ['i', 'm'] and c[0][2] == c[1][2]:
            src = [x for x in c if x[1] == 'm'][0][0]; dst = [x for x in c if x[1] == 'i'][0][0]
            exp = src if states.get(c[0][2]) == 'pc' else dst
            if nadv[s] != exp:
                return 'migrating slot %d (%s -> %s, task state %r) is advertised at %r' % (s, src, dst, states.get(c[0][2]), nadv[s])
        else:
            return 'generator produced a non-wf view at slot %d: %r' % (s, c)
    return None

def agree(o, m):
    """equal, except that in the routing probe the implementation's owner must be a member of the model's owner set"""
    if o == m: return True
    if ' | route ' not in o or ' | route ' not in m: return False
    oh, orr = o.split(' | route '); mh, mr = m.split(' | route ')
    if oh != mh: return False
    a = expand_runs(orr); b = expand_runs(mr)
    return all(x == y or (x[:1] == y[:1] and x[1:] in y[1:].split('|')) for x, y in zip(a, b))

# ---------- sequences on ONE installed metadata: the topology queried repeatedly while the migration phases move ----------
LEVEL_STATE = ['pc', 'ps', 'sc', 'fs', 'cm']
SEQ_CORPUS = [
    'seq 2 7 %s 127.0.0.1:7000@n:0-99+m:100-199 127.0.1.1:5299@i:100-199+n:200-16383 q,L1,q,L2,q,L3,q,L4,q' % SELF,
    'seq 1 7 %s 127.0.0.1:7000@n:0-99+m:100-199 127.0.1.1:5299@i:100-199+n:200-16383 L2,q,L4,q' % SELF,
    'seq 1 7 %s 127.0.0.1:7000@n:0-99+i:100-199 127.0.1.1:5299@m:100-199+n:200-16383 q,Dps,q,Dcm,q' % SELF,
    'seq 2 7 %s 127.0.0.1:7000@n:0-99+i:100-199 127.0.1.1:5299@m:100-199+n:200-16383 Dps,q,Dcm,q' % SELF,
    'seq 2 7 %s 127.0.0.1:7000@n:0-99 127.0.1.1:5299@m:100-199+n:200-16383;127.0.2.1:5299@i:100-199 q,q' % SELF,
    'seq 1 9 %s 127.0.0.1:7000@n:0-99+m:100-199,300-399;127.0.0.1:7001@i:8000-8999 127.0.1.1:5299@i:100-199,300-399+n:200-299,400-7999;127.0.2.1:5299@m:8000-8999+n:9000-16383 q,Dps,q,L1,q,L2,q,Dcm,q,L4,q' % SELF,
]
SRC_STEPS = ['q,L1,q,L2,q,L3,q,L4,q', 'L1,q,L3,q', 'L2,q,L4,q', 'q,L4,q', 'L4,q,q', 'q,q,L2,q', 'L3,q,L4,q', 'q,L2,q']
DST_STEPS = ['q,Dps,q,Dcm,q', 'Dps,q,Dcm,q', 'q,Dcm,q', 'Dcm,q,q', 'q,q,Dps,q']
BOTH_STEPS = ['q,L1,q,Dps,q,L2,q,L3,q,Dcm,q,L4,q', 'Dps,L2,q,Dcm,L4,q', 'q,Dps,q,L2,q', 'L1,q,Dcm,q,L4,q', 'q,L4,Dcm,q']

def gen_seq_cases(chk):
    r = chk.rng
    quick = chk.tier == 'quick'
    cases = list(SEQ_CORPUS)
    n = 18 if quick else 200
    tries = 0
    while len(cases) < len(SEQ_CORPUS) + n and tries < 50 * n:
        tries += 1
        local, peer, migs = gen_scenario(r, force_role=['src', 'dst', 'src', 'dst', None, 'by'][tries % 6])
        has_m = any(t == 'm' for a, srs in local for t, rs in srs)
        has_i = any(t == 'i' for a, srs in local for t, rs in srs)
        if not migs: continue
        if not (has_m or has_i) and tries % 6 != 5: continue          # few bystander-only sequences
        steps = r.choice(BOTH_STEPS if has_m and has_i else SRC_STEPS if has_m else DST_STEPS if has_i else ['q,q', 'q'])
        cases.append('seq %s %d %s %s %s %s' % (r.choice(['1', '2']), r.choice([1, 7, 233]), SELF, fmt_tlayout(local), fmt_tlayout(peer), steps))
    return cases

def seq_expected(steps):
    """(state of every local migrating task, state of every local importing task) at each `q` of the step list"""
    m, i, out = 'pc', 'pc', []
    for st in steps.split(','):
        if st == 'q': out.append({'m': m, 'i': i})
        elif st[0] == 'L': m = LEVEL_STATE[min(int(st[1:]), 4)]
        elif st[0] == 'D': i = st[1:]
    return out

def monitor_seq(case, out):
    toks = case.split()
    exp = seq_expected(toks[6])
    if out.startswith(('phase-timeout', 'setcluster', 'switch', 'bad-step', 'panic', '<no')):
        return 'the harness could not step the real proxy through %s: %s' % (toks[6], out[:160])
    qs = out.split(' || ')
    if len(qs) != len(exp): return '%d queries answered, %d asked (%s)' % (len(qs), len(exp), toks[6])
    local = parse_tlayout(toks[4]); peer = parse_tlayout(toks[5])
    lnodes = [a for a, _ in local]
    role = {}
    for a, srs in local:
        for t, rs in srs:
            if t != 'n': role[rs] = 'source' if t == 'm' else 'destination'
    ends = {}
    for a, srs in peer:
        for t, rs in srs:
            if t != 'n': ends.setdefault(rs, {})[t] = a
    for k, q in enumerate(qs):
        where = 'query %d of [%s] (local migrating tasks %s, local importing tasks %s)' % (k + 1, toks[6], exp[k]['m'], exp[k]['i'])
        bad = monitor(case, q, True, expect=exp[k])
        if bad: return where + ': ' + bad
        parts = dict((p.split(' ', 1) + [''])[:2] for p in q.split(' | '))
        nodes, _ = parse_addr_ranges(parts['nodes'], True)
        for item in (parts.get('probe', '-').split(';') if parts.get('probe', '-') != '-' else []):
            rtxt, res = item.rsplit('=', 1)
            rs = tuple(tuple(int(x) for x in r.split('-')) for r in rtxt.split(','))
            slot = next((a for a, b in rs if a <= b and a < SLOT_NUM), None)
            if slot is None or res == 'skip': continue
            adv = [a for a, rl in nodes.items() if any(x <= slot <= y for x, y in rl)]
            if len(adv) != 1: return where + ': slot %d advertised at %r' % (slot, adv)
            if res[0] == 'X':
                if res[1:] not in lnodes: return where + ': key of slot %d executed on %s which is not a node of this proxy' % (slot, res[1:])
                if adv[0] != toks[3]: return where + ': the proxy serves slot %d itself (node %s) but advertises it at %s' % (slot, res[1:], adv[0])
            elif res[0] == 'M':
                if rs in role:
                    if adv[0] != res[1:]: return where + ': the proxy redirects slot %d to %s but advertises it at %s' % (slot, res[1:], adv[0])
                elif res[1:] not in ends.get(rs, {}).values():
                    return where + ': bystander redirects migrating slot %d to %s, neither its source nor its destination' % (slot, res[1:])
            else:
                return where + ': routing probe for slot %d was not answered: %s' % (slot, res)
    return None

def run_seq(chk):
    cases = gen_seq_cases(chk)
    rc, impl = chk.run_impl('slot', cases, jobs=6, timeout=2400)
    mcases, ref = [], []
    for i, c in enumerate(cases):
        o = impl[i] if i < len(impl) else '<no output>'
        t = c.split()
        for k, q in enumerate(o.split(' || ')):
            if q.startswith('nodes ') and ' | states ' in q:
                st = q.split(' | states ')[1].split(' | probe ')[0].strip() or '-'
                mcases.append('pnodes %s %s %s %s %s %s' % (t[1], t[2], t[3], t[4], t[5], st)); ref.append((i, k))
    rc2, model = chk.run_model('slot', mcases, jobs=6) if mcases else (0, [])
    mod = {}
    for j, (i, k) in enumerate(ref):
        mod[(i, k)] = model[j] if j < len(model) else '<no output>'
    nfail, disagreements, nq = 0, [], 0
    steps_hist = {}
    for i, c in enumerate(cases):
        o = impl[i] if i < len(impl) else '<no output>'
        chk.count(c, True)
        steps_hist[c.split()[6]] = steps_hist.get(c.split()[6], 0) + 1
        bad = monitor_seq(c, o)
        if bad:
            nfail += 1
            chk.violation({'kind': 'monitor', 'case': c, 'phase_sequence': c.split()[6], 'impl': o[:4000], 'what': bad})
            continue
        for k, q in enumerate(o.split(' || ')):
            nq += 1
            head = q.split(' | states ')[0]
            if head != mod.get((i, k)):
                disagreements.append({'case': c, 'query': k + 1, 'impl': q[:2000], 'model': str(mod.get((i, k)))[:2000]})
        if i % 7 == 0: chk.sample({'case': c[:300], 'impl': o[:400]})
    chk.sub('sequences_on_one_installed_metadata', cases=len(cases), queries=nq, step_lists=steps_hist,
            monitor_failures=nfail, disagreements=len(disagreements))
    if disagreements and not nfail:
        chk.violation({'kind': 'correspondence', 'correspondence': 'Model/Topo.v vs CLUSTER NODES / CLUSTER SLOTS of a real proxy, queried repeatedly on one installed metadata',
                       'first': disagreements[0], 'count': len(disagreements)}, no_input=True)
    return len(cases) - len(set(d['case'] for d in disagreements))

def run(chk):
    ok = vlib.standard_proof_phase(chk, TRUSTED, 'slot')
    chk.cov['rule'] = ('cases = (NODES version, epoch, view = tagged local + peer slot ranges, state map) through the real ClusterBackendMap (gen_cluster_nodes, gen_cluster_slots, '
                       'send probed for all 16384 slots) and through a real proxy whose importing tasks are driven by real switch commands; generated views are well formed '
                       '(stable ranges, gaps, migrations with one or two ranges, this proxy as source / destination / bystander) x every phase; hand-built views outside wf_view for the '
                       'correspondence only. non-trivial = distinct case with at least one migration or at least two advertised addresses')
    if not ok:
        return
    cases, wf = gen_cases(chk)
    rc1, impl = chk.run_impl('slot', cases, jobs=8)
    # the real proxy reports its task states; the model gets them as input (validated by the monitor against what was driven)
    mcases = []
    for i, c in enumerate(cases):
        if c.startswith('pnodes ') and i < len(impl) and ' | states ' in impl[i]:
            t = c.split(); t[6] = impl[i].split(' | states ')[1].strip() or '-'
            mcases.append(' '.join(t))
        else: mcases.append(c)
    rc2, model = chk.run_model('slot', mcases, jobs=8)
    hist = {'nodes': 0, 'pnodes': 0, 'hand_built': 0}
    phases, roles = {}, {'source': 0, 'destination': 0, 'bystander': 0}
    nfail, disagreements = 0, []
    for i, c in enumerate(cases):
        o = impl[i] if i < len(impl) else '<no output>'
        m = model[i] if i < len(model) else '<no output>'
        kind = c.split()[0]
        hist[kind] += 1
        if not wf[i]: hist['hand_built'] += 1
        t = c.split()
        nontrivial = ('m:' in t[4] + t[5]) or (';' in t[5])
        chk.count(c, nontrivial)
        if wf[i]:
            st = parse_states(t[6]) if kind == 'nodes' else parse_states(o.split(' | states ')[1]) if ' | states ' in o else {}
            for a, srs in parse_tlayout(t[4]) + parse_tlayout(t[5]):
                for tg, rs in srs:
                    if tg == 'm':
                        phases[st.get(rs, 'none')] = phases.get(st.get(rs, 'none'), 0) + 1
            limp = set(rs for a, srs in parse_tlayout(t[4]) for tg, rs in srs if tg == 'i')
            for a, srs in parse_tlayout(t[4]):
                for tg, rs in srs:
                    if tg == 'm': roles['source'] += 1
                    if tg == 'i': roles['destination'] += 1
            for a, srs in parse_tlayout(t[5]):
                for tg, rs in srs:
                    if tg == 'm' and rs not in limp: roles['bystander'] += 1
        bad = monitor(c, o, wf[i]) if not o.startswith(('<no', 'panic', 'setcluster', 'switch')) else 'harness could not run the case: ' + o[:100]
        oc = o.split(' | states ')[0] if kind == 'pnodes' else o
        if bad:
            nfail += 1
            chk.violation({'kind': 'monitor', 'case': c, 'impl': o[:2000], 'model': m[:2000], 'what': bad})
        elif not agree(oc, m):
            disagreements.append({'case': c, 'model_case': mcases[i], 'impl': o[:2000], 'model': m[:2000]})
        if i % 53 == 0: chk.sample({'case': c[:300], 'impl': o[:300], 'model': m[:300]})
    chk.cov['traces_validated_against_impl'] = len(cases) - len(disagreements) + run_seq(chk)
    chk.sub('distribution', kinds=hist, migration_phase_of_each_migrating_range=phases, role_of_this_proxy_per_migration=roles,
            monitor_failures=nfail, disagreements=len(disagreements))
    chk.sub('all_slots', exhaustive=True, slots_per_case=SLOT_NUM)
    if disagreements and not nfail:
        chk.violation({'kind': 'correspondence', 'correspondence': 'Model/Topo.v vs proxy/cluster.rs gen_cluster_nodes / gen_cluster_slots',
                       'first': disagreements[0], 'count': len(disagreements),
                       'search': 'monitors evaluated on all %d implementation outputs incl. the disagreeing ones: no property failure' % len(cases)},
                      no_input=True)


def replay(data):
    chk = vlib.Check('C14', 'quick', 0)
    c = data.get('case') or (data.get('first') or {}).get('case')
    if not c:
        print(data); return 0
    chk.build_impl('slot')
    _, impl = chk.run_impl('slot', [c])
    if c.startswith('seq '):
        bad = monitor_seq(c, impl[0]) if impl else None
        print('case :', c)
        for k, q in enumerate((impl[0] if impl else '').split(' || ')): print('query %d:' % (k + 1), q)
        print('monitor:', bad)
        return 1 if bad else 0
    mc = c
    if c.startswith('pnodes ') and impl and ' | states ' in impl[0]:
        t = c.split(); t[6] = impl[0].split(' | states ')[1].strip() or '-'; mc = ' '.join(t)
    _, model = chk.run_model('slot', [mc])
    bad = monitor(c, impl[0], True) if impl else None
    print('case :', c); print('impl :', impl); print('model:', model); print('monitor (assuming a well-formed view):', bad)
    return 1 if bad else 0
