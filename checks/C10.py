import broker_common as bc
MANIFEST = {
 'text': 'Theorems about Model/Broker.v (validated against the real MetaStore on every run): C10_scale_out_completes / C10_scale_in_completes (from every reachable '
         'store, once a scale-out / scale-in request is accepted, ANY script of commits in any order (stale and repeated descriptors included), failovers and role '
         'rebalances containing as many successful commits as migrations were created ends with no pending migration, every kept master holding exactly '
         'share(2k, i) = 16384/(2k) (+1 for the first 16384 mod 2k) stable slots - so counts differ by at most one (C10_shares_differ_by_at_most_one) -, all 16384 slots '
         'stable, and exactly the trailing chunks slot-less); C10_balance_invariant (projected balance in every reachable state); C10_commits_drain (each successful commit '
         'removes exactly one pending migration: termination); C10_planners_no_panic (no usize underflow / failed expect in the two planners on reachable stores); '
         'C10_refused_while_migrating; C10_release_only_empty. Correspondence and independent monitors as for C01 (balance at quiescence, trailing empties, release '
         'rule, refusal while migrating evaluated on the real store after every operation).',
 'note': 'Coq kernel, theorems closed under the global context; extraction; harness/broker; oracle for allocator choices. The proofs exposed two genuine defects that '
         'were repaired (scale-down need_num = 0; more masters than slots). Real-time aspects (coordinator actually issuing the commits) are C07.',
 'technique': 'Coq proof over a hand-written model + differential correspondence check against the real code',
}
def big_scale_down():
    ops = ['addproxy %d %d -' % (i, 10 + (i % 8)) for i in range(1, 200)] + ['addcluster 1 368 1 ?', 'scaledown 1 364'] + ['commitnth 1 0 1'] * 6
    return 'H 0 ; ' + ' ; '.join(ops)
def big_scale_out():
    # 400 -> 404 nodes: floor(16384/200) == floor(16384/202), some sources already own exactly their final share
    ops = ['addproxy %d %d -' % (i, 10 + (i % 8)) for i in range(1, 215)] + ['addcluster 1 400 1 ?', 'addnodes 1 4 ?', 'migrate 1'] + ['commitnth 1 0 1'] * 4
    return 'H 0 ; ' + ' ; '.join(ops)
def run(chk): bc.standard_run(chk, 'C10', extra_histories=[big_scale_out()] + ([big_scale_down()] if chk.tier == 'thorough' else []))
def replay(data): return bc.replay('C10', data)
