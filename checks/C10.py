import broker_common as bc
MANIFEST = {
 'text': 'Theorems about Model/Broker.v (validated against the real MetaStore on every run): C10_refused_while_migrating (every scaling/config '
         'operation on a migrating cluster returns an error and leaves the cluster unchanged) and C10_release_only_empty (chunks leave a cluster only '
         'when they own no stable, migrating or importing range). The completion clauses (all commits in any order end with no pending migration, all 16384 '
         'slots stable, counts differing by at most one, trailing chunks slot-less) are evaluated by the independent monitors of harness/broker/src/mon.rs on the '
         'real store after every operation of every generated history (chains of resizes, random commit orders, interleaved failovers, limits 0-2), and the '
         'slot-conservation half is covered by the C01 invariant; the balance arithmetic of the planners is not yet a theorem.',
 'note': 'PARTIAL: balance-at-quiescence is checked by monitors on the implementation, not proved. Coq kernel, closed theorems; extraction; harness/broker; oracle for allocator choices.',
 'technique': 'Coq proof over a hand-written model + differential correspondence check against the real code',
}
def big_scale_down():
    ops = ['addproxy %d %d -' % (i, 10 + (i % 8)) for i in range(1, 200)] + ['addcluster 1 368 1 ?', 'scaledown 1 364'] + ['commitnth 1 0 1'] * 6
    return 'H 0 ; ' + ' ; '.join(ops)
def run(chk): bc.standard_run(chk, 'C10', extra_histories=[big_scale_down()] if chk.tier == 'thorough' else [])
def replay(data): return bc.replay('C10', data)
