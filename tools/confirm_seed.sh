#!/bin/bash
# confirm_seed.sh <ID> [n]: in the scratch worktree /tmp/mut/<ID> (change + demo applied by the sub-agent) confirm that
#  the whole suite passes with the change except the demo, and the demo passes without the change. Copies the seed to /verif/seeded/<ID>-<n>/.
ID=$1; N=${2:-1}; W=/tmp/mut/$ID; OUT=/verif/seeded/$ID-$N
mkdir -p $OUT; cp $W/out/patch.diff $W/out/meta.json $OUT/ 2>/dev/null; cp $W/out/demo.diff $OUT/ 2>/dev/null
export CARGO_TARGET_DIR=/tmp/mut/target_$ID CARGO_NET_OFFLINE=true
cd $W
cargo test --offline --workspace --no-fail-fast > $OUT/suite_with_change.log 2>&1
WITH_FAILED=$(grep -E "^test [^ ]+ \.\.\. FAILED" $OUT/suite_with_change.log | sort -u | tr '\n' ';')
WITH_SUMMARY=$(grep -E "^test result" $OUT/suite_with_change.log | tr '\n' ';')
git apply -R out/patch.diff || echo "REVERSE APPLY FAILED" >> $OUT/suite_with_change.log
cargo test --offline --workspace --no-fail-fast > $OUT/suite_without_change.log 2>&1
WITHOUT_FAILED=$(grep -E "^test [^ ]+ \.\.\. FAILED" $OUT/suite_without_change.log | sort -u | tr '\n' ';')
WITHOUT_SUMMARY=$(grep -E "^test result" $OUT/suite_without_change.log | tr '\n' ';')
git apply out/patch.diff
python3 - "$OUT" "$WITH_FAILED" "$WITH_SUMMARY" "$WITHOUT_FAILED" "$WITHOUT_SUMMARY" <<'PY'
import json,sys
out,wf,ws,wof,wos=sys.argv[1:6]
try: m=json.load(open(out+'/meta.json'))
except Exception: m={}
m['confirmed_by_coordinator']={'cmd':'cargo test --offline --workspace --no-fail-fast (scratch worktree, own target dir), with the change and with the change reverse-applied',
  'failed_tests_with_change':wf,'summary_with_change':ws,'failed_tests_without_change':wof,'summary_without_change':wos,
  'ok': ('mut_demo' in wf or 'demo' in wf) and wof=='' and all(('mut_demo' in t or 'demo' in t) for t in wf.split(';') if t)}
json.dump(m,open(out+'/meta.json','w'),indent=1)
print(out, m['confirmed_by_coordinator']['ok'], wf, '|', wof)
PY
rm -rf /tmp/mut/target_$ID
