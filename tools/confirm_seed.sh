#!/bin/bash
# confirm_seed.sh <ID> [n]: in the sub-agent's scratch worktree /tmp/mut/<ID> (change + demo applied) confirm that
#  (1) the whole suite passes with the change except the demo, (2) the demo fails with the change, (3) the demo passes with the change reverse-applied.
ID=$1; N=${2:-1}; SUF=${3:-}; W=/tmp/mut/$ID$SUF; OUT=/verif/seeded/$ID-$N
mkdir -p $OUT; cp $W/out/patch.diff $W/out/meta.json $OUT/ 2>/dev/null; cp $W/out/demo.diff $OUT/ 2>/dev/null
export CARGO_NET_OFFLINE=true
cd $W || exit 2
T=${CONFIRM_TARGET:-$W/target}   # CONFIRM_TARGET: one shared target dir for sequential confirmations (saves disk; package ids differ per worktree path)
DEMO=$(python3 -c "import json;print(json.load(open('$OUT/meta.json')).get('demo_cmd','').replace('&amp;','&').replace('CARGO_TARGET_DIR=$W/target/verif','CARGO_TARGET_DIR=$T/verif').replace('CARGO_TARGET_DIR=$W/target','CARGO_TARGET_DIR=$T'))")
CARGO_TARGET_DIR=$T cargo test --offline --workspace --no-fail-fast > $OUT/suite_with_change.log 2>&1
WITH_FAILED=$(grep -E "^test [^ ]+ \.\.\. FAILED" $OUT/suite_with_change.log | sort -u | tr '\n' ';')
WITH_SUMMARY=$(grep -E "^test result" $OUT/suite_with_change.log | tr '\n' ';')
bash -c "$DEMO" > $OUT/demo_with_change.log 2>&1; D1=$?
git apply -R out/patch.diff || echo "REVERSE APPLY FAILED" >> $OUT/demo_with_change.log
bash -c "$DEMO" > $OUT/demo_without_change.log 2>&1; D2=$?
git apply out/patch.diff
python3 - "$OUT" "$WITH_FAILED" "$WITH_SUMMARY" "$D1" "$D2" <<'PY'
import json,sys
out,wf,ws,d1,d2=sys.argv[1:6]
m=json.load(open(out+'/meta.json'))
nondemo=[t for t in wf.split(';') if t and 'mut_demo' not in t and 'demo' not in t.lower()]
m['confirmed_by_coordinator']={'what':'scratch worktree of /repo HEAD with the sub-agent\'s change and demo applied: cargo test --offline --workspace --no-fail-fast; demo_cmd with the change; demo_cmd with patch.diff reverse-applied',
  'failed_tests_with_change':wf,'summary_with_change':ws,'existing_tests_failing_with_change':nondemo,
  'demo_exit_with_change':int(d1),'demo_exit_without_change':int(d2),
  'ok': (not nondemo) and int(d1)!=0 and int(d2)==0}
json.dump(m,open(out+'/meta.json','w'),indent=1)
print(out, m['confirmed_by_coordinator']['ok'], 'demo', d1, d2, 'other failures:', nondemo)
PY
