#!/bin/bash
# process_wave_ns.sh <n> <suffix> [parallel]: run the quick check (private namespace, /repo untouched) against every finished wave-<n> seed not yet run
N=$1; SUF=$2; PAR=${3:-3}
todo=()
for d in /tmp/mut/C??$SUF; do
  id=$(basename $d); id=${id%$SUF}
  [ -f $d/out/meta.json ] || continue
  [ -f /verif/seeded/$id-$N/detect.log ] && continue
  mkdir -p /verif/seeded/$id-$N; cp $d/out/*.diff $d/out/meta.json /verif/seeded/$id-$N/ 2>/dev/null
  todo+=($id)
done
printf '%s\n' "${todo[@]}" | xargs -r -P $PAR -I{} bash -c "echo '=== {}-$N'; /verif/tools/run_seed_ns.sh {}-$N quick {} 2>&1 | tail -n 3"
