#!/usr/bin/env python3
import json,glob,os,re
print('| seed | change | needs | confirmed | quick check |')
print('|---|---|---|---|---|')
for d in sorted(glob.glob('/verif/seeded/*')):
    try: m=json.load(open(d+'/meta.json'))
    except Exception: continue
    if m.get('kind')=='harmless-refactoring': continue
    log=open(d+'/detect.log').read() if os.path.exists(d+'/detect.log') else ''
    v=len(re.findall(r'^VIOLATION',log,re.M)); nf=len(re.findall(r'no-failing-input-found',log))
    det='not run' if not log else ('caught: %d VIOLATION%s'%(v,' (correspondence break, no failing input found)' if nf==v else ' with failing input') if v else 'MISSED')
    c=m.get('confirmed_by_coordinator',{})
    print('| %s | %s | %s | %s | %s |'%(os.path.basename(d), m.get('summary','')[:220].replace('|','/').replace('\n',' '), m.get('needs','')[:200].replace('|','/').replace('\n',' '), 'yes' if c.get('ok') else ('pending' if not c else 'see meta.json'), det))

print()
print('Behaviour-preserving refactorings (fresh sub-agents; whole suite passes; expected outcome: NO violation):')
print()
print('| refactoring | files | quick checks run against it |')
print('|---|---|---|')
for d in sorted(glob.glob('/verif/seeded/R*')):
    try: m=json.load(open(d+'/meta.json'))
    except Exception: continue
    log=open(d+'/detect.log').read() if os.path.exists(d+'/detect.log') else ''
    res=[]
    for mm in re.finditer(r'== ./check (C\d\d) quick.*?== exit (\d+)',log,re.S):
        seg=mm.group(0); v=len(re.findall(r'^VIOLATION',seg,re.M)); nf=len(re.findall(r'no-failing-input-found',seg))
        res.append('%s: %s'%(mm.group(1),'green' if mm.group(2)=='0' else ('%d VIOLATION%s'%(v,' (all no-failing-input-found: textual pins)' if nf==v else ''))))
    print('| %s | %s | %s |'%(os.path.basename(d), ', '.join(f.replace('src/','') for f in m.get('files_touched',[])), '; '.join(res)))
