#!/usr/bin/env python3
import json,glob,os,re
print('| seed | change | needs | confirmed | quick check |')
print('|---|---|---|---|---|')
for d in sorted(glob.glob('/verif/seeded/*')):
    try: m=json.load(open(d+'/meta.json'))
    except Exception: continue
    log=open(d+'/detect.log').read() if os.path.exists(d+'/detect.log') else ''
    v=len(re.findall(r'^VIOLATION',log,re.M)); nf=len(re.findall(r'no-failing-input-found',log))
    det='not run' if not log else ('caught: %d VIOLATION%s'%(v,' (correspondence break, no failing input found)' if nf==v else ' with failing input') if v else 'MISSED')
    c=m.get('confirmed_by_coordinator',{})
    print('| %s | %s | %s | %s | %s |'%(os.path.basename(d), m.get('summary','')[:220].replace('|','/').replace('\n',' '), m.get('needs','')[:200].replace('|','/').replace('\n',' '), 'yes' if c.get('ok') else ('pending' if not c else 'see meta.json'), det))
