#!/bin/bash
# run_seed_ns.sh <seed dir name> <tier> <Cxx> [Cyy ...]
# Like run_seed.sh, but /repo itself is never touched: private copies of /repo (with the seeded change applied) and of /verif are
# bind-mounted over /repo and /verif inside a private mount namespace, the checks run there, and only detect.log (and the replay
# files, under seeded/<name>/replays) come back.  Several of these can run at the same time and while other checks use /repo.
set -u
NAME=$1; T=$2; shift 2
S=/verif/seeded/$NAME; P=/tmp/seedns/$NAME
rm -rf $P; mkdir -p $P
rsync -a --exclude /target /repo/ $P/repo/; rc=$?; [ $rc -eq 0 ] || [ $rc -eq 24 ] || exit 2
rsync -a --exclude /replays --exclude /work/replay_* /verif/ $P/verif/; rc=$?; [ $rc -eq 0 ] || [ $rc -eq 24 ] || exit 2   # 24: files vanished while copying (another check rebuilding)
git -C $P/repo checkout -q -- . 2>/dev/null
git -C $P/repo apply $S/patch.diff || { echo "patch does not apply"; rm -rf $P; exit 2; }
: > $P/detect.log
for c in "$@"; do
  echo "== ./check $c $T (with seeded change $NAME, private mount namespace)" >> $P/detect.log
  unshare -m bash -c "mount --bind $P/repo /repo && mount --bind $P/verif /verif && cd /verif && ./check $c $T" >> $P/detect.log 2>&1
  echo "== exit $?" >> $P/detect.log
done
cp $P/detect.log $S/detect.log
mkdir -p $S/replays; cp $P/verif/replays/*.json $S/replays/ 2>/dev/null
rm -rf $P
grep -E "^VIOLATION|^KNOWN|^== |quick:|thorough:" $S/detect.log | cut -c1-200
