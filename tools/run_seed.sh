#!/bin/bash
# run_seed.sh <seed dir name> <tier> <Cxx> [Cyy ...]: apply seeded/<name>/patch.diff to /repo, run the checks, undo.
S=/verif/seeded/$1; T=$2; shift 2
[ -z "$(git -C /repo status --short)" ] || { echo "/repo not clean"; exit 2; }
git -C /repo apply $S/patch.diff || { echo "patch does not apply"; exit 2; }
: > $S/detect.log
for c in "$@"; do
  echo "== ./check $c $T (with seeded change $(basename $S))" >> $S/detect.log
  (cd /verif && ./check $c $T) >> $S/detect.log 2>&1
  echo "== exit $?" >> $S/detect.log
done
git -C /repo checkout -- . && git -C /repo status --short
grep -E "^VIOLATION|^KNOWN|^== |quick:|thorough:" $S/detect.log | cut -c1-200
