"""Shared machinery for the per-property checks (see DESIGN.md sections 2-4)."""
import json, os, re, subprocess, sys, time, hashlib, random, glob

VERIF = '/verif'
COQ = VERIF + '/coq'
HARNESS = VERIF + '/harness'
WORK = VERIF + '/work'
REPLAYS = VERIF + '/replays'
def UMH(g): return HARNESS + '/target/debug/umh_' + g
def UMM(g): return VERIF + '/ocaml/bin/um_model_' + g
FORBIDDEN = re.compile(r'\b(Admitted|admit|Axiom|Axioms|Parameter|Parameters|Conjecture|Conjectures|Hypothesis|Hypotheses|Variable|Variables|Unset\s+Guard|bypass_check|Admit\s+Obligations|Unset\s+Positivity|Unset\s+Universe|type-in-type|impredicative-set|native_compute)\b')
ENV = dict(os.environ, CARGO_NET_OFFLINE='true', RUSTFLAGS='--cfg undermoon_verif')

os.makedirs(WORK, exist_ok=True)
os.makedirs(REPLAYS, exist_ok=True)


def _big_stack():
    # extracted OCaml code recurses on lists (non tail-recursive List functions): give the model processes the largest stack allowed
    import resource
    try:
        soft, hard = resource.getrlimit(resource.RLIMIT_STACK)
        resource.setrlimit(resource.RLIMIT_STACK, (hard, hard))
    except Exception:
        pass


def sh(cmd, timeout=3600, cwd=None, env=None, inp=None, preexec=None):
    try:
        p = subprocess.run(cmd, shell=isinstance(cmd, str), cwd=cwd, env=env or ENV, input=inp, preexec_fn=preexec,
                           stdout=subprocess.PIPE, stderr=subprocess.STDOUT, timeout=timeout, text=True)
        return p.returncode, p.stdout
    except subprocess.TimeoutExpired as e:
        return 124, (e.stdout or '') + '\nTIMEOUT'


def strip_comments(src):
    out, depth, i = [], 0, 0
    while i < len(src):
        if src.startswith('(*', i):
            depth += 1; i += 2
        elif src.startswith('*)', i) and depth > 0:
            depth -= 1; i += 2
        else:
            if depth == 0:
                out.append(src[i])
            i += 1
    return ''.join(out)


class Check:
    def __init__(self, prop, tier, seed):
        self.prop, self.tier, self.seed = prop, tier, seed
        self.t0 = time.time()
        self.rng = random.Random(seed)
        self.cov = {'obligations': 0, 'discharged': 0, 'checker_cmd': '', 'trusted_base': [],
                    'evaluations': 0, 'distinct_nontrivial': 0, 'rule': '', 'samples': [],
                    'traces_validated_against_impl': 0, 'theorems': [], 'subchecks': {}}
        self.assumptions = []
        self.violations = []      # (replay_path, suffix)
        self.known_printed = []
        self.known = [k for k in json.load(open(VERIF + '/known_findings.json')) if k.get('property') == prop]
        self._seen = set()
        self.nreplay = 0

    # ---------- proof side ----------
    def coq(self, extra_models=()):
        """Build Props/<prop>.vo and the models, audit the development, collect Print Assumptions."""
        prop = self.prop
        self.cov['checker_cmd'] = ('make -C coq Props/%s.vo (coqc 8.16.1, full .vo build) + hygiene grep + Print Assumptions allow-list'
                                   % prop + ('; coqchk -o -silent UM.Props.%s' % prop if self.tier == 'thorough' else ''))
        pf = '%s/Props/%s.v' % (COQ, prop)
        src = strip_comments(open(pf).read())
        thms = re.findall(r'^\s*Theorem\s+(\w+)', src, re.M)
        self.cov['obligations'] = len(thms)
        problems = []
        for t in thms:
            if not re.search(r'^\s*Check\s+%s\s*:' % re.escape(t), src, re.M):
                problems.append('theorem %s has no pinned statement (Check %s : ...)' % (t, t))
        # hygiene over the whole development
        for f in glob.glob(COQ + '/**/*.v', recursive=True):
            body = strip_comments(open(f).read())
            in_section = 0
            for ln in body.split('\n'):
                if re.match(r'\s*Section\b', ln): in_section += 1
                if re.match(r'\s*End\b', ln) and in_section > 0: in_section -= 1
                m = FORBIDDEN.search(ln)
                if m:
                    w = m.group(1)
                    if w.startswith(('Variable', 'Hypothes')) and in_section > 0:
                        continue
                    problems.append('forbidden token %r in %s' % (w, os.path.relpath(f, COQ)))
        sh(VERIF + '/tools/gen_coqproject.sh')
        rc, out = sh('flock /verif/work/coq.lock timeout 3000 make -j16 Props/%s.vo' % prop, cwd=COQ, timeout=3100)
        open('%s/coq_%s.log' % (WORK, prop), 'w').write(out)
        if rc != 0:
            err = [l for l in out.split('\n') if 'Error' in l or 'File "' in l][:6]
            problems.append('coq build of Props/%s.vo failed: %s' % (prop, ' | '.join(err)))
            self.cov['theorems'] = [{'name': t, 'status': 'not built'} for t in thms]
            return problems
        # Print Assumptions
        pa = '%s/pa_%s.v' % (WORK, prop)
        with open(pa, 'w') as f:
            f.write('From UM Require Import Props.%s.\n' % prop)
            for t in thms:
                f.write('Goal True. idtac "@@THM %s". exact I. Qed.\nPrint Assumptions %s.\n' % (t, t))
        rc, out = sh('timeout 600 coqc -Q %s UM %s' % (COQ, pa), cwd=WORK)
        allow = [l.strip() for l in open(VERIF + '/tools/axioms_allowlist.txt') if l.strip() and not l.startswith('#')]
        blocks = out.split('@@THM ')[1:]
        got = {}
        for b in blocks:
            name, _, rest = b.partition('\n')
            got[name.strip()] = rest.strip()
        discharged = 0
        for t in thms:
            txt = got.get(t)
            if txt is None:
                problems.append('no Print Assumptions output for %s' % t)
                self.cov['theorems'].append({'name': t, 'status': 'missing'})
                continue
            if txt.startswith('Closed under the global context'):
                axs = []
            else:
                axs = re.findall(r'^([\w.\']+)\s*:', txt, re.M)
            bad = [a for a in axs if a not in allow and a.split('.')[-1] not in allow]
            if bad:
                problems.append('theorem %s depends on assumptions outside the allow-list: %s' % (t, ', '.join(bad)))
            else:
                discharged += 1
            self.cov['theorems'].append({'name': t, 'assumptions': axs or 'closed'})
        self.cov['discharged'] = discharged if not [p for p in problems if 'forbidden' in p or 'pinned' in p] else 0
        if self.tier == 'thorough' and not problems:
            rc, out = sh('timeout 3000 coqchk -o -silent -Q %s UM UM.Props.%s' % (COQ, prop), cwd=COQ, timeout=3100)
            open('%s/coqchk_%s.log' % (WORK, prop), 'w').write(out)
            self.cov['coqchk'] = out.strip().split('\n')[-12:]
            if rc != 0:
                problems.append('coqchk rejected UM.Props.%s' % prop)
        return problems

    def build_models(self, group):
        rc, out = sh(VERIF + '/tools/build_model.sh ' + group, timeout=3600)
        return [] if rc == 0 else ['model build/extraction failed: ' + out[-600:]]

    # ---------- implementation side ----------
    def build_impl(self, group):
        d = HARNESS + '/' + group
        if not os.path.exists(d + '/Cargo.lock'):
            sh('cp /repo/Cargo.lock ' + d + '/Cargo.lock')
        rc, out = sh('cargo build --offline 2>&1', cwd=d, timeout=3000)
        open('%s/cargo_%s.log' % (WORK, self.prop), 'w').write(out)
        if rc != 0:
            errs = [l for l in out.split('\n') if l.startswith('error')][:8]
            return ['harness does not build against /repo working tree: ' + ' | '.join(errs)]
        return []

    def run_impl(self, domain, cases, timeout=1200, jobs=1):
        return self._run(UMH(domain), None, cases, timeout, jobs)

    def run_model(self, domain, cases, timeout=1200, jobs=1):
        return self._run(UMM(domain), None, cases, timeout, jobs)

    def _run(self, exe, domain, cases, timeout, jobs):
        if jobs <= 1 or len(cases) < 4 * jobs:
            rc, out = sh([exe], inp='\n'.join(cases) + '\n', timeout=timeout, preexec=_big_stack if 'um_model_' in exe else None)
            lines = out.split('\n')
            if lines and lines[-1] == '': lines.pop()
            return rc, lines
        chunk = (len(cases) + jobs - 1) // jobs
        procs = []
        for i in range(0, len(cases), chunk):
            p = subprocess.Popen([exe], stdin=subprocess.PIPE, stdout=subprocess.PIPE, stderr=subprocess.STDOUT, text=True, env=ENV,
                                 preexec_fn=_big_stack if 'um_model_' in exe else None)
            procs.append((p, '\n'.join(cases[i:i + chunk]) + '\n'))
        import threading
        outs = [None] * len(procs)
        def work(k):
            p, inp = procs[k]
            try:
                o, _ = p.communicate(inp, timeout=timeout)
            except subprocess.TimeoutExpired:
                p.kill(); o = 'TIMEOUT'
            outs[k] = (p.returncode, o)
        ths = [threading.Thread(target=work, args=(k,)) for k in range(len(procs))]
        [t.start() for t in ths]; [t.join() for t in ths]
        rc, lines = 0, []
        for r, o in outs:
            rc = rc or (r or 0)
            ls = o.split('\n')
            if ls and ls[-1] == '': ls.pop()
            lines += ls
        return rc, lines

    # ---------- bookkeeping ----------
    def count(self, case, nontrivial=True):
        self.cov['evaluations'] += 1
        if nontrivial:
            h = hashlib.sha1(case.encode()).digest()[:8]
            if h not in self._seen:
                self._seen.add(h)
                self.cov['distinct_nontrivial'] += 1

    def sample(self, s, limit=6):
        if len(self.cov['samples']) < limit:
            self.cov['samples'].append(s)

    def sub(self, name, **kw):
        self.cov['subchecks'].setdefault(name, {}).update(kw)

    def replay_file(self, data):
        self.nreplay += 1
        path = '%s/%s-%s-%d.json' % (REPLAYS, self.prop, self.tier, self.nreplay)
        data = dict(data, property=self.prop, replay_cmd='./check %s --replay %s' % (self.prop, path))
        json.dump(data, open(path, 'w'), indent=1)
        return path

    def violation(self, data, no_input=False):
        """data: dict describing failing input/observation. Known-finding classes are matched by id."""
        kid = data.get('known_id')
        if kid:
            for k in self.known:
                if k.get('id') == kid and k.get('status') == 'known':
                    msg = 'KNOWN-FINDING: property=%s %s' % (self.prop, k.get('what', kid))
                    if msg not in self.known_printed:
                        self.known_printed.append(msg)
                    return
        self.nviol = getattr(self, 'nviol', 0) + 1
        if self.nviol > 5:      # cap the number of replay files / lines per run; the count stays exact
            return
        path = self.replay_file(data)
        self.violations.append((path, ' no-failing-input-found' if no_input else ''))

    def finish(self, level='proof'):
        for m in self.known_printed:
            print(m)
        for k in self.known:
            if k.get('status') == 'known' and not any(k.get('what', k['id']) in m for m in self.known_printed):
                # listed finding not re-observed on this run: say so in evidence, do not print a KNOWN-FINDING line for it
                self.cov.setdefault('known_not_reobserved', []).append(k['id'])
        seen = set()
        for path, suf in self.violations:
            if (path, suf) in seen: continue
            seen.add((path, suf))
            print('VIOLATION property=%s replay=%s%s' % (self.prop, path, suf))
        ev = {'property_id': self.prop, 'tier': self.tier, 'seed': self.seed, 'level': level,
              'coverage': self.cov, 'assumptions': self.assumptions or list(self.cov.get('trusted_base', [])),
              'wall_s': round(time.time() - self.t0, 2), 'violations': getattr(self, 'nviol', 0)}
        os.makedirs(VERIF + '/evidence', exist_ok=True)
        json.dump(ev, open('%s/evidence/%s.json' % (VERIF, self.prop), 'w'), indent=1)
        print('%s %s: obligations=%d discharged=%d evaluations=%d distinct_nontrivial=%d violations=%d wall=%.1fs' % (
            self.prop, self.tier, self.cov['obligations'], self.cov['discharged'], self.cov['evaluations'],
            self.cov['distinct_nontrivial'], len(seen), time.time() - self.t0))
        return 1 if seen else 0


def diff_lines(cases, impl, model):
    """first index where the two outputs differ (or length mismatch)"""
    diffs = []
    n = min(len(impl), len(model), len(cases))
    for i in range(n):
        if impl[i] != model[i]:
            diffs.append(i)
    if len(impl) != len(cases) or len(model) != len(cases):
        diffs.append(n if n < len(cases) else len(cases) - 1)
    return diffs


def hexs(b):
    return b.hex() if b else '-'


def standard_proof_phase(chk, trusted, group):
    """Runs proof obligations + model build + impl build; returns True when correspondence can run."""
    chk.cov['trusted_base'] = trusted
    probs = chk.coq()
    for p in probs:
        chk.violation({'kind': 'proof-obligation', 'theorem_or_file': 'coq/Props/%s.v' % chk.prop, 'detail': p}, no_input=True)
    mp = chk.build_models(group)
    for p in mp:
        chk.violation({'kind': 'model-build', 'detail': p}, no_input=True)
    ip = chk.build_impl(group)
    for p in ip:
        chk.violation({'kind': 'correspondence-build', 'correspondence': 'harness/%s against /repo working tree' % group, 'detail': p,
                       'log': '%s/cargo_%s.log' % (WORK, chk.prop)}, no_input=True)
    return not mp and not ip
