#!/usr/bin/env python3
"""Regenerates MANIFEST.json from tools/manifest_src.py (single place where the claims are written)."""
import json, sys
sys.path.insert(0, '/verif/tools')
sys.path.insert(0, '/verif/checks')
import importlib, glob, os
from manifest_src import NOT_APPLICABLE, HOOK_COMMITS, CLAIMED
CHECKS = {}
for f in sorted(glob.glob('/verif/checks/C*.py')):
    pid = os.path.basename(f)[:-3]
    m = importlib.import_module(pid)
    if getattr(m, 'MANIFEST', None) and pid in CLAIMED:
        CHECKS[pid] = m.MANIFEST
props = [json.loads(l)['id'] for l in open('/verif/properties.jsonl')]
checks = []
for pid in props:
    if pid in CHECKS:
        c = CHECKS[pid]
        checks.append({
            'property_id': pid,
            'quick_cmd': './check %s quick' % pid,
            'thorough_cmd': './check %s thorough' % pid,
            'evidence_file': '/verif/evidence/%s.json' % pid,
            'replay_cmd_template': './check %s --replay {path}' % pid,
            'engine': 'coq-model+correspondence',
            'level_claimed': {'category': 'proof', 'text': c['text'], 'design_ref': c.get('ref', 'DESIGN.md section 8, ' + pid)},
            'level_note': c['note'],
            'technique': c['technique'],
        })
na = [{'property_id': p, 'reason': NOT_APPLICABLE[p]} for p in props if p not in CHECKS]
assert all(p in NOT_APPLICABLE for p in props if p not in CHECKS), 'every unclaimed property needs a reason'
m = {
    'version': 1,
    'setup_cmd': './tools/setup.sh',
    'hooks': {'guard': 'undermoon_verif (rustc cfg)', 'enable': 'RUSTFLAGS="--cfg undermoon_verif" (set in /verif/harness/.cargo/config.toml and by tools/vlib.py)',
              'baseline_off_cmd': 'cd /repo && (cargo nextest run --workspace --no-fail-fast --offline || cargo test --workspace --no-fail-fast --offline)',
              'source_commits': HOOK_COMMITS, 'add_only': True},
    'engines': [{'name': 'coq-model+correspondence', 'path': '/verif/coq, /verif/ocaml, /verif/harness, /verif/checks',
                 'serves_properties': sorted(CHECKS), 'kind_free_text': 'Coq 8.16.1 models + theorems (Props/Cxx.v), extracted to OCaml and run against the real crate on the same inputs'}],
    'checks': checks,
    'not_applicable': na,
    'notes': 'See DESIGN.md. Every check: (1) rebuilds Props/Cxx.vo, audits the development, compares Print Assumptions with the allow-list; (2) rebuilds the harness against /repo working tree; (3) runs model and implementation on the same cases; (4) evaluates the property monitors on the implementation output.',
}
json.dump(m, open('/verif/MANIFEST.json', 'w'), indent=1)
print('claimed:', sorted(CHECKS), 'not_applicable:', [x['property_id'] for x in na])
