#!/bin/bash
# build_model.sh <group>: builds the Coq models the group's extraction file needs (full .vo build), runs the
# extraction coq/Extract/Ex_<group>.v into ocaml/gen_<group>/, and builds ocaml/bin/um_model_<group>.
set -e
G=$1
[ -n "$G" ] || { echo "usage: build_model.sh <group>"; exit 2; }
mkdir -p /verif/work
/verif/tools/gen_coqproject.sh
cd /verif/coq
DEPS=$(coqdep -Q . UM Extract/Ex_$G.v 2>/dev/null | tr ' ' '\n' | grep '\.vo$' | grep -v '^Extract/' | sort -u | tr '\n' ' ')
(flock 9; timeout 3000 make -j16 $DEPS > /verif/work/coq_build_$G.log 2>&1) 9>/verif/work/coq.lock || { tail -40 /verif/work/coq_build_$G.log; exit 1; }
cd /verif/ocaml
BIN=bin/um_model_$G
NEED=0
[ -x $BIN ] || NEED=1
for f in $DEPS; do [ /verif/coq/$f -nt $BIN ] && NEED=1; done
for f in vio.ml driver_lib.ml d_$G.ml /verif/coq/Extract/Ex_$G.v; do [ $f -nt $BIN ] && NEED=1; done
if [ $NEED = 1 ]; then
  mkdir -p gen_$G bin
  find gen_$G -type f -delete
  (cd gen_$G && timeout 900 coqc -Q ../../coq UM -o /verif/work/Ex_$G.vo ../../coq/Extract/Ex_$G.v > /verif/work/extract_$G.log 2>&1) || { tail -20 /verif/work/extract_$G.log; exit 1; }
  cp vio.ml driver_lib.ml d_$G.ml gen_$G/
  echo "let () = Driver_lib.main D_$G.run_case" > gen_$G/main_$G.ml
  cd gen_$G
  SRCS=$(ocamlfind ocamldep -sort *.mli *.ml)
  ocamlfind ocamlopt -w -a -O2 $SRCS -o ../$BIN 2>/dev/null || ocamlfind ocamlopt -w -a $SRCS -o ../$BIN
fi
