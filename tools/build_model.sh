#!/bin/bash
# Builds the Coq development (full .vo build), runs extraction, builds the OCaml model driver.
set -e
cd /verif/coq
[ -f Makefile ] && [ Makefile -nt _CoqProject ] || coq_makefile -f _CoqProject -o Makefile >/dev/null
timeout 3000 make -j16 "$@" > /verif/work/coq_build.log 2>&1 || { tail -40 /verif/work/coq_build.log; exit 1; }
cd /verif/ocaml
# re-extract only when a model/.vo is newer than the driver
if [ ! -x bin/um_model ] || [ -n "$(find /verif/coq -name '*.vo' -newer bin/um_model -print -quit)" ] || [ -n "$(find /verif/ocaml -maxdepth 1 -name '*.ml' -newer bin/um_model -print -quit)" ]; then
  mkdir -p gen bin
  find gen -type f -delete
  (cd gen && timeout 600 coqc -Q ../../coq UM ../../coq/Extract/Extract.v > /verif/work/extract.log 2>&1) || { tail -20 /verif/work/extract.log; exit 1; }
  SRCS=$(cd gen && ocamlfind ocamldep -sort *.mli *.ml)
  (cd gen && ocamlfind ocamlopt -w -a -O2 -c $SRCS 2>/dev/null || ocamlfind ocamlopt -w -a -c $SRCS)
  GENCMX=$(cd gen && for f in $(ocamlfind ocamldep -sort *.ml); do echo gen/${f%.ml}.cmx; done)
  DRV=$(ocamlfind ocamldep -I gen -sort vio.ml d_*.ml driver.ml)
  ocamlfind ocamlopt -w -a -I gen $GENCMX $DRV -o bin/um_model
fi
