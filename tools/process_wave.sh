#!/bin/bash
# process_wave.sh <n> <suffix>: run the quick check against every finished wave-<n> seed (/tmp/mut/C??<suffix>/out) not yet run
N=$1; SUF=$2
for d in /tmp/mut/C??$SUF; do
  id=$(basename $d); id=${id%$SUF}
  [ -f $d/out/meta.json ] || continue
  [ -f /verif/seeded/$id-$N/detect.log ] && continue
  mkdir -p /verif/seeded/$id-$N; cp $d/out/*.diff $d/out/meta.json /verif/seeded/$id-$N/ 2>/dev/null
  echo "=== $id-$N"; /verif/tools/run_seed.sh $id-$N quick $id 2>&1 | tail -3
done
