#!/bin/bash
# _CoqProject = every .v under Base, Model, Proofs, Props (Extract/* is compiled separately by build_model.sh)
cd /verif/coq
{
  echo "-Q . UM"
  echo "-arg -w -arg -deprecated-syntactic-definition,-deprecated-hint-without-locality,-notation-overridden,-deprecated-instance-without-locality"
  find Base Model Proofs Props -name '*.v' | sort
} > _CoqProject.new
if ! cmp -s _CoqProject.new _CoqProject; then mv _CoqProject.new _CoqProject; coq_makefile -f _CoqProject -o Makefile >/dev/null; else rm _CoqProject.new; fi
[ -f Makefile ] || coq_makefile -f _CoqProject -o Makefile >/dev/null
