#!/bin/bash
# Run once after a fresh restore (offline): full Coq build, extraction + OCaml model drivers, harness builds.
mkdir -p /verif/work /verif/replays /verif/evidence
/verif/tools/gen_coqproject.sh
FAIL=0
(cd /verif/coq && timeout 7000 make -j16 -k > /verif/work/coq_full.log 2>&1) || { echo "coq: some targets failed (see work/coq_full.log)"; grep -B2 -A6 "Error" /verif/work/coq_full.log | head -60; }
for ex in /verif/coq/Extract/Ex_*.v; do
  g=$(basename $ex .v); g=${g#Ex_}
  /verif/tools/build_model.sh $g || { echo "model build failed: $g"; FAIL=1; }
done
for d in /verif/harness/*/; do
  [ -f $d/Cargo.toml ] || continue
  cp /repo/Cargo.lock $d/Cargo.lock
  (cd $d && CARGO_NET_OFFLINE=true cargo build --offline 2>&1 | tail -2) || { echo "harness build failed: $d"; FAIL=1; }
done
ls /verif/harness/target/debug/umh_* /verif/ocaml/bin/ 2>/dev/null | tr '\n' ' '
[ $FAIL = 0 ] && echo setup-ok
exit 0
