#!/bin/bash
# Run once after a fresh restore (offline): full Coq build, extraction + OCaml model driver, harness build.
set -e
mkdir -p /verif/work /verif/replays /verif/evidence
cd /verif/coq && coq_makefile -f _CoqProject -o Makefile >/dev/null
/verif/tools/build_model.sh
cd /verif/harness && cp /repo/Cargo.lock Cargo.lock && CARGO_NET_OFFLINE=true cargo build --offline 2>&1 | tail -3
test -x /verif/harness/target/debug/umh && test -x /verif/ocaml/bin/um_model && echo setup-ok
