HOOK_COMMITS = []
NOT_BUILT = 'not yet covered: model/theorem for this property not completed in this state of /verif (see DESIGN.md section 10)'
CHECKS = {
 'C19': {
  'text': 'Theorems C19_persistent, C19_positive (all n in [0,2^63): RESTORE ttl parses as 0 < t <= max 1 n), C19_not_found_skipped, C19_paths about Model/Ttl.v, '
          'which mirrors pttl_to_restore_expire_time and the reply classification of the scan/push and pull paths; the model is tied to the code by running '
          'the real function and the three real transfer paths on the same PTTL/DUMP replies as the extracted model, and the property monitor is evaluated on what the real code sent.',
  'note': 'Coq kernel; closed under the global context; extraction (ExtrOcamlBasic) + OCaml driver; harness stand-ins for Redis; Redis RESTORE/PTTL semantics assumed. '
          'Partial: key expiry in real time during a migration is outside the model.',
  'technique': 'Coq proof over a hand-written model + differential correspondence check against the real code',
 },
}
NOT_APPLICABLE = {('C%02d' % i): NOT_BUILT for i in range(1, 21)}
