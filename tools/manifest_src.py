HOOK_COMMITS = ['0ef6b80', '62f2d90', '104cc07', '2930f44', '1559732']
# properties whose check has been integrated and verified by the coordinator (agents' in-progress checks are not claimed)
CLAIMED = ['C%02d' % i for i in range(1, 21)]
NOT_BUILT = 'not yet covered: model/theorem for this property not completed in this state of /verif (see DESIGN.md section 10)'
# reason per property that has no checks/Cxx.py with a MANIFEST entry
NOT_APPLICABLE = {('C%02d' % i): NOT_BUILT for i in range(1, 21)}
