HOOK_COMMITS = []
NOT_BUILT = 'not yet covered: model/theorem for this property not completed in this state of /verif (see DESIGN.md section 10)'
# reason per property that has no checks/Cxx.py with a MANIFEST entry
NOT_APPLICABLE = {('C%02d' % i): NOT_BUILT for i in range(1, 21)}
