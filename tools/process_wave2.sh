#!/bin/bash
# process every finished second-wave seed that has not been run yet
for d in /tmp/mut/C*b; do
  id=$(basename $d); id=${id%b}
  [ -f $d/out/meta.json ] || continue
  [ -f /verif/seeded/$id-2/detect.log ] && continue
  mkdir -p /verif/seeded/$id-2; cp $d/out/*.diff $d/out/meta.json /verif/seeded/$id-2/ 2>/dev/null
  echo "=== $id-2"; /verif/tools/run_seed.sh $id-2 quick $id 2>&1 | tail -3
done
