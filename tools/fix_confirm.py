#!/usr/bin/env python3
"""post-process seeded/*/meta.json: a failing test counts as the demo when its name occurs in demo.diff"""
import json,glob,os,re
for d in sorted(glob.glob('/verif/seeded/*')):
    mp=d+'/meta.json'
    if not os.path.exists(mp): continue
    m=json.load(open(mp)); c=m.get('confirmed_by_coordinator')
    if not c: continue
    demo=open(d+'/demo.diff').read() if os.path.exists(d+'/demo.diff') else ''
    fails=[t for t in c.get('failed_tests_with_change','').split(';') if t]
    other=[]
    for t in fails:
        name=re.sub(r'^test (\S+) \.\.\. FAILED$',r'\1',t).split('::')[-1]
        if name not in demo and 'mut_demo' not in t: other.append(t)
    c['existing_tests_failing_with_change']=other
    c['ok']=(not other) and c.get('demo_exit_with_change',0)!=0 and c.get('demo_exit_without_change',1)==0
    json.dump(m,open(mp,'w'),indent=1)
    print(os.path.basename(d), c['ok'], other)
