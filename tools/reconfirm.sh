#!/bin/bash
# reconfirm.sh <seed name e.g. C04-3> ...: confirm seeds from the files kept under /verif/seeded/<name>/ (patch.diff, demo.diff, meta.json) in ONE
# scratch worktree /tmp/mut/cf that is reset for every seed (own target dir; sources are re-written so cargo rebuilds the crate):
#  (1) whole suite + demo with the change: every existing test passes, the demo fails; (2) change reverse-applied: the demo passes.
export CARGO_NET_OFFLINE=true CARGO_INCREMENTAL=0
W=/tmp/mut/cf
[ -d $W ] || git -C /repo worktree add --detach $W HEAD -q
for NAME in "$@"; do
  OUT=/verif/seeded/$NAME; ID=${NAME%-*}
  cd $W && git checkout -q -- . && git clean -fdq -e target && git apply $OUT/patch.diff && git apply $OUT/demo.diff || { echo "$NAME: cannot apply"; continue; }
  find src tests -newer $OUT/patch.diff -name '*.rs' >/dev/null; touch src/lib.rs
  DEMO=$(python3 -c "
import json,re
c=json.load(open('$OUT/meta.json')).get('demo_cmd','').replace('&amp;','&')
c=re.sub(r'/tmp/mut/C\d\d[a-z]?','$W',c)
print(c)")
  CARGO_TARGET_DIR=$W/target cargo test --offline --workspace --no-fail-fast > $OUT/suite_with_change.log 2>&1
  WITH_FAILED=$(grep -E "^test [^ ]+ \.\.\. FAILED" $OUT/suite_with_change.log | sort -u | tr '\n' ';')
  WITH_SUMMARY=$(grep -E "^test result" $OUT/suite_with_change.log | tr '\n' ';')
  bash -c "$DEMO" > $OUT/demo_with_change.log 2>&1; D1=$?
  git apply -R $OUT/patch.diff || echo "REVERSE APPLY FAILED" >> $OUT/demo_with_change.log
  touch src/lib.rs
  bash -c "$DEMO" > $OUT/demo_without_change.log 2>&1; D2=$?
  python3 - "$OUT" "$WITH_FAILED" "$WITH_SUMMARY" "$D1" "$D2" <<'PY'
import json,sys
out,wf,ws,d1,d2=sys.argv[1:6]
m=json.load(open(out+'/meta.json'))
nondemo=[t for t in wf.split(';') if t and 'mut_demo' not in t and 'demo' not in t.lower()]
m['confirmed_by_coordinator']={'what':'scratch worktree of /repo HEAD rebuilt from seeded/<name>/patch.diff + demo.diff: cargo test --offline --workspace --no-fail-fast with the change; demo_cmd with the change; demo_cmd with patch.diff reverse-applied',
  'failed_tests_with_change':wf,'summary_with_change':ws,'existing_tests_failing_with_change':nondemo,
  'demo_exit_with_change':int(d1),'demo_exit_without_change':int(d2),
  'ok': (not nondemo) and int(d1)!=0 and int(d2)==0}
json.dump(m,open(out+'/meta.json','w'),indent=1)
print(out, m['confirmed_by_coordinator']['ok'], 'demo', d1, d2, 'other failures:', nondemo)
PY
done
cd /verif; python3 tools/fix_confirm.py | grep -E -- "-3 "
